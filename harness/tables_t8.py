"""T8: generated tables of the `_serde.py` translator (harness/translate_t8.py): the regenerated Lean definitions of the circuit
(de)serialisation functions (`OQ/Generated/TranslatedC05.lean`, tied to the model of C05 by `OQ/Props/C05_TranslatedSerde.lean`) and the
JSON glue through which harness/translated_check_t8.py runs them in the model driver (`TranslatedDriverT8.lean`, tag "TRT8")."""
from .extract import table


@table("TranslatedC05.lean")
def translated_c05():
    """Lean definitions regenerated from the current source of circuits/_serde.py (+ `name` / `gate_is_parametric` of _gates.py)."""
    from . import translate_t8
    return translate_t8.translate().render()


# ---------------------------------------------------------------------------------------------------------------- driver glue
# The translated definitions are run under THE instantiation of the tie theorems (`TS.X genEnv C0`, OQ/Lemmas/C05_TranslatedSerdeDefs.lean:
# definitions only, Mathlib-free, builds whenever the generated file does – a broken tie theorem does not break the driver) at P := String (a decimal numeral or a symbol name), E := String (the Python repr of the exponent).
_GLUE = r'''open Lean OQ.Proto
namespace OQ.TRT8.Driver
open OQ.Generated OQ.PyT8 OQ.C05 OQ.C05.TS

/-- stand-in codec: a parameter is a numeral or a symbol name, printed as itself; parsing returns the text (after the symbol table
    has been built, which can raise); an exponent is its printed text -/
def isNum (s : String) : Bool := s.toInt?.isSome
def C0 : Codec String String where
  ser := fun p => p.toList
  sympify := fun _ t => .ok (String.ofList t)
  free := fun p => if isNum p then [] else [p.toList]
  expoText := fun e => e.toList
  defNe := fun a b => a != b

abbrev XX := TS.X (P := String) (E := String) genEnv C0
abbrev G := TGate String String
abbrev J := JV String

def errJ : PyT8.Err → Json
  | .KeyError => "KeyError" | .ValueError => "ValueError" | .TypeError => "TypeError"
  | .NotImplementedError => "NotImplementedError" | .RecursionError => "RecursionError" | .NotAGate => "NotAGate"
  | .IllTyped => "IllTyped"
def resJ {α : Type} (f : α → Json) : Except PyT8.Err α → Json
  | .ok a => Json.mkObj [("ok", f a)]
  | .error e => Json.mkObj [("exc", errJ e)]

partial def jvToJson : J → Json
  | .str s => Json.str s
  | .int n => Json.mkObj [("I", Json.str (toString n))]
  | .num e => Json.mkObj [("E", Json.str e)]
  | .arr l => Json.arr (l.map jvToJson).toArray
  | .obj kv => Json.mkObj [("D", Json.arr (kv.map (fun (k, v) => Json.arr #[Json.str k, jvToJson v])).toArray)]

partial def jvOfJson (j : Json) : Except String J := do
  match j with
  | .str s => pure (.str s)
  | .arr a => pure (.arr (← a.toList.mapM jvOfJson))
  | _ =>
    if let some i := fieldOpt j "I" then pure (.int (← intOfJson i))
    else if let some e := fieldOpt j "E" then pure (.num (← strOfJson e))
    else
      let kv ← arrOfJson (← field j "D")
      let kv ← kv.mapM (fun p => do
        match ← arrOfJson p with
        | [k, v] => pure (← strOfJson k, ← jvOfJson v)
        | _ => throw "a dict entry is [key, value]")
      pure (.obj kv)

def strsJ (l : List String) : Json := Json.arr (l.map Json.str).toArray
def namesJ (l : List OQ.C05.Name) : Json := strsJ (l.map String.ofList)
def defToJson (d : CustomDef String) : Json :=
  Json.mkObj [("gate_name", Json.str (String.ofList d.gateName)),
    ("matrix", Json.arr (d.matrix.map strsJ).toArray), ("ordering", namesJ d.ordering)]
def defOfJson (j : Json) : Except String (CustomDef String) := do
  let nm ← strOfJson (← field j "gate_name")
  let m ← listOfJson (listOfJson strOfJson) (← field j "matrix")
  let o ← listOfJson strOfJson (← field j "ordering")
  pure ⟨nm.toList, m, o.map String.toList⟩

partial def gateToJson : G → Json
  | .MatrixFactoryGate nm f ps nq h => Json.mkObj [("cls", "MatrixFactoryGate"), ("args", Json.arr #[Json.str nm,
      (match f with | none => Json.null | some d => defToJson d), strsJ ps, Json.str (toString nq), Json.bool h])]
  | .ControlledGate g k => Json.mkObj [("cls", "ControlledGate"), ("args", Json.arr #[gateToJson g, Json.str (toString k)])]
  | .Dagger g => Json.mkObj [("cls", "Dagger"), ("args", Json.arr #[gateToJson g])]
  | .Exponential g => Json.mkObj [("cls", "Exponential"), ("args", Json.arr #[gateToJson g])]
  | .Power g e => Json.mkObj [("cls", "Power"), ("args", Json.arr #[gateToJson g, Json.str e])]

/-- a gate object as built on the Python side (no constructor checks here: the object exists) -/
partial def gateOfJson (j : Json) : Except String G := do
  let cls ← strOfJson (← field j "cls")
  let args ← arrOfJson (← field j "args")
  match cls, args with
  | "MatrixFactoryGate", [nm, f, ps, nq, h] =>
    let f ← (match f with | .null => pure none | f => do pure (some (← defOfJson f)))
    pure (.MatrixFactoryGate (← strOfJson nm) f (← listOfJson strOfJson ps) (← intOfJson nq) (← boolOfJson h))
  | "ControlledGate", [g, k] => pure (.ControlledGate (← gateOfJson g) (← intOfJson k))
  | "Dagger", [g] => pure (.Dagger (← gateOfJson g))
  | "Exponential", [g] => pure (.Exponential (← gateOfJson g))
  | "Power", [g, e] => pure (.Power (← gateOfJson g) (← strOfJson e))
  | _, _ => throw s!"cannot build a {cls} from {args.length} argument(s)"

def opToJson (o : TOp String String) : Json :=
  Json.mkObj [("gate", gateToJson o.gate), ("qubits", intsToJson o.qubit_indices)]
def opOfJson (j : Json) : Except String (TOp String String) := do
  pure ⟨← gateOfJson (← field j "gate"), ← listOfJson intOfJson (← field j "qubits")⟩
def circToJson (c : TCirc String String) : Json :=
  Json.mkObj [("n", Json.str (toString c.nQubits)), ("ops", Json.arr (c.ops.map opToJson).toArray)]
def circOfJson (j : Json) : Except String (TCirc String String) := do
  pure ⟨← intOfJson (← field j "n"), ← listOfJson opOfJson (← field j "ops")⟩

def handle (op : String) (j : Json) : Except String Json := do
  match op with
'''

# op -> (lean definitions needed, handler body)
_HANDLERS = {
    "gate_name": (["gate_name"], 'pure (Json.str (TranslatedC05.gate_name XX (← gateOfJson (← field j "gate"))))'),
    "to_dict_gate": (["to_dict_gate"], 'pure (resJ jvToJson (TranslatedC05.to_dict_gate XX (← gateOfJson (← field j "gate"))))'),
    "gate_operation_to_dict": (["gate_operation_to_dict"],
                               'pure (resJ jvToJson (TranslatedC05.gate_operation_to_dict XX (← opOfJson (← field j "op"))))'),
    "custom_gate_def_to_dict": (["custom_gate_def_to_dict"],
                                'pure (resJ jvToJson (TranslatedC05.custom_gate_def_to_dict XX (← defOfJson (← field j "def"))))'),
    "circuit_to_dict": (["circuit_to_dict"],
                        'pure (resJ jvToJson (TranslatedC05.circuit_to_dict XX (← circOfJson (← field j "circuit"))))'),
    "circuitset_to_dict": (["circuitset_to_dict"],
                           'pure (resJ jvToJson (TranslatedC05.circuitset_to_dict XX (← listOfJson circOfJson (← field j "circuits"))))'),
    "builtin_gate_from_dict": (["builtin_gate_from_dict"],
                               'pure (resJ gateToJson (TranslatedC05.builtin_gate_from_dict XX (← jvOfJson (← field j "dict"))))'),
    "special_gate_from_dict": (["special_gate_from_dict", "gate_from_dict"],
                               'pure (resJ gateToJson (TranslatedC05.special_gate_from_dict XX (TranslatedC05.gate_from_dict XX (← natOfJson (← field j "fuel"))) '
                               '(← jvOfJson (← field j "dict")) (← listOfJson defOfJson (← field j "defs"))))'),
    "custom_gate_instance_from_dict": (["custom_gate_instance_from_dict"],
                                       'pure (resJ gateToJson (TranslatedC05.custom_gate_instance_from_dict XX (← jvOfJson (← field j "dict")) '
                                       '(← listOfJson defOfJson (← field j "defs"))))'),
    "gate_from_dict": (["gate_from_dict"],
                       'pure (resJ gateToJson (TranslatedC05.gate_from_dict XX (← natOfJson (← field j "fuel")) (← jvOfJson (← field j "dict")) '
                       '(← listOfJson defOfJson (← field j "defs"))))'),
    "gate_operation_from_dict": (["gate_operation_from_dict"],
                                 'pure (resJ opToJson (TranslatedC05.gate_operation_from_dict XX (← natOfJson (← field j "fuel")) '
                                 '(← jvOfJson (← field j "dict")) (← listOfJson defOfJson (← field j "defs"))))'),
    "custom_gate_def_from_dict": (["custom_gate_def_from_dict"],
                                  'pure (resJ defToJson (TranslatedC05.custom_gate_def_from_dict XX (← jvOfJson (← field j "dict"))))'),
    "circuit_from_dict": (["circuit_from_dict"],
                          'pure (resJ circToJson (TranslatedC05.circuit_from_dict XX (← natOfJson (← field j "fuel")) (← jvOfJson (← field j "dict"))))'),
    "circuitset_from_dict": (["circuitset_from_dict"],
                             'pure (resJ (fun l => Json.arr (l.map circToJson).toArray) (TranslatedC05.circuitset_from_dict XX '
                             '(← natOfJson (← field j "fuel")) (← jvOfJson (← field j "dict"))))'),
}


def available_ops():
    """the driver ops whose translated definitions exist now (everything the tie instantiation `TS.X` needs must exist, too)"""
    from . import translate_t8 as t8
    t = t8.translate()
    have = {u["lean"] for u in t.units.values()} | ({"gate_name"} if "name" in t.defs else set())
    if t.op_fields is None:
        return t, []      # the instantiation `TS.X` (OQ/Lemmas/C05_TranslatedSerdeDefs.lean) needs the GateOperation structure
    return t, [op for op, (needs, _) in _HANDLERS.items() if all(n in have for n in needs)]


@table("TranslatedDriverT8.lean")
def translated_driver_t8():
    """JSON glue (generated) for the differential check of the `_serde.py` translator (driver tag "TRT8")."""
    head = ["-- generated by harness/tables_t8.py — do not edit", "import OQ.Exec.Proto"]
    stub = ["open Lean", "namespace OQ.TRT8.Driver", "def handle (op : String) (j : Json) : Except String Json :=",
            '  .error s!"_serde.py is not translatable now: no definition for {op}"', "end OQ.TRT8.Driver"]
    try:
        t, ops = available_ops()
    except Exception as e:  # noqa: BLE001
        return "\n".join(head + [f"-- {e!r}"[:300].replace("\n", " ")] + stub) + "\n"
    if not ops:
        why = "; ".join(f"{k}: {v}" for k, v in t.failed.items())[:300].replace("\n", " ")
        return "\n".join(head + [f"-- not translatable now: {why}"] + stub) + "\n"
    out = head + ["import OQ.Lemmas.C05_TranslatedSerdeDefs", _GLUE.rstrip("\n")]
    for op in ops:
        out.append(f'  | "{op}" => {_HANDLERS[op][1]}')
    # the prelude functions that stand for CPython built-ins, reachable on their own
    out += ['  | "py_sorted" => pure (strsJ (sortedStr (← listOfJson strOfJson (← field j "l"))))',
            '  | "py_endswith" => pure (Json.bool (endswith (← strOfJson (← field j "s")) (← strOfJson (← field j "t"))))',
            '  | "py_in" => pure (Json.bool (strIn (← strOfJson (← field j "t")) (← strOfJson (← field j "s"))))',
            '  | "py_lt" => pure (Json.bool (ltChars (← strOfJson (← field j "s")).toList (← strOfJson (← field j "t")).toList))']
    out += ['  | _ => throw s!"no translated definition {op}"', "", "end OQ.TRT8.Driver"]
    return "\n".join(out) + "\n"
