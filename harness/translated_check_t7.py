"""T7: validation of the class translator harness/translate_t7.py (PauliTerm / PauliSum of operators/_pauli_operators.py, property C03).

Every definition of lean/OQ/Generated/TranslatedC03.lean that translates now is run in the compiled driver (tag "TRT7", generated glue
lean/OQ/Generated/TranslatedDriverT7.lean, see harness/tables_t7.py) on seeded operands and compared with the REAL PYTHON METHOD it was
translated from, called on real objects of the tree under test: `PauliTerm(d, c)`, `t1 * t2`, `2 * t`, `s - v`, `t == u`, `t ** p`,
`s.simplify()`, the properties, `_efficient_exponentiation(t, p)`, …  The comparison is exact: the dict `_ops` IN ORDER, coefficients as
fractions, the CLASS of a raised exception.

Exactness of the float side: coefficients are k/8 + (l/8)i with small k, l (every sum / product / power that occurs is a dyadic
rational of far fewer than 53 bits, so Python's float / complex arithmetic is exact); divisors have an exact reciprocal (checked
here); in the additive / comparing methods some coefficients differ by 2^-16 … 2^-30, well clear of both sides of the np.isclose /
np.allclose thresholds.  Qubit indices are 0..7, for which CPython iterates a `set` of ints in ascending order (asserted on every
operand) – the glue's `set_iter`.
A disagreement is a fault of the translator / prelude (INTERNAL-ERROR, exit 2, in run.py), never a verdict about /repo."""
import inspect
import operator
import random
import warnings
from fractions import Fraction

from . import common
from .tables_t7 import ASSOC, R, SEQ, SUM, TERM, VAL, parse_type

EXC = {"ValueError": "value", "TypeError": "type", "KeyError": "key", "IndexError": "index", "ZeroDivisionError": "zeroDiv",
       "RecursionError": "runtime", "RuntimeError": "runtime"}
# how a dunder method is reached from Python code (the number of a reflected method is the LEFT operand)
OPS = {"__mul__": operator.mul, "__rmul__": lambda a, b: b * a, "__truediv__": operator.truediv, "__pow__": operator.pow,
       "__add__": operator.add, "__radd__": lambda a, b: b + a, "__sub__": operator.sub, "__rsub__": lambda a, b: b - a,
       "__eq__": operator.eq, "__len__": len, "__getitem__": operator.getitem, "__iter__": lambda a: list(iter(a))}
ADDITIVE = {"simplify", "__add__", "__radd__", "__sub__", "__rsub__", "__eq__", "__init__", "copy"}   # no product of two coefficients
LETTERS = ["X", "Y", "Z"]
KS = [0, 1, -1, 2, -2, 3, -3, 4, -4, 8, -8]
SKIPPED = []   # (lean name, reason) of the last run: definitions that are not compared (a result of type Unit, no Python counterpart)


# ------------------------------------------------------------------------------------------------ operands (specs)
# number spec: (re, im, rep) with rep the Python type it is passed as; term spec: (ops [(q, letter)…], number spec); sum spec: [term…]
def _rep(r, re, im):
    if im != 0:
        return "complex"
    return r.choice(["int", "float", "complex"] if re.denominator == 1 else ["float", "complex"])


def _num(r, zero=0.1):
    if r.random() < zero:
        re = im = Fraction(0)
    else:
        re, im = Fraction(r.choice(KS), 8), (Fraction(r.choice(KS), 8) if r.random() < 0.6 else Fraction(0))
    return (re, im, _rep(r, re, im))


def _tiny(r):
    d = Fraction(1, 2 ** r.choice([16, 20, 26, 30])) * r.choice([1, -1])
    return (d, Fraction(0)) if r.random() < 0.7 else (Fraction(0), d)


def _near(r, c):
    """a coefficient at a tiny dyadic distance of `c` (inside or outside the isclose / allclose tolerance, never near its boundary)"""
    d = _tiny(r)
    return (c[0] + d[0], c[1] + d[1], "complex" if c[1] + d[1] != 0 else "float")


def _zeroish(r):
    """0, or 2^-30 (np.allclose to 0), or 2^-26 (not)"""
    u = r.random()
    if u < 0.5:
        return (Fraction(0), Fraction(0), r.choice(["int", "float", "complex"]))
    d = Fraction(1, 2 ** (30 if u < 0.85 else 26)) * r.choice([1, -1])
    return (d, Fraction(0), "float") if r.random() < 0.6 else (Fraction(0), d, "complex")


def _neg(c):
    return (-c[0], -c[1], c[2])


def _ops(r, lo=0, hi=4):
    qs = r.sample(range(8), r.randint(lo, hi))      # in a random insertion order
    return [(q, r.choice(LETTERS)) for q in qs]


def _term(r, tiny=False):
    c = _num(r)
    if tiny and r.random() < 0.2:
        c = _near(r, c)
    return (_ops(r), c)


def _sum(r, tiny=False):
    terms = []
    for _ in range(r.choice([0, 1, 2, 2, 3, 3, 4])):
        if terms and r.random() < 0.45:      # a like term: the same operator string (dict built in another order), maybe cancelling
            ops, c0 = r.choice(terms)
            ops = r.sample(ops, len(ops))
            u = r.random()
            c = _neg(c0) if u < 0.3 else (_near(r, _neg(c0)) if tiny and u < 0.55 else _num(r))
            terms.append((ops, c))
        else:
            terms.append(_term(r, tiny))
    return terms


def _val(r, tiny=False):
    k = r.choice(["num", "term", "sum"])
    return (k, {"num": _num, "term": lambda r: _term(r, tiny), "sum": lambda r: _sum(r, tiny)}[k](r))


def _divisor(r):
    cands = [(1, 0), (-1, 0), (2, 0), (-2, 0), (4, 0), (8, 0), (Fraction(1, 2), 0), (Fraction(-1, 4), 0), (0, 1), (0, -1), (0, 2),
             (0, Fraction(-1, 2)), (1, 1), (1, -1), (-1, 1), (Fraction(1, 2), Fraction(1, 2)), (2, -2), (0, 0), (0, 0), (0, 0)]
    while True:
        re, im = map(Fraction, r.choice(cands))
        spec = (re, im, _rep(r, re, im))
        if re == im == 0:
            return spec
        q = complex(1.0 / _py_num(spec))      # the reciprocal must be exact in floats
        a, b = Fraction(q.real), Fraction(q.imag)
        if (a * re - b * im, a * im + b * re) == (1, 0):
            return spec


def _gen(r, t, info, prev):
    """a seeded operand of the parsed Lean type `t` for the definition `info` (prev: the operands drawn so far)"""
    meth = info["meth"]
    tiny = meth in ADDITIVE
    if t == TERM:
        if meth == "__eq__" and not prev and r.random() < 0.25:     # a (nearly) zero term: equal to every other (nearly) zero term
            return (_ops(r), _zeroish(r))
        if meth == "__eq__" and prev:
            ops, c = prev[0][1]
            u = r.random()
            if abs(c[0]) + abs(c[1]) < Fraction(1, 1000) and u < 0.7:     # another operator string, again (nearly) zero
                return (_ops(r), _zeroish(r))
            if u < 0.6:      # the same operator string in another order, a close / equal coefficient
                return (r.sample(ops, len(ops)), c if u < 0.25 else (_near(r, c) if u < 0.5 else _num(r)))
        return _term(r, tiny)
    if t == SUM or t == ("List", TERM):
        return _sum(r, tiny)
    if t == VAL:
        return _val(r, tiny)
    if t == R:
        if meth == "__truediv__":
            return _divisor(r)
        if meth == "__eq__" and prev:
            c = prev[0][1][1]
            if abs(c[0]) + abs(c[1]) < Fraction(1, 1000) and r.random() < 0.6:
                return _zeroish(r)
            if prev[0][1][0] == [] and r.random() < 0.5:
                return c if r.random() < 0.5 else _near(r, c)
        return _num(r, zero=0.15)
    if t == ("Option", R):
        return None if r.random() < 0.3 else _num(r)
    if t == ("Int",):
        return r.randint(0, 6) if meth == "_efficient_exponentiation" else r.randint(-2, 6)
    if t == ("Nat",):
        qs = [q for q, _ in prev[0][1][0]] if prev and prev[0][0] == TERM else []
        return r.choice(qs) if qs and r.random() < 0.6 else r.randrange(8)
    if t == ("Letter",):
        return r.choice(LETTERS + ["I"])
    if t == ("OQ.Py.Dict", ("Nat",), ("Letter",)):
        return [(q, r.choice(LETTERS + ["I"])) for q in r.sample(range(8), r.randint(0, 4))]
    raise KeyError(f"no operand generator for the type {t}")


# ------------------------------------------------------------------------------------------------ specs -> JSON / Python objects
def _q(f):
    f = Fraction(f)
    return str(f.numerator) if f.denominator == 1 else f"{f.numerator}/{f.denominator}"


def _json(t, s):
    if t == TERM:
        return {"ops": [[q, p] for q, p in s[0]], "c": _json(R, s[1])}
    if t == SUM or t == ("List", TERM):
        return [_json(TERM, x) for x in s]
    if t == VAL:
        return {s[0]: _json({"num": R, "term": TERM, "sum": SUM}[s[0]], s[1])}
    if t == R:
        return [_q(s[0]), _q(s[1])]
    if t == ("Option", R):
        return None if s is None else _json(R, s)
    if t[0] in ASSOC:
        return [[q, p] for q, p in s]
    return s


def _py_num(s):
    re, im, rep = s
    if rep == "int":
        return int(re)
    if rep == "float":
        return float(re)
    return complex(float(re), float(im))


def _py(mod, t, s):
    """a FRESH Python operand (objects of the classes of the tree under test)"""
    if t == TERM:
        keys = [q for q, _ in s[0]]
        assert list(set(keys)) == sorted(keys), f"CPython does not iterate set({keys}) in ascending order"
        return mod.PauliTerm(dict(s[0]), _py_num(s[1]))
    if t == SUM:
        return mod.PauliSum([_py(mod, TERM, x) for x in s])
    if t == ("List", TERM):
        return [_py(mod, TERM, x) for x in s]
    if t == VAL:
        return _py(mod, {"num": R, "term": TERM, "sum": SUM}[s[0]], s[1])
    if t == R:
        return _py_num(s)
    if t == ("Option", R):
        return None if s is None else _py_num(s)
    if t[0] in ASSOC:
        return dict(s)
    return s


# ------------------------------------------------------------------------------------------------ Python results -> JSON
class Unexpected(Exception):
    pass


def _coef(c):
    import numpy as np
    if isinstance(c, bool) or not isinstance(c, (int, float, complex, np.number)):
        raise Unexpected(f"a coefficient of type {type(c).__name__}")
    z = complex(c)
    return [_q(Fraction(z.real)), _q(Fraction(z.imag))]


def _enc(mod, t, v):
    """canonical JSON of a Python result at the declared Lean result type `t`"""
    import numpy as np
    if t == TERM:
        if type(v) is not mod.PauliTerm:
            raise Unexpected(f"a {type(v).__name__} where a PauliTerm is declared")
        return {"ops": [[q, p] for q, p in v._ops.items()], "c": _coef(v.coefficient)}
    if t == SUM:
        if type(v) is not mod.PauliSum:
            raise Unexpected(f"a {type(v).__name__} where a PauliSum is declared")
        return [_enc(mod, TERM, x) for x in v.terms]
    if t == VAL:
        if type(v) is mod.PauliTerm:
            return {"term": _enc(mod, TERM, v)}
        if type(v) is mod.PauliSum:
            return {"sum": _enc(mod, SUM, v)}
        return {"num": _coef(v)}
    if t == R:
        return _coef(v)
    if t in (("Int",), ("Nat",)):
        if isinstance(v, bool) or not isinstance(v, (int, np.integer)):
            raise Unexpected(f"a {type(v).__name__} where an int is declared")
        return int(v)
    if t == ("Bool",):
        if not isinstance(v, (bool, np.bool_)):
            raise Unexpected(f"a {type(v).__name__} where a bool is declared")
        return bool(v)
    if t == ("Letter",):
        if not isinstance(v, str):
            raise Unexpected(f"a {type(v).__name__} where a str is declared")
        return v
    if t[0] == "OQ.Py.PySet":
        if not isinstance(v, (set, frozenset)):
            raise Unexpected(f"a {type(v).__name__} where a set is declared")
        return sorted(_enc(mod, t[1], x) for x in v)
    if t[0] == "List":
        if not isinstance(v, (list, tuple)):
            raise Unexpected(f"a {type(v).__name__} where a list is declared")
        return [_enc(mod, t[1], x) for x in v]
    if t[0] == "OQ.Py.FrozenItems":
        if not isinstance(v, (set, frozenset)):
            raise Unexpected(f"a {type(v).__name__} where a frozenset of items is declared")
        return sorted([_enc(mod, t[1], a), _enc(mod, t[2], b)] for a, b in v)
    if t[0] == "OQ.Py.Dict":
        if not isinstance(v, dict):
            raise Unexpected(f"a {type(v).__name__} where a dict is declared")
        return [[_enc(mod, t[1], a), _enc(mod, t[2], b)] for a, b in v.items()]
    if t[0] == "×":
        a, b = v
        return [_enc(mod, t[1], a), _enc(mod, t[2], b)]
    raise KeyError(f"no result encoding for the type {t}")


def _norm(t, g):
    """the driver's answer with the order-free parts (sets: distinct elements in insertion order) sorted"""
    if t[0] in ("OQ.Py.PySet", "OQ.Py.FrozenItems") and isinstance(g, list):
        return sorted(g)
    return g


# ------------------------------------------------------------------------------------------------ the Python side of a definition
def _resolve(mod, info):
    """how the Python counterpart of a translated definition is called: args -> value; None when it is not a method / function of
    the module now"""
    cls, meth = info["cls"], info["meth"]
    if cls is None:
        f = getattr(mod, meth, None)
        return f if inspect.isfunction(f) else None
    C = getattr(mod, cls, None)
    if not inspect.isclass(C) or meth not in C.__dict__:
        return None
    attr = C.__dict__[meth]
    if meth == "__init__":
        return (lambda *a: C(info["lit"], *a)) if info.get("lit") is not None else (lambda *a: C(*a))
    if isinstance(attr, staticmethod):
        return lambda *a: getattr(C, meth)(*a)
    if isinstance(attr, property):
        return lambda obj: getattr(obj, meth)
    if meth in OPS:
        return OPS[meth]
    return lambda obj, *a: getattr(obj, meth)(*a)


def _raised(e, partial):
    """the class of a raised exception as the translated definitions name it (the most specific listed base class)"""
    cls = next((EXC[c.__name__] for c in type(e).__mro__ if c.__name__ in EXC), None)
    return {"exc": cls} if cls and partial else {"python raised": type(e).__name__}


def _show(t, s):
    return common.canon(_json(t, s))


def run(seed=0, only="C03", per_fn=25):
    """returns (comparisons, disagreements, variants that are not translatable now)"""
    del SKIPPED[:]
    if only not in (None, "C03"):
        return 0, [], []
    common.use_repo()
    from . import tables_t7
    import orquestra.quantum.operators._pauli_operators as mod
    _text, infos, notes, error = tables_t7.current()
    untranslatable = sorted(notes) + ([f"operators/_pauli_operators.py ({error})"] if error else [])
    _glue, with_op, no_op = tables_t7.glue()
    bad = [f"{name}: {why}" for name, why in no_op.items()]
    rng = random.Random(f"translated-t7:{seed}")
    reqs, want, labels = [], [], []
    for name in with_op:
        info = infos[name]
        ats, rt = [parse_type(a) for a in info["args"]], parse_type(info["ret"])
        if rt == ("Unit",):
            SKIPPED.append((name, "returns Unit"))
            continue
        f = _resolve(mod, info)
        if f is None:
            SKIPPED.append((name, "no method / function of that name in the module"))
            continue
        for _ in range(per_fn):
            specs = []
            for t in ats:
                specs.append((t, _gen(rng, t, info, specs)))
            label = f"{name}({', '.join(_show(t, s) for t, s in specs)})"
            with warnings.catch_warnings():
                warnings.simplefilter("ignore")
                args = [_py(mod, t, s) for t, s in specs]      # fresh objects (a failure HERE is a fault of this check: it propagates)
                # object operands are sent to the driver in the STATE the real constructor left them in (`_ops`, `coefficient` of the
                # objects just built), so that a constructor that changes behaviour changes both sides alike
                payload = {}
                for i, ((t, sp), a) in enumerate(zip(specs, args)):
                    if t in (TERM, SUM, VAL):
                        payload[f"a{i}"] = _enc(mod, t, a)
                    elif t == ("List", TERM):
                        payload[f"a{i}"] = [_enc(mod, TERM, y) for y in a]
                    else:
                        payload[f"a{i}"] = _json(t, sp)
                try:
                    v = f(*args)
                    w = _enc(mod, rt, v)
                    w = {"ok": w} if info["partial"] else w
                except Unexpected as e:
                    w = {"python returned": str(e)}
                except Exception as e:  # noqa: BLE001
                    w = _raised(e, info["partial"])
            reqs.append((name, payload))
            want.append(w)
            labels.append((label, rt, info["partial"]))
    drv = common.Driver("TRT7")
    if not drv.available():
        return 0, ["model driver not built"], untranslatable
    got = drv.run(reqs) if reqs else []
    for (label, rt, partial), w, g in zip(labels, want, got):
        if partial and isinstance(g, dict) and "ok" in g:
            g = {"ok": _norm(rt, g["ok"])}
        elif not partial:
            g = _norm(rt, g)
        if g != w:
            bad.append(f"{label}: python {common.canon(w)}, translated definition {common.canon(g)}")
    return len(reqs), bad, untranslatable


if __name__ == "__main__":
    n, bad, sk = run()
    print(n, "comparisons;", len(bad), "disagreements; untranslatable:", sk, "; not compared:", SKIPPED)
    for b in bad[:20]:
        print("  ", b)
