"""T12: validation of the translator extension harness/translate_t12.py.  Every definition registered in harness/specs_t12.py that
translates now is run in the compiled driver (tag "TRT12", generated glue lean/OQ/Generated/TranslatedDriverT12.lean) on seeded
inputs and compared with the PYTHON FUNCTION IT WAS TRANSLATED FROM (imported from the tree under test).  Opaque objects are
stand-ins with the same behaviour on both sides: operations are integers with a table of qubit indices / flags, circuits are value
objects whose constructor may raise (a table of rejected widths), matrices are free terms (`a @ b` = ["mm", a, b], `eye(k)` =
["eye", k], …), so every call of an external and the ORDER of the calls is visible in the result.  `None` = the Python raises one
of the modelled exceptions.  A disagreement is a fault of the translator (INTERNAL-ERROR, exit 2), never a verdict about /repo.
A function that is not translatable now is skipped (its handler is not generated; its tie theorem is already broken)."""
import json
import random
import types

from . import common
from .translated_check_opaque import patched, _guarded

PROP_TAG = "TRT12"


class OutOfDomain(Exception):
    """raised by a stand-in when the Python function leaves the documented domain of the translation (negative exponent)"""


class Op:
    def __init__(self, k, qs, isop=True, bad=False, sym=False):
        self.k, self.qubit_indices, self.isop, self.bad, self.sym = k, tuple(qs), isop, bad, sym

    def lifted_matrix(self, n):
        if self.bad:
            raise ValueError("bad operation")
        return (SymM if self.sym else M)(["sym" if self.sym else "num", self.k, n])

    def bind(self, sm):
        return Op(self.k + 100 * sm, self.qubit_indices, self.isop, self.bad, self.sym)


class GOp(Op):
    pass


class M:
    def __init__(self, t):
        self.t = t

    def __matmul__(self, other):
        cls = SymM if isinstance(self, SymM) or isinstance(other, SymM) else M
        return cls(["mm", self.t, other.t])

    def tolist(self):
        return M(["tl", self.t])

    def transpose(self):
        return type(self)(["T", self.t])


class SymM(M):
    pass


def _mk_circ_class(bad):
    class SC:
        def __init__(self, operations=None, n_qubits=None):
            if n_qubits in bad:
                raise ValueError("rejected width")
            self.operations, self.n_qubits = list(operations), n_qubits
    return SC


def _ops(r, lo=0, hi=5, empty_ok=True):
    out = []
    for k in range(r.randrange(lo, hi)):
        qs = [r.randrange(0, 6) for _ in range(r.randrange(0 if empty_ok and r.random() < 0.2 else 1, 4))]
        out.append(qs)
    return out


def _gen_size(fn, r):
    ops = _ops(r)
    return {"ops": ops}, lambda: fn([Op(i, qs) for i, qs in enumerate(ops)] if r.random() < 0.5 else
                                    tuple(Op(i, qs) for i, qs in enumerate(ops)))


def _gen_init(fn, r):
    ops = None if r.random() < 0.2 else _ops(r)
    n = r.choice([None, None, 0, 1, 2, 7, -1, -3, r.randrange(-2, 9)])

    def thunk():
        from orquestra.quantum.circuits import _circuit
        obj = object.__new__(_circuit.Circuit)
        objs = None if ops is None else [Op(i, qs) for i, qs in enumerate(ops)]
        fn(obj, iter(objs) if objs is not None and r.random() < 0.5 else objs, n)
        return [[o.k for o in obj._operations], obj._n_qubits]
    return {"ops": ops, "n": n}, thunk


def _gen_prop(which):
    def gen(fn, r):
        ops, n = [r.randrange(9) for _ in range(r.randrange(0, 4))], r.randrange(0, 9)
        obj = types.SimpleNamespace(_operations=ops, _n_qubits=n, operations="wrong", n_qubits="wrong")
        return {"ops": ops, "n": n}, lambda: fn(obj)
    return gen


def _circ_payload(r):
    ops = _ops(r, 0, 4)
    n = r.randrange(0, 8)
    bad = [r.randrange(0, 9) for _ in range(r.randrange(0, 3))]
    return ops, n, bad


def _gen_append_operation(fn, r):
    ops, n, bad = _circ_payload(r)
    other = [r.randrange(0, 9) for _ in range(r.randrange(0 if r.random() < 0.15 else 1, 4))]
    SC = _mk_circ_class(bad)

    def thunk():
        c = SC([Op(i, qs) for i, qs in enumerate(ops)], -100)
        c.n_qubits = n
        res = fn(Op(99, other), c)
        return [[o.k for o in res.operations], res.n_qubits]
    return {"ops": ops, "n": n, "bad": bad, "other": other}, thunk


def _gen_append_circuit(fn, r):
    ops, n, bad = _circ_payload(r)
    ops2, n2, _ = _circ_payload(r)
    SC = _mk_circ_class(bad)

    def thunk():
        c = SC([Op(i, qs) for i, qs in enumerate(ops)], -100)
        d = SC([Op(50 + i, qs) for i, qs in enumerate(ops2)], -100)
        c.n_qubits, d.n_qubits = n, n2
        res = fn(d, c)
        return [[o.k for o in res.operations], res.n_qubits]
    return {"ops": ops, "n": n, "bad": bad, "ops2": ops2, "n2": n2}, thunk


def _gen_add(which):
    """`circuit + other` through the REAL singledispatch registry: the operands are instances of SUBCLASSES of the registered classes
    (`Circuit`, `GateOperation`) that override everything else the overloads use (constructor with a table of rejected widths,
    `operations`, `n_qubits`, `qubit_indices`), so that only the dispatch and the translated functions themselves are under test"""
    def gen(fn, r):
        from orquestra.quantum.circuits import _circuit, _gates
        ops, n, bad = _circ_payload(r)
        kind = r.choice(["gate", "gate", "circuit", "circuit", "phase", "int"])
        other_qs = [r.randrange(0, 9) for _ in range(r.randrange(0 if r.random() < 0.1 else 1, 4))]
        ops2, n2, _ = _circ_payload(r)

        class SC(_circuit.Circuit):
            operations = None
            n_qubits = None

            def __init__(self, operations=None, n_qubits=None):
                if n_qubits in bad:
                    raise ValueError("rejected width")
                self.operations, self.n_qubits = list(operations), n_qubits

        class SG(_gates.GateOperation):
            def __init__(self, k, qs):
                object.__setattr__(self, "k", k)
                object.__setattr__(self, "qubit_indices", tuple(qs))

        def thunk():
            c = SC([SG(i, qs) for i, qs in enumerate(ops)], -100)
            c.n_qubits = n
            if kind == "gate":
                other = SG(99, other_qs)
            elif kind == "circuit":
                other = SC([SG(50 + i, qs) for i, qs in enumerate(ops2)], -100)
                other.n_qubits = n2
            elif kind == "phase":
                other = Op(98, [0])          # an operation that is not a GateOperation
            else:
                other = 7
            res = fn(other, c) if which == "dispatch" else fn(c, other)
            return [[o.k for o in res.operations], res.n_qubits]
        return {"ops": ops, "n": n, "bad": bad, "kind": kind, "other": other_qs, "ops2": ops2, "n2": n2}, thunk
    return gen


def _gen_bind(fn, r):
    ops, n, bad = _circ_payload(r)
    sm = r.randrange(1, 5)
    SC = _mk_circ_class(bad)

    def thunk():
        c = SC([Op(i, qs) for i, qs in enumerate(ops)], -100)
        c.n_qubits = n
        res = fn(c, sm)
        return [[o.k for o in res.operations], res.n_qubits]
    return {"ops": ops, "n": n, "bad": bad, "sm": sm}, thunk


def _gen_to_unitary(fn, r):
    k = r.randrange(0, 5)
    p_sym = r.choice([0.0, 0.0, 0.4, 1.0])
    ops = [{"k": i, "isop": r.random() < 0.9, "bad": r.random() < 0.07, "sym": r.random() < p_sym} for i in range(k)]
    n = r.randrange(0, 6)
    f = patched(fn, _gates=types.SimpleNamespace(GateOperation=GOp),
                sympy=types.SimpleNamespace(MatrixBase=SymM, Matrix=lambda l: SymM(["sm", l.t])))

    def thunk():
        objs = [(GOp if o["isop"] else Op)(o["k"], [0], o["isop"], o["bad"], o["sym"]) for o in ops]
        return f(types.SimpleNamespace(operations=objs, n_qubits=n)).t
    return {"ops": ops, "n": n}, thunk


def _gen_split(fn, r):
    k = r.randrange(0, 8)
    pred = [r.random() < 0.5 for _ in range(k)]
    n = r.randrange(0, 6)
    bad = [r.randrange(0, 6)] if r.random() < 0.15 else []

    def ctor(operations, n_qubits):
        if n_qubits in bad:
            raise ValueError("rejected width")
        return ["C", [o.k for o in operations], n_qubits]
    f = patched(fn, Circuit=ctor)

    def thunk():
        objs = [Op(i, [0]) for i in range(k)]
        return [[bool(b), c] for b, c in f(types.SimpleNamespace(operations=objs, n_qubits=n), lambda o: pred[o.k])]
    return {"pred": pred, "n": n, "bad": bad}, thunk


def _gen_multiphase(fn, r):
    k = r.randrange(0, 5)
    params = [r.randrange(-3, 4) for _ in range(k)]
    symbolic = r.random() < 0.15 and k > 0
    vec = [r.randrange(-5, 6) for _ in range(k if r.random() < 0.75 else r.randrange(0, 6))]

    class Arr:
        def __init__(self, t):
            self.t = t

        def __mul__(self, o):
            return Arr(["scale", self.t, "1j" if o == 1j else repr(o)])

    class Vec:
        def __init__(self, t, n):
            self.t, self.n = t, n

        def __len__(self):
            return self.n

    def asarray(x, dtype=None):
        if dtype is None:
            return Vec(["asarray", x.t], x.n)
        if dtype is not float:
            raise OutOfDomain()
        if symbolic:
            raise TypeError("cannot convert a symbol")
        return Arr(["floats", list(x)])
    np_ = types.SimpleNamespace(asarray=asarray, exp=lambda a: Arr(["exp", a.t]),
                                multiply=lambda v, a: Vec(["mul", v.t, a.t], v.n))
    f = patched(fn, np=np_)
    return ({"params": params, "vec": vec, "symbolic": symbolic},
            lambda: f(types.SimpleNamespace(params=tuple(params)), Vec(["v", vec], len(vec))).t)


class ZM(M):
    """a matrix stand-in that records column assignments `Z[:, i] = v` (in place, as numpy does)"""

    def __setitem__(self, key, v):
        sl, i = key
        assert sl == slice(None, None, None)
        self.t = ["setcol", self.t, i, v.t]


def _zeros(dims):
    return ZM(["zeros", list(dims)])


def _b2dv(bits):
    return M(["vec", list(bits)])


def _gen_perm_matrix(fn, r):
    n = r.randrange(0, 5)
    order = list(range(n))
    r.shuffle(order)
    if r.random() < 0.3:
        order = [r.randrange(0, n + 1) for _ in range(r.randrange(0, 5))]
    return {"order": order}, lambda: fn(tuple(order) if r.random() < 0.5 else list(order), _zeros, _b2dv).t


def _gen_lift(fn, r):
    mode = r.randrange(10)
    n = r.randrange(1, 7)
    if mode == 0:
        qs = []
    elif mode == 1:   # duplicates (the permutation check raises) – kept inside the domain len <= span
        base = r.sample(range(n), min(n, r.randrange(1, 4)))
        qs = base + [r.choice(base)]
        if len(qs) > max(qs) - min(qs) + 1:
            qs = base
    else:
        qs = r.sample(range(n), r.randrange(1, min(n, 4) + 1))

    def eye(k):
        if not isinstance(k, int):
            raise OutOfDomain()
        return M(["eye", k])

    def thunk():
        res = fn(M("m"), tuple(qs) if r.random() < 0.5 else list(qs), n, _zeros, eye, lambda a, b: M(["kron", a.t, b.t]), _b2dv)
        return res.t
    return {"qs": qs, "n": n}, thunk



# ------------------------------------------------------------------ C09: the functions nested in get_pauliop_from_matrix
def _nested(outer, path, closure):
    """the REAL code object of a nested function (found in the constants of the enclosing code objects), as a callable whose
    free variables are bound to the given values"""
    code = getattr(outer, "__wrapped__", outer).__code__
    for name in path:
        code = next(c for c in code.co_consts if isinstance(c, types.CodeType) and c.co_name == name)
    cells = tuple(types.CellType(closure[v]) for v in code.co_freevars)
    return types.FunctionType(code, outer.__globals__, path[-1], None, cells)


def _quiet(thunk):
    def run():
        try:
            return thunk()
        except SystemExit:          # dec2bin: sys.exit
            return None
        except IndexError:
            return None
        except Exception as e:      # the bare `Exception` of decode
            if type(e) is Exception:
                return None
            raise
    return run


def _cx(z):
    from fractions import Fraction
    z = complex(z)
    return [str(Fraction(z.real)), str(Fraction(z.imag))]


def _gen_decode(fn, r):
    n = r.randrange(0, 5)
    ln = 2 * n if r.random() < 0.8 else r.randrange(0, 9)
    bits = [r.randrange(2) for _ in range(ln)]
    return {"n": n, "bits": bits}, _quiet(lambda: [int(x) for x in _nested(fn, ["decode"], {"n": n})(list(bits))])


def _label_j(r):
    n = r.randrange(1, 5)
    label = [r.randrange(4) for _ in range(n)]
    j = r.randrange(0, 2 ** n) if r.random() < 0.85 else r.choice([2 ** n, 2 ** n + 1 + r.randrange(3)])
    return n, label, j


def _gen_f(fn, r):
    n, label, j = _label_j(r)
    return ({"n": n, "label": label, "j": j},
            _quiet(lambda: int(_nested(fn, ["trace_product", "f"], {"n": n, "label_vec": list(label)})(j))))


def _gen_nz(fn, r):
    n, label, j = _label_j(r)
    return ({"n": n, "label": label, "j": j},
            _quiet(lambda: _cx(_nested(fn, ["trace_product", "nz"], {"n": n, "label_vec": list(label)})(j))))


def _gen_trace_product(fn, r):
    n = r.randrange(1, 4)
    d = 2 ** n
    rows = d if r.random() < 0.9 else d - 1
    op = [[r.randrange(-4, 5) for _ in range(d)] for _ in range(rows)]
    label = [r.randrange(4) for _ in range(n)]
    return ({"n": n, "op": op, "label": label},
            _quiet(lambda: _cx(_nested(fn, ["trace_product"], {"n": n, "operator": [list(x) for x in op]})(list(label)))))


_ADD = ('let ops2 ← listOfJson (listOfJson intOfJson) (← field j "ops2"); let n2 ← intOfJson (← field j "n2"); '
        'let other ← listOfJson intOfJson (← field j "other"); let kind ← strOfJson (← field j "kind"); '
        'let qi := fun (o : Int) => if o == 99 then other else if o ≥ 50 then ops2.getD (o - 50).toNat [] else ops.getD o.toNat []; '
        'let asG := fun (x : AddOperand) => (match x with | .gate o => some o | _ => none); '
        'let asC := fun (x : AddOperand) => (match x with | .circ c => some c | _ => none); '
        'let x : AddOperand := (if kind == "gate" then .gate 99 else if kind == "circuit" then '
        '.circ ((List.range ops2.length).map (fun i => 50 + Int.ofNat i), n2) else .other); ')

_CIRC = ('let ops ← listOfJson (listOfJson intOfJson) (← field j "ops"); let n ← intOfJson (← field j "n"); '
         'let bad ← listOfJson intOfJson (← field j "bad"); '
         'let c : List Int × Int := ((List.range ops.length).map Int.ofNat, n); ')
_NEW = '(fun (os : List Int) (k : Int) => if bad.contains k then none else some (os, k))'
_CJ = '(optJ (fun (r : List Int × Int) => jarr [jis r.1, ji r.2])'

GLUE = {
    "circuit_size_by_operations": {
        "gen": _gen_size,
        "lean": 'let ops ← listOfJson (listOfJson intOfJson) (← field j "ops"); '
        'pure (optJ ji (Translated.circuit_size_by_operations (fun (o : List Int) => o) ops))'},
    "circuit_init": {
        "gen": _gen_init,
        "lean": 'let ops ← (match fieldOpt j "ops" with | none => pure none | some v => do pure (some (← listOfJson (listOfJson intOfJson) v))); '
        'let n ← (match fieldOpt j "n" with | none => pure none | some v => do pure (some (← intOfJson v))); '
        'pure (optJ (fun (r : List (Int × List Int) × Int) => jarr [jis (r.1.map (fun o => o.1)), ji r.2]) '
        '(Translated.circuit_init (fun (o : Int × List Int) => o.2) '
        '(ops.map (fun l => (l.zipIdx).map (fun (p : List Int × Nat) => (((p.2 : Nat) : Int), p.1)))) n))'},
    "circuit_operations": {
        "gen": _gen_prop("operations"),
        "lean": 'let ops ← listOfJson intOfJson (← field j "ops"); let n ← intOfJson (← field j "n"); '
        'pure (jis (Translated.circuit_operations (fun (c : List Int × Int) => c.1) (fun c => c.2) (ops, n)))'},
    "circuit_n_qubits": {
        "gen": _gen_prop("n_qubits"),
        "lean": 'let ops ← listOfJson intOfJson (← field j "ops"); let n ← intOfJson (← field j "n"); '
        'pure (ji (Translated.circuit_n_qubits (fun (c : List Int × Int) => c.1) (fun c => c.2) (ops, n)))'},
    "append_operation": {
        "gen": _gen_append_operation,
        "lean": _CIRC + 'let other ← listOfJson intOfJson (← field j "other"); '
        f'pure ({_CJ} (Translated.append_operation (fun (o : Int) => if o == 99 then other else ops.getD o.toNat []) '
        f'(fun (c : List Int × Int) => c.1) (fun c => c.2) {_NEW} 99 c)))'},
    "append_circuit": {
        "gen": _gen_append_circuit,
        "lean": _CIRC + 'let ops2 ← listOfJson (listOfJson intOfJson) (← field j "ops2"); let n2 ← intOfJson (← field j "n2"); '
        'let d : List Int × Int := ((List.range ops2.length).map (fun i => 50 + Int.ofNat i), n2); '
        f'pure ({_CJ} (Translated.append_circuit (ω := Int) (fun (c : List Int × Int) => c.1) (fun c => c.2) {_NEW} d c)))'},
    "append_to_circuit": {
        "gen": _gen_add("dispatch"),
        "lean": _CIRC + _ADD + f'pure ({_CJ} (Translated.append_to_circuit qi (fun (c : List Int × Int) => c.1) (fun c => c.2) {_NEW} asG asC x c)))'},
    "circuit_add": {
        "gen": _gen_add("add"),
        "lean": _CIRC + _ADD + f'pure ({_CJ} (Translated.circuit_add qi (fun (c : List Int × Int) => c.1) (fun c => c.2) {_NEW} asG asC c x)))'},
    "circuit_bind": {
        "gen": _gen_bind,
        "lean": _CIRC + 'let sm ← intOfJson (← field j "sm"); '
        f'pure ({_CJ} (Translated.circuit_bind (fun (c : List Int × Int) => c.1) (fun c => c.2) '
        f'(fun (o : Int) (s : Int) => o + 100 * s) {_NEW} c sm)))'},
    "circuit_to_unitary": {
        "gen": _gen_to_unitary,
        "lean": 'let ops ← arrOfJson (← field j "ops"); let n ← intOfJson (← field j "n"); '
        'pure (optJ id (Translated.circuit_to_unitary (fun (c : List Json × Int) => c.1) (fun c => c.2) '
        '(fun (o : Json) => getB o "isop") '
        '(fun (o : Json) (k : Int) => if getB o "bad" then none else some (tag (if getB o "sym" then "sym" else "num") [getF o "k", ji k])) '
        '(fun (m : Json) => headIs m "sym" || headIs m "sm") (fun (m : Json) => tag "tl" [m]) (fun (l : Json) => tag "sm" [l]) '
        '(fun (a b : Json) => tag "mm" [a, b]) (ops, n)))'},
    "split_circuit": {
        "gen": _gen_split,
        "lean": 'let pred ← listOfJson boolOfJson (← field j "pred"); let n ← intOfJson (← field j "n"); '
        'let bad ← listOfJson intOfJson (← field j "bad"); '
        'pure (optJ (fun (l : List (Bool × Json)) => jarr (l.map (fun p => jarr [Json.bool p.1, p.2]))) '
        '(Translated.split_circuit (fun (c : List Int × Int) => c.1) (fun c => c.2) '
        '(fun (os : List Int) (k : Int) => if bad.contains k then none else some (tag "C" [jis os, ji k])) '
        '((List.range pred.length).map Int.ofNat, n) (fun (o : Int) => pred.getD o.toNat false)))'},
    "multiphase_apply": {
        "gen": _gen_multiphase,
        "lean": 'let params ← listOfJson intOfJson (← field j "params"); let vec ← listOfJson intOfJson (← field j "vec"); '
        'let symbolic ← boolOfJson (← field j "symbolic"); '
        'pure (optJ (fun (r : Json × Int) => r.1) (Translated.multiphase_apply (π := List Int) (fun p => p) (fun (v : Json × Int) => v.2) '
        '(fun (l : List Int) => if symbolic then none else some (tag "floats" [jis l])) (Json.str "1j") '
        '(fun (a : Json) (c : Json) => tag "scale" [a, c]) (fun (a : Json) => tag "exp" [a]) '
        '(fun (v : Json × Int) => (tag "asarray" [v.1], v.2)) (fun (v : Json × Int) (a : Json) => (tag "mul" [v.1, a], v.2)) '
        'params (tag "v" [jis vec], ((vec.length : Nat) : Int))))'},
    "permutation_matrix": {
        "gen": _gen_perm_matrix,
        "lean": 'let order ← listOfJson intOfJson (← field j "order"); '
        'pure (optJ id (Translated.permutation_matrix (fun (m : Json) (i : Int) (v : Json) => tag "setcol" [m, ji i, v]) order '
        '(fun (dims : List Int) => tag "zeros" [jis dims]) (fun (bits : List Int) => tag "vec" [jis bits])))'},
    "lift_matrix": {
        "gen": _gen_lift,
        "lean": 'let qs ← listOfJson intOfJson (← field j "qs"); let n ← intOfJson (← field j "n"); '
        'pure (optJ id (Translated.lift_matrix (fun (m : Json) (i : Int) (v : Json) => tag "setcol" [m, ji i, v]) '
        '(fun (m : Json) => tag "T" [m]) (fun (a b : Json) => tag "mm" [a, b]) (Json.str "m") qs n '
        '(fun (dims : List Int) => tag "zeros" [jis dims]) '
        '(fun (k : Int) => tag "eye" [ji k]) (fun (a b : Json) => tag "kron" [a, b]) (fun (bits : List Int) => tag "vec" [jis bits])))'},
    "pauli_decode": {
        "gen": _gen_decode,
        "lean": 'let n ← intOfJson (← field j "n"); let bits ← listOfJson intOfJson (← field j "bits"); '
        'pure (optJ jis (Translated.pauli_decode n bits))'},
    "pauli_f": {
        "gen": _gen_f,
        "lean": 'let n ← intOfJson (← field j "n"); let label ← listOfJson intOfJson (← field j "label"); let jj ← intOfJson (← field j "j"); '
        'pure (optJ ji (Translated.pauli_f n label jj))'},
    "pauli_nz": {
        "gen": _gen_nz,
        "lean": 'let n ← intOfJson (← field j "n"); let label ← listOfJson intOfJson (← field j "label"); let jj ← intOfJson (← field j "j"); '
        'pure (optJ cxJ (Translated.pauli_nz cx1 cxI cxNeg cxMul cxMulInt n label jj))'},
    "pauli_trace_product": {
        "gen": _gen_trace_product,
        "lean": 'let n ← intOfJson (← field j "n"); let label ← listOfJson intOfJson (← field j "label"); '
        'let op ← listOfJson (listOfJson intOfJson) (← field j "op"); '
        'pure (optJ cxJ (Translated.pauli_trace_product cx1 cxI cxNeg cxMul cxMulInt (0, 0) cxAdd cxDivInt n '
        '(op.map (fun row => row.map (fun (x : Int) => ((x : Rat), (0 : Rat))))) label))'},
}

_HEADER = '''open Lean OQ.Proto
namespace OQ.TRT12.Driver
open OQ.Generated
def tag (f : String) (args : List Json) : Json := Json.arr (Json.str f :: args).toArray
def ji (n : Int) : Json := Json.num (JsonNumber.fromInt n)
def jis (l : List Int) : Json := Json.arr (l.map ji).toArray
def jarr (l : List Json) : Json := Json.arr l.toArray
def optJ {α : Type} (f : α → Json) : Option α → Json
  | none => Json.null
  | some a => f a
def getF (j : Json) (k : String) : Json := (j.getObjVal? k).toOption.getD Json.null
def getB (j : Json) (k : String) : Bool := ((getF j k).getBool?).toOption.getD false
inductive AddOperand where
  | gate (o : Int)
  | circ (c : List Int × Int)
  | other
abbrev Cx := Rat × Rat
def cx1 : Cx := (1, 0)
def cxI : Cx := (0, 1)
def cxNeg (x : Cx) : Cx := (-x.1, -x.2)
def cxMul (x y : Cx) : Cx := (x.1 * y.1 - x.2 * y.2, x.1 * y.2 + x.2 * y.1)
def cxMulInt (x : Cx) (z : Int) : Cx := (x.1 * (z : Rat), x.2 * (z : Rat))
def cxAdd (x y : Cx) : Cx := (x.1 + y.1, x.2 + y.2)
def cxDivInt (x : Cx) (z : Int) : Cx := (x.1 / (z : Rat), x.2 / (z : Rat))
def cxJ (x : Cx) : Json := jarr [ratToJson x.1, ratToJson x.2]
def headIs (j : Json) (s : String) : Bool :=
  match j with
  | Json.arr a => (a[0]?.map (fun h => h == Json.str s)).getD false
  | _ => false
'''


def _my_specs():
    from . import specs_t12
    out = []
    for prop, lst in sorted(specs_t12.SPECS().items()):
        for spec in lst:
            if spec[1] in GLUE:
                out.append((prop, spec))
    return out


def _translatable(spec):
    from . import tables
    fn, name, args, ret, partial, opt = spec
    try:
        tables._translate(fn, name, args, ret, partial, opt)
        return True
    except Exception:
        return False


def driver_text():
    good = [(prop, spec) for prop, spec in _my_specs() if _translatable(spec)]
    out = ["-- generated by harness/translated_check_t12.py — do not edit", "import OQ.Exec.Proto"]
    out += [f"import OQ.Generated.Translated{p}" for p in sorted({p for p, _ in good})]
    out += [_HEADER, "def handle (op : String) (j : Json) : Except String Json := do", "  match op with"]
    for _, spec in good:
        out.append(f'  | "{spec[1]}" => {GLUE[spec[1]]["lean"]}')
    out += ['  | _ => throw s!"no translated definition {op}"', "", "end OQ.TRT12.Driver"]
    return "\n".join(out) + "\n"


def props():
    from . import specs_t12
    return list(specs_t12.PROPS)


def _norm(x):
    if isinstance(x, M):
        return _norm(x.t)
    if isinstance(x, (list, tuple)):
        return [_norm(v) for v in x]
    return x


def run(seed=0, per_fn=40, only=None):
    """returns (comparisons, disagreements, untranslatable names, not-compared count)"""
    common.use_repo()
    rng = random.Random(f"translated-t12:{seed}")
    reqs, want, skipped, dropped = [], [], [], 0
    for prop, spec in _my_specs():
        if only and prop != only:
            continue
        fn, name = spec[0], spec[1]
        if not _translatable(spec):
            skipped.append(name)
            continue
        for _ in range(per_fn):
            payload, thunk = GLUE[name]["gen"](fn, rng)

            def guarded(thunk=thunk):
                try:
                    return thunk()
                except (NotImplementedError, RuntimeError):
                    return None
            ok, val = _guarded(guarded)   # ValueError / AssertionError -> None; other exceptions: not compared
            if not ok and isinstance(val, str) and val.startswith("TypeError"):
                ok, val = True, None      # `reduce` of an empty sequence
            if not ok:
                dropped += 1
                continue
            reqs.append((name, payload))
            want.append(_norm(val))
    drv = common.Driver(PROP_TAG)
    if not drv.available():
        return 0, ["model driver not built"], skipped, dropped
    got = drv.run(reqs) if reqs else []
    bad = []
    for (name, payload), w, g in zip(reqs, want, got):
        if json.loads(json.dumps(w)) != g:
            bad.append(f"{name} {json.dumps(payload)[:300]}: python {json.dumps(w)[:200]}, translated definition {json.dumps(g)[:200]}")
    return len(reqs), bad, skipped, dropped


if __name__ == "__main__":
    n, bad, sk, dr = run()
    print(n, "comparisons;", len(bad), "disagreements; untranslatable:", sk, "; not compared:", dr)
    for b in bad[:20]:
        print("  ", b)
