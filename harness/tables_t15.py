"""T15: generated driver glue for the translated measurement-statistics definitions (see harness/translated_check_t15.py)."""
from .extract import table


@table("TranslatedDriverT15.lean")
def translated_driver_t15():
    from . import translated_check_t15
    return translated_check_t15.driver_text()
