"""Translator extension T14 (on top of harness/translate_t4.py): shot bookkeeping with numeric code whose float / numpy / random
operations are EXTERNAL PARAMETERS (property C13: `utils.scale_and_discretize`,
`Measurements.get_measurements_representing_distribution`).

`T14` subclasses `translate_t4.T4`: everything of T4 (abstract numeric type `ν`, `Except OQ.Py.Exc4`, dicts, hoisting of effects in
evaluation order, methods / constructors of translated classes) is inherited.  Added here:

  externals  : a spec's `ext` entry may name a BUILTIN or a MODULE-LEVEL FUNCTION (`round`, `int`, `sample_from_probability_distribution`,
               `_check_sample_elimination`) or an operator on `ν` (`%`) besides dotted names (`np.floor`, `np.argsort`): the call / the
               operation becomes an application of the parameter `ext_…` (pure; what the external may raise is not modelled and is
               stated with the tie theorems).  `int(x)` / `round(x)` are externals only where `x : ν`; `int(k)` of an int stays `k`.
  lists      : `xs[i] = v`, `xs[i] op= v` on a LIST (the old item is read first with `OQ.Py.indexE`: IndexError, negative indices from the
               end; then `OQ.Py.listSet`), `xs.remove(v)` as a statement (`OQ.Py.listRemoveE`: ValueError when absent).
  assert     : `assert c[, msg]` is `if c then … else Except.error OQ.Py.Exc4.runtime` – `Exc4` has no AssertionError class; the
               rendering is REFUSED in a function that contains `raise RuntimeError` or calls a translated function (whose RuntimeError
               could then not be told from the failed assertion).
  numbers    : a non-integral float literal is the exact quotient of its `float.as_integer_ratio()` (`0.5` is `1 / 2` in `ν`);
               `abs(x)` is `OQ.Py.absNum` on `ν` and `OQ.Py.absInt` on ints.
  dict comprehensions whose key / value may raise (`{k: d[k] … for k in d.keys()}`) are loops (`OQ.Py.foldlE` with `OQ.Py.dictSet`).
  objects    : a PARAMETER may be declared an object of a translated class with ONE state attribute (`param_objs`); the object is its
               state, `obj.attr` reads it; an object passed to an external is passed as its state.
"""
import ast
import copy
import inspect
import textwrap

from . import translate as tr
from . import translate_t4 as t4
from .translate import T, TranslateError, INT, BOOL, is_list, elem, list_of
from .translate_t4 import T4, NU, DICT, is_dict, dict_kv, ok, err, _name, _callname, _load, _dotted


class T14(T4):
    def sub(self, extra, objs=None):
        o = dict(self.objs)
        for k in extra:
            o.pop(k, None)
        o.update(objs or {})
        return T14({**self.env, **extra}, self.ret, self.ctx, o)

    # ------------------------------------------------------------------ externals by plain name / operator
    def ext_name(self, f):
        x = self.ctx.ext_by_py(f)
        return x if x is not None and "→" in x[1] else None

    def ext_apply(self, x, args, what):
        sig = [s.strip() for s in x[1].split("→")]
        if len(args) != len(sig) - 1:
            raise TranslateError(f"arity of the external {what}")
        texts = []
        for (v, tv), ts in zip(args, sig[:-1]):
            ts = t4._unparen(ts)
            if ts == NU and tv == INT:
                v = self.num(v, tv)
            elif t4._unparen(tv) != ts:
                raise TranslateError(f"argument of the external {what}: {tv}, declared {ts}")
            texts.append(v)
        return "(" + " ".join([x[0]] + texts) + ")", t4._unparen(sig[-1])

    def e(self, n):
        if isinstance(n, ast.Constant) and isinstance(n.value, float) and n.value != int(n.value):
            p, q = n.value.as_integer_ratio()
            return f"((({p} : Int) : ν) / (({q} : Int) : ν))", NU
        if isinstance(n, ast.Attribute) and _name(n.value) and n.value.id in self.objs:
            attrs = self.ctx.objects.get(self.objs[n.value.id])
            if attrs == [n.attr] and n.value.id in self.env:
                return n.value.id, self.env[n.value.id]
            raise TranslateError(f"attribute {n.attr} of the object {n.value.id}")
        return super().e(n)

    def binop(self, n):
        if isinstance(n.op, ast.Mod):
            a, ta = self.e(n.left)
            b, tb = self.e(n.right)
            if NU in (ta, tb) and {ta, tb} <= {NU, INT}:
                x = self.ext_name("%")
                if x is None:
                    raise TranslateError("% on numeric values without a declared external")
                return self.ext_apply(x, [(a, ta), (b, tb)], "%")
        return super().binop(n)

    def call(self, n):
        f = _callname(n)
        if f is not None and self.known_entry(n) is None and not n.keywords:
            if f in ("round", "int") and len(n.args) == 1:
                v, tv = self.e(n.args[0])
                if tv == NU:
                    x = self.ext_name(f)
                    if x is None:
                        raise TranslateError(f"{f}(…) of a numeric value without a declared external")
                    return self.ext_apply(x, [(v, tv)], f)
                if tv == INT:
                    return v, tv
                raise TranslateError(f"{f}({tv})")
            if f == "abs" and len(n.args) == 1:
                v, tv = self.e(n.args[0])
                if tv == NU:
                    return f"(OQ.Py.absNum {v})", NU
                if tv == INT:
                    return f"(OQ.Py.absInt {v})", INT
                raise TranslateError(f"abs({tv})")
            x = self.ext_name(f)
            if x is not None and f not in ("round", "int", "%"):
                if self.ctx.globals.get(f) is None:
                    raise TranslateError(f"the external {f} is not a module-level name now")
                return self.ext_apply(x, [self.e(a) for a in n.args], f)
        return super().call(n)

    # ------------------------------------------------------------------ effects
    def effect_node(self, n):
        if isinstance(n, ast.Call) and _callname(n) == "int" and len(n.args) == 1 and self.ext_name("int") is not None:
            return True   # decided at emission: pure for ν (external) and int, may raise for str
        return super().effect_node(n)

    def hoist(self, n, items):
        if isinstance(n, ast.DictComp) and self.impure(n):
            g = n.generators[0]
            if len(n.generators) != 1 or g.ifs:
                raise TranslateError("dict comprehension with several generators / filters")
            n2 = copy.copy(n)
            n2.generators = [copy.copy(g)]
            n2.generators[0].iter = self.hoist(g.iter, items)
            tmp = self.fresh()
            items.append(("dictcomp", tmp, n2))
            return _load(tmp)
        return super().hoist(n, items)

    def emit(self, items, cont):
        if items and items[0][0] == "call":
            tmp, n = items[0][1], items[0][2]
            if _callname(n) == "int" and len(n.args) == 1 and not n.keywords and self.known_entry(n) is None:
                v, tv = self.e(n.args[0])
                if tv == NU:
                    x, tx = self.call(n)
                    rest = self.sub({tmp: tx}).with_rest(self._rest).emit(items[1:], cont)
                    return f"let {tmp} : {tx} := {x}\n  {rest}"
        if items and items[0][0] == "dictcomp":
            tmp, n = items[0][1], items[0][2]
            if not self.partial:
                raise TranslateError("an expression that may raise in a function not declared partial")
            g = n.generators[0]
            it, te = self.iter_of(g.iter)
            var = g.target.id if isinstance(g.target, ast.Name) else "p0"
            env, lets, _ = self._bind_target(g.target, te, var)
            inner = self.sub(env)
            its = []
            val = inner.hoist(n.value, its)   # Python evaluates the key first, then the value
            key0 = inner.hoist(n.key, [])
            if inner.impure(n.key):
                raise TranslateError("a dict comprehension whose KEY may raise")
            got = {}

            def c2(t):
                k, tk = t.e(key0)
                v, tv = t.e(val)
                got["t"] = DICT(tk, tv)
                return ok(f"(OQ.Py.dictSet acc {k} {v})")
            body = inner.emit(its, c2)
            td = got["t"]
            lets_nl = lets.replace("; ", "\n  ")
            rest = self.sub({tmp: td}).with_rest(self._rest).emit(items[1:], cont)
            return (f"Except.bind (OQ.Py.foldlE (fun (acc : {td}) ({var} : {te}) =>\n  {lets_nl}{body}) [] {it}) "
                    f"(fun ({tmp} : {td}) =>\n  {rest})")
        return super().emit(items, cont)

    # ------------------------------------------------------------------ statements
    def block(self, stmts, tail=None):
        if not stmts:
            return super().block(stmts, tail)
        s, rest = stmts[0], stmts[1:]
        self._rest = rest
        # assert c[, msg]
        if isinstance(s, ast.Assert):
            if not self.partial:
                raise TranslateError("assert in a function not declared partial")
            if not self.ctx.assert_ok:
                raise TranslateError("assert in a function that can also raise RuntimeError (the classes would be conflated)")
            items = []
            test = self.hoist(s.test, items)

            def cont(t):
                c, tc = t.e(test)
                if tc != BOOL:
                    raise TranslateError("assert test")
                return f"if {c} then\n  {t.block(rest, tail)}\n  else\n  {err('runtime')}"
            return self.emit(items, cont)
        # xs[i] = v / xs[i] op= v on a list
        if isinstance(s, (ast.Assign, ast.AugAssign)):
            tgt = s.targets[0] if isinstance(s, ast.Assign) and len(s.targets) == 1 else getattr(s, "target", None)
            if isinstance(tgt, ast.Subscript) and _name(tgt.value) and not isinstance(tgt.slice, ast.Slice) \
                    and is_list(self.env.get(tgt.value.id, "")):
                name = tgt.value.id
                tl = self.env[name]
                items = []
                if isinstance(s, ast.Assign):
                    val = self.hoist(s.value, items)       # right-hand side first, then the target's subscript
                    key = self.hoist(tgt.slice, items)
                    if not isinstance(key, (ast.Name, ast.Constant)):
                        ktmp = self.fresh()
                        items.append(("let", ktmp, key))
                        key = _load(ktmp)
                    old = self.fresh()
                    items.append(("index", old, _load(name), key))   # the store raises IndexError exactly where the load does
                    new = val
                else:
                    key = self.hoist(tgt.slice, items)
                    if not isinstance(key, (ast.Name, ast.Constant)):
                        ktmp = self.fresh()
                        items.append(("let", ktmp, key))
                        key = _load(ktmp)
                    old = self.fresh()
                    items.append(("index", old, _load(name), key))
                    new = self.hoist(ast.BinOp(left=_load(old), op=s.op, right=s.value), items)

                def cont(t):
                    k, tk = t.e(key)
                    v, tv = t.e(new)
                    if elem(tl) == NU and tv == INT:
                        v, tv = t.num(v, tv), NU
                    if tk != INT or tv != elem(tl):
                        raise TranslateError(f"item assignment on {tl} with index {tk}, value {tv}")
                    return f"let {name} : {tl} := OQ.Py.listSet {name} {k} {v}\n  {t.block(rest, tail)}"
                return self.emit(items, cont)
        # xs.remove(v)
        if isinstance(s, ast.Expr) and isinstance(s.value, ast.Call) and isinstance(s.value.func, ast.Attribute) \
                and _name(s.value.func.value) and s.value.func.attr == "remove" and len(s.value.args) == 1 \
                and not s.value.keywords and is_list(self.env.get(s.value.func.value.id, "")):
            name = s.value.func.value.id
            tl = self.env[name]
            if not self.partial:
                raise TranslateError("remove in a function not declared partial")
            items = []
            a = self.hoist(s.value.args[0], items)

            def cont(t):
                v, tv = t.e(a)
                if tv != elem(tl):
                    raise TranslateError(f"remove of a {tv} from {tl}")
                return f"Except.bind (OQ.Py.listRemoveE {name} {v}) (fun ({name} : {tl}) =>\n  {t.block(rest, tail)})"
            return self.emit(items, cont)
        return super().block(stmts, tail)

    def impure(self, n):
        if isinstance(n, ast.AST):
            for x in ast.walk(n):
                if isinstance(x, ast.Call) and isinstance(x.func, ast.Attribute) and x.func.attr == "remove":
                    return True
                if isinstance(x, ast.Assert):
                    return True
        return super().impure(n)


def translate_function(fn, lean_name, arg_types, ret, partial=False, attrs=None, local_types=None, known=None,
                       ext=None, empties=None, self_in=None, self_out=None, self_out_types=None, value=True, objects=None,
                       param_objs=None, **_other):
    """as translate_t4.translate_function, rendered by T14; `param_objs`: parameter name -> class name (an entry of `objects`)"""
    fn = getattr(fn, "__wrapped__", fn)
    fn = getattr(fn, "__func__", fn)
    src = textwrap.dedent(inspect.getsource(fn))
    node = ast.parse(src).body[0]
    if not isinstance(node, ast.FunctionDef):
        raise TranslateError("not a function")
    if node.args.vararg or node.args.kwarg or node.args.kwonlyargs:
        raise TranslateError("*args / **kwargs / keyword-only parameters")
    names = [a.arg for a in node.args.args]
    has_self = bool(names) and names[0] in ("self", "cls")
    pnames = names[1:] if has_self else names
    if len(pnames) != len(arg_types):
        raise TranslateError("arity")
    self_in = dict(self_in or {})
    self_out = list(self_out or [])
    self_out_types = list(self_out_types or [])
    full_ret = t4.ret_type(ret, self_out_types, value)
    ctx = t4.Ctx(fn, partial, known, ext, empties, self_in, self_out, value, objects)
    ctx.value_type = ret
    ctx.params = list(pnames)
    ctx.tmp_objs = {}
    raises_runtime = any(isinstance(x, ast.Raise) and _name(x.exc.func if isinstance(x.exc, ast.Call) else x.exc, "RuntimeError")
                         for x in ast.walk(node))
    ctx.assert_ok = not raises_runtime and not ctx.known
    env = {"self_" + a: t for a, t in self_in.items()}
    env.update(dict(zip(pnames, arg_types)))
    T.KNOWN = {}
    lits = sorted((x.value.lineno, x.value.col_offset) for x in ast.walk(node)
                  if isinstance(x, (ast.Assign, ast.AnnAssign)) and x.value is not None
                  and ((isinstance(x.value, (ast.List, ast.Tuple)) and not x.value.elts)
                       or (isinstance(x.value, ast.Dict) and not x.value.keys)))
    if len(lits) != len(ctx.empties):
        raise TranslateError(f"{len(lits)} empty literals in the source, {len(ctx.empties)} types declared")
    ctx.empty_types = dict(zip(lits, ctx.empties))
    for kname, k in ctx.known.items():
        sp = k.get("spec")
        if sp is not None:
            try:
                opt = {x: y for x, y in sp[5].items() if x not in ("translator", "driver", "imports")}
                sp[5]["translator"](sp[0], sp[1], sp[2], sp[3], sp[4], **opt)
            except Exception as e:
                raise TranslateError(f"the callee {kname} is not translatable now ({e})")
    objs = {}
    for p, cls in (param_objs or {}).items():
        if p not in pnames or cls not in ctx.objects or len(ctx.objects[cls]) != 1:
            raise TranslateError(f"object parameter {p}")
        objs[p] = cls
    body = T14(env, ret, ctx, objs).block(list(node.body))
    pre = "{ν : Type} [OQ.Py.PyNum ν] "
    pre += "".join(f"({lean} : {t}) " for _, lean, t in (ext or []))
    binders = " ".join([f"(self_{a} : {t})" for a, t in self_in.items()] + [f"({n} : {t})" for n, t in zip(pnames, arg_types)])
    where = f"{inspect.getsourcefile(fn).split('/src/')[-1]}:{fn.__qualname__}"
    rt = f"Except OQ.Py.Exc4 ({full_ret})" if partial else full_ret
    return f"/-- translated from `{where}` -/\ndef {lean_name} {pre}{binders} : {rt} :=\n  {body}\n"
