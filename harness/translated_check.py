"""Validation of the Python→Lean TRANSLATOR itself: every translated definition (lean/OQ/Generated/Translated*.lean,
compiled into the model driver) is run on seeded inputs of its documented domain and compared with the PYTHON FUNCTION IT WAS
TRANSLATED FROM (imported from the tree under test).  A disagreement means translator or prelude misrender the code –
a fault of this machinery (exit 2 in run.py), never a verdict about /repo."""
import random

from . import common


def _canon(v):
    if isinstance(v, bool):
        return v
    if isinstance(v, int):
        return str(v)
    if isinstance(v, str):
        return v
    if isinstance(v, (list, tuple)):
        if len(v) == 2 and isinstance(v[0], (list, tuple)) and isinstance(v[1], int):
            return [[int(x) for x in v[0]], str(v[1])]
        return [int(x) for x in v]
    return v


def _canon_model(g):
    if isinstance(g, list) and len(g) == 2 and isinstance(g[0], list):
        return [[int(x) for x in g[0]], str(g[1])]
    if isinstance(g, list):
        return [int(x) for x in g]
    return g


def run(seed=0, per_fn=60, only=None):
    """returns (comparisons, disagreements, untranslatable function names)"""
    common.use_repo()
    from . import tables
    from . import translate as tr
    rng = random.Random(f"translated:{seed}")
    gens = tables._gens()
    reqs, want, names, skipped = [], [], [], []
    for prop, specs in sorted(tables._specs().items()):
        if only and prop != only:
            continue
        for fn, name, args, ret, partial, *opt in specs:
            if not tables._runnable(opt):  # --- T2: was `if opt:` (specs with a "driver" entry are run, see tables._runnable)
                continue
            try:
                tables._translate(fn, name, args, ret, partial, opt[0] if opt else None)  # --- T2: was tr.translate_function
            except Exception:
                skipped.append(name)
                continue
            g = gens[name]
            for _ in range(per_fn):
                a = g(rng)
                if opt:  # --- T2: the spec says how to call the Python function and what its exceptions mean
                    drv_opt = opt[0]["driver"]
                    try:
                        w = drv_opt["result"](fn(*drv_opt["args"](a)))
                    except drv_opt.get("raises", ()):
                        w = None  # the translated definition must answer `none` (JSON null)
                    reqs.append((name, {f"a{k}": x for k, x in enumerate(a)}))
                    want.append(("exact", w))
                    names.append((name, a))
                    continue
                pa = [tuple(x) if isinstance(x, list) else x for x in a]
                try:
                    w = _canon(fn(*pa))
                except SystemExit:
                    w = None
                except Exception as e:  # outside the documented domain: not compared
                    continue
                reqs.append((name, {f"a{k}": (common.rat(x) if isinstance(x, int) and not isinstance(x, bool) else x)
                                    for k, x in enumerate(a)}))
                want.append(w)
                names.append((name, a))
    drv = common.Driver("TR")
    if not drv.available():
        return 0, ["model driver not built"], skipped
    got = drv.run(reqs) if reqs else []
    bad = []
    for (name, a), w, g in zip(names, want, got):
        if isinstance(w, tuple) and len(w) == 2 and w[0] == "exact":  # --- T2: already canonical on both sides
            if g != w[1]:
                bad.append(f"{name}{tuple(a)}: python {w[1]!r}, translated definition {g!r}")
            continue
        if _canon_model(g) != w:
            bad.append(f"{name}{tuple(a)}: python {w!r}, translated definition {g!r}")
    return len(reqs), bad, skipped


if __name__ == "__main__":
    n, bad, sk = run()
    print(n, "comparisons;", len(bad), "disagreements; untranslatable:", sk)
    for b in bad[:20]:
        print("  ", b)
