"""./check Cxx --tier quick|thorough [--replay file]

extract tables -> lake build (proof obligations) -> axiom audit -> correspondence (model vs /repo)
-> property oracle on the implementation -> failing-input search -> evidence + verdict.
Exit 0: property held on everything explored.  Exit 1: VIOLATION line printed.  Exit 2: internal error/timeout.
"""
import argparse
import importlib
import json
import os
import random
import signal
import sys
import time
import traceback

sys.path.insert(0, os.path.dirname(os.path.dirname(os.path.abspath(__file__))))
from harness import common  # noqa: E402
from harness import extract  # noqa: E402


class Timeout(Exception):
    pass


def _alarm(signum, frame):
    raise Timeout()


_PRIVATE_NAME = __import__("re").compile(r"(has no attribute|cannot import name) '_[A-Za-z]")


def run_cases(mod, cases, driver, want_model=True):
    """returns (records, oracle_fails, mismatches, stats)"""
    records, oracle_fails, mismatches = [], [], []
    impl_outs = []
    for case in cases:
        try:
            out = mod.run_impl(case)
        except Timeout:
            raise
        except Exception as e:  # an implementation that raises where the module did not expect it
            out = {"exc": type(e).__name__, "msg": str(e)[:200]}
            if isinstance(e, (AttributeError, ImportError)) and _PRIVATE_NAME.search(str(e)):
                # the HARNESS reached for a private name of the library that is gone (renamed / removed helper): that breaks the
                # correspondence, it is not an input on which the property fails
                out["private_name_missing"] = True
                mismatches.append({"case": case, "msg": f"the harness could not reach a private name of the library: {e}"[:300]})
                impl_outs.append(out)
                continue
        impl_outs.append(out)
        try:
            res = mod.oracle(case, out)
        except Timeout:
            raise
        except Exception as e:
            res = ("oracle-crash:" + type(e).__name__, f"oracle could not evaluate implementation output: {e!r}"[:300])
        if res is not None:
            # a corpus case that HOLDS a recorded finding names its class itself (`finding_class`): the finding is identified by this
            # specific input, generated cases never carry the field
            sig = case["finding_class"] if isinstance(case, dict) and case.get("finding_class") else res[0]
            oracle_fails.append({"case": case, "sig": sig, "msg": res[1], "impl": _short(out)})
    n_model = 0
    if want_model and driver is not None and driver.available():
        reqs, owners = [], []
        for i, (case, out) in enumerate(zip(cases, impl_outs)):
            if isinstance(out, dict) and out.get("private_name_missing"):
                continue
            if isinstance(case, dict) and case.get("finding_class"):
                continue    # the implementation is known to be wrong on this input: judged by the oracle, not compared with the model
            try:
                rs = mod.requests(case, out)
            except Exception as e:
                mismatches.append({"case": case, "msg": f"could not build model request: {e!r}"[:300]})
                rs = []
            for r in rs:
                reqs.append(r)
                owners.append(i)
        try:
            resp = driver.run(reqs)
        except Exception as e:
            resp = None
            mismatches.append({"case": None, "msg": f"model driver failed: {e!r}"[:400]})
        if resp is not None:
            per = {}
            for o, r in zip(owners, resp):
                per.setdefault(o, []).append(r)
            for i, (case, out) in enumerate(zip(cases, impl_outs)):
                if i not in per:
                    continue
                n_model += 1
                try:
                    msg = mod.compare(case, out, per[i])
                except Exception as e:
                    msg = f"compare crashed: {e!r}"[:300]
                if msg:
                    mismatches.append({"case": case, "msg": msg, "impl": _short(out), "model": _short(per[i])})
    return impl_outs, oracle_fails, mismatches, n_model


def _short(o, n=600):
    s = common.canon(o)
    return s if len(s) <= n else s[:n] + "…"


def main():
    ap = argparse.ArgumentParser()
    ap.add_argument("prop")
    ap.add_argument("--tier", default=os.environ.get("VERIF_TIER", "quick"), choices=["quick", "thorough"])
    ap.add_argument("--replay")
    ap.add_argument("--no-build", action="store_true")
    args = ap.parse_args()
    prop = args.prop
    seed = int(os.environ.get("VERIF_SEED", "0") or 0)
    t0 = time.time()
    signal.signal(signal.SIGALRM, _alarm)
    signal.alarm(int(os.environ.get("VERIF_TIMEOUT", "3300" if args.tier == "thorough" else "1500")))
    try:
        rc = body(prop, args, seed, t0)
    except Timeout:
        print(f"TIMEOUT property={prop} (no verdict)")
        rc = 2
    except Exception:
        traceback.print_exc()
        print(f"INTERNAL-ERROR property={prop}")
        rc = 2
    sys.exit(rc)


def body(prop, args, seed, t0):
    tier = args.tier
    common.use_repo()
    mod = importlib.import_module(f"harness.props.{prop.lower()}")
    rng = random.Random(f"{prop}:{seed}")
    import numpy as np

    np.random.seed(rng.randrange(2 ** 32))

    # ---- 1. tables regenerated from /repo, 2. proof obligations
    extract_notes = extract.write_all()
    broken = []
    build_ok, log = True, ""
    if not args.no_build:
        build_ok, log = common.lake_build(common.prop_modules(prop) + ["oqdriver"])
        if not build_ok:
            broken = common.broken_theorems(prop, log)
            if not broken:
                broken = [{"file": "?", "line": 0, "decl": "?", "message": log[-400:]}]
            # the driver may still be buildable even if a proof is not
            common.lake_build(["oqdriver"])
    names = common.theorem_names(prop)
    aud = {"theorems": names, "axioms": {}, "bad_axioms": [], "forbidden": [], "cached": False}
    if build_ok:
        aud = common.audit(prop, force=(tier == "thorough"))
        for b in aud["bad_axioms"]:
            broken.append({"file": f"OQ/Props/{prop}.lean", "line": 0, "decl": b["theorem"], "message": b["problem"]})
        for fb in aud["forbidden"]:
            broken.append({"file": fb["module"], "line": 0, "decl": "?", "message": "forbidden token " + fb["token"]})
    checker = None
    if tier == "thorough" and build_ok and os.environ.get("VERIF_LEANCHECKER", "1") == "1":
        ok, out = common.leanchecker(prop)
        checker = {"ok": ok, "tail": out[-300:]}
        if ok is None:
            print(f"TIMEOUT property={prop} (leanchecker could not complete: {out}; no verdict)")
            return 2
        if not ok:
            broken.append({"file": "leanchecker", "line": 0, "decl": "?", "message": out[-300:]})
    obligations = len(names)
    broken_decls = {b["decl"].split(".")[-1] for b in broken}
    if build_ok:
        discharged = sum(1 for n in names if n.split(".")[-1] not in broken_decls)
        if broken and discharged == obligations:
            discharged = obligations - 1
    else:
        # a failed build discharges nothing that depends on the failing file; count only theorems of
        # Props/<prop> that are not named in an error, and never all of them
        discharged = min(sum(1 for n in names if n.split(".")[-1] not in broken_decls), max(obligations - 1, 0))

    driver = common.Driver(prop)

    # (a CRASH of a self-check – e.g. a translated function no longer exists in the source – is not a verdict by itself: with broken
    #  obligations the run goes on to the failing-input search; with every obligation discharged it is a fault of the machinery)
    tie = {}

    def tie_broken(which, bads, label="translator disagreement"):
        """A regenerated definition that does not behave like the Python function it was translated from: the translation tie of this
        property is not established on this tree.  On the unchanged tree this never happens (it would be a fault of the translator);
        on a changed tree it means the change left what the translator renders faithfully, so – like a tie theorem that stops
        building – it is a BROKEN OBLIGATION: the run goes on to the correspondence and the failing-input search and ends in a
        VIOLATION (with the failing input when the oracle finds one, `no-failing-input-found` otherwise), never in 'no verdict'."""
        for b in bads[:10]:
            print(f"  {label}:", str(b)[:600])
        print(f"  note: the translation self-check '{which}' disagrees with the Python code on {len(bads)} input(s): broken tie, going on to the failing-input search")
        broken.append({"file": "translation self-check", "line": 0, "decl": f"translation-tie:{which}",
                       "message": f"regenerated definition differs from the Python function on {len(bads)} seeded input(s), first: {str(bads[0])[:300]}"})
        tie.setdefault("self_check_disagreements", {})[which] = len(bads)

    def prelude_broken(bads):
        for b in bads[:10]:
            print("  prelude disagreement (OQ/Exec/Py.lean vs CPython):", str(b)[:400])
        print(f"INTERNAL-ERROR property={prop} (the Lean prelude of the translator differs from CPython; no verdict)")
        return 2

    try:
        # ---- 2b. the translator and its Python prelude are themselves compared with CPython / the Python functions
        from harness import tables as _tables
        if prop in _tables._specs() and driver.available():
            from harness import prelude_check, translated_check
            n1, bad1 = prelude_check.run(seed)
            n2, bad2, untranslatable = translated_check.run(seed, only=prop)
            tie = {"prelude_vs_cpython": n1, "translated_vs_python_function": n2,
                   "translated_functions": [f"{fn.__module__.split('quantum.')[-1]}.{fn.__name__} -> Translated.{nm}"
                                            for fn, nm, *_rest in _tables._specs()[prop]],
                   "untranslatable_now": untranslatable}
            if bad1:
                return prelude_broken(bad1)
            if bad2:
                tie_broken("translated_check", bad2)

        # --- T3: translated definitions over OPAQUE objects (rules / operations / circuits; methods, constructors and operators are
        # parameters) are instantiated with stand-ins on both sides and compared with the Python functions they came from
        # (harness/translated_check_opaque.py); a disagreement is a fault of the translator, never a verdict about /repo
        if prop in _tables._specs() and driver.available():
            from harness import translated_check_opaque as _tco
            if any(p == prop for p, _s in _tco._specs_t3()) and (build_ok or common.lake_build(["oqdriver"])[0]):
                n3, bad3, untr3, dropped3 = _tco.run(seed, only=prop)
                tie["translated_opaque_vs_python_function"] = n3
                tie["translated_opaque_not_compared"] = dropped3
                tie["untranslatable_now"] = list(tie.get("untranslatable_now", [])) + untr3
                if bad3:
                    tie_broken("translated_check_opaque", bad3, "translator disagreement (opaque objects)")
        # --- T3 end

        # --- T12: the translated circuit container / `_lift_matrix` composition (C01) and the index helpers of `get_pauliop_from_matrix`
        # (C09) (harness/specs_t12.py, rendered by harness/translate_t12.py) are run in the driver (tag "TRT12") on stand-in operations /
        # circuits / free matrix terms and compared with the Python functions they came from (harness/translated_check_t12.py)
        from harness import translated_check_t12 as _t12
        if prop in _t12.props() and driver.available() and (build_ok or common.lake_build(["oqdriver"])[0]):
            n12, bad12, untr12, dropped12 = _t12.run(seed, only=prop)
            tie["translated_t12_vs_python_function"] = n12
            tie["translated_t12_not_compared"] = dropped12
            tie["untranslatable_now"] = list(tie.get("untranslatable_now", [])) + untr12
            if bad12:
                tie_broken("translated_check_t12", bad12, "translator disagreement (circuit container / embedding)")
        # --- T12 end

        # --- T5: the METHOD translator (harness/translate_state.py): the translated runner classes of C14 are run against the real
        # classes on seeded call histories (harness/runners_check.py); a disagreement is a fault of the machinery
        if prop == "C14" and driver.available():
            from harness import runners_check
            n3, bad3, untr3, note3 = runners_check.run(seed)
            tie = dict(tie, translated_runner_classes_vs_python=n3, untranslatable_methods_now=untr3,
                       translated_classes=["api.circuit_runner.BaseCircuitRunner -> Runners.Base.*",
                                           "runners.trackers.MeasurementTrackingBackend -> Runners.Tracker.*",
                                           "api.wavefunction_simulator.BaseWavefunctionSimulator -> Runners.Sim.*"])
            if note3:
                tie["translated_runner_classes_note"] = note3
            if bad3:
                tie_broken("runners_check", bad3, "method-translator disagreement")
        # --- T5 end

        # --- T1: the gate-CLASS translator (harness/translate_cls.py -> OQ/Generated/TranslatedGates.lean, tied to the models of
        #     C07 and C06 by Props/C0x_TranslatedGates.lean) is compared with the real Python classes on every run of C06 / C07
        if prop in ("C06", "C07") and driver.available():
            from harness import gates_check
            n3, bad3, notes3 = gates_check.run(seed)
            tie.update({"translated_gate_classes_vs_python_classes": n3, "gate_classes_untranslatable_now": notes3,
                        "translated_gate_classes": "circuits/_gates.py: MatrixFactoryGate, ControlledGate, Dagger, Exponential, Power "
                                                   "-> OQ.Generated.TranslatedGates (harness/translate_cls.py)"})
            if bad3:
                tie_broken("gates_check", bad3, "class-translator disagreement")
        # --- T1 end

        # --- T6: the translated definitions of harness/tables_t6.py (sort keys, `translate_expression` family, `reduction`: C19; the
        # `dicke_state` loop and the `zero_state` guard: C12) are run in the driver (tag "TRT6") and compared with the Python functions
        # they came from (stand-in symbols / dialects on both sides); the prelude is compared with CPython for C19 as well
        from harness import translated_check_t6 as _t6
        if prop in _t6.PROP_OF.values() and driver.available() and (build_ok or common.lake_build(["oqdriver"])[0]):
            # (a driver that does not build now would be a stale binary of an earlier run: nothing is compared then)
            bad1 = []
            if "prelude_vs_cpython" not in tie:
                from harness import prelude_check as _pc
                tie["prelude_vs_cpython"], bad1 = _pc.run(seed)
            n6, bad6, untr6, listed6 = _t6.run(seed, only=prop)
            tie["translated_t6_vs_python_function"] = n6
            tie["translated_functions"] = list(tie.get("translated_functions", [])) + listed6
            tie["untranslatable_now"] = list(tie.get("untranslatable_now", [])) + untr6
            if bad1:
                return prelude_broken(bad1)
            if bad6:
                tie_broken("translated_check_t6", bad6)
        # --- T6 end

        # --- T9: the translated definitions of harness/tables_t9.py (dictionary forms of operators / arrays / ExpectationValues /
        # Parities / ValueEstimate and the term-string parser chain: C11) are run in the driver (tag "TRT9") and compared with the Python
        # functions they came from (harness/translated_check_t9.py); the prelude is compared with CPython for C11 as well
        if prop == "C11" and driver.available() and (build_ok or common.lake_build(["oqdriver"])[0]):
            from harness import translated_check_t9 as _t9
            bad1 = []
            if "prelude_vs_cpython" not in tie:
                from harness import prelude_check as _pc
                tie["prelude_vs_cpython"], bad1 = _pc.run(seed)
            n9, bad9, untr9, listed9 = _t9.run(seed, only=prop)
            tie["translated_t9_vs_python_function"] = n9
            tie["translated_t9_not_compared"] = len(_t9.DROPPED)
            tie["translated_functions"] = list(tie.get("translated_functions", [])) + listed9
            tie["untranslatable_now"] = list(tie.get("untranslatable_now", [])) + untr9
            if bad1:
                return prelude_broken(bad1)
            if bad9:
                tie_broken("translated_check_t9", bad9)
        # --- T9 end

        # --- T10: the symbolic-expression translator of the built-in gate matrices (harness/translate_t10.py -> OQ/Generated/
        # TranslatedC02.lean, tied to Model/Gates.lean by Props/C02_TranslatedMatrices.lean): every regenerated `tr_<factory>` and the
        # gate -> factory binding are evaluated over Q(zeta8) in the driver (tag "TRT10") and compared with the Python factories
        if prop == "C02" and driver.available() and (build_ok or common.lake_build(["oqdriver"])[0]):
            from harness import translated_check_t10 as _t10
            n10, bad10, untr10, listed10 = _t10.run(seed)
            tie["translated_matrices_vs_python_factories"] = n10
            tie["translated_functions"] = list(tie.get("translated_functions", [])) + listed10
            tie["untranslatable_now"] = list(tie.get("untranslatable_now", [])) + untr10
            if bad10:
                tie_broken("translated_check_t10", bad10, "translator disagreement (gate matrices)")
        # --- T10 end

        # --- T8: the translated definitions of circuits/_serde.py (harness/translate_t8.py -> OQ/Generated/TranslatedC05.lean, tied to the
        # model of C05 by Props/C05_TranslatedSerde.lean) are run in the driver (tag "TRT8") under the instantiation of the tie theorems
        # and compared with the real `to_dict` / `*_from_dict` functions on seeded gate trees / circuits / damaged dictionaries
        if prop == "C05" and driver.available() and (build_ok or common.lake_build(["oqdriver"])[0]):
            from harness import translated_check_t8 as _t8
            n8, bad8, untr8, listed8 = _t8.run(seed)
            tie["translated_serde_vs_python_function"] = n8
            tie["translated_functions"] = list(tie.get("translated_functions", [])) + listed8
            tie["untranslatable_now"] = list(tie.get("untranslatable_now", [])) + untr8
            if bad8:
                tie_broken("translated_check_t8", bad8, "translator disagreement (_serde.py)")
        # --- T8 end

        # --- T13: the translated `Wavefunction` class and state views (harness/tables_t13.py: C12 object methods, C04 views) are run in the
        # driver (tag "TRT13") over the models' numpy / sympy stand-ins and compared with the REAL class on seeded call histories
        # (harness/translated_check_t13.py)
        from harness import translated_check_t13 as _t13
        if prop in _t13.PROPS and driver.available() and (build_ok or common.lake_build(["oqdriver"])[0]):
            n13, bad13, untr13, listed13 = _t13.run(seed, only=prop)
            tie["translated_t13_vs_real_class"] = n13
            tie["translated_functions"] = list(tie.get("translated_functions", [])) + listed13
            tie["untranslatable_now"] = list(tie.get("untranslatable_now", [])) + untr13
            if bad13:
                tie_broken("translated_check_t13", bad13, "translator disagreement (Wavefunction class)")
        # --- T13 end

        # --- T19: the translated TEXT forms of Pauli operators (harness/tables_t19.py: `PauliTerm.__repr__` / `PauliSum.__repr__`, the string
        # branches of the two constructors; C11) and the translated equality / hashing of Pauli operators (harness/tables_t19e.py; C03) are
        # run in the driver (tags "TRT19" / "TRT19E") and compared with the REAL methods on real objects (harness/translated_check_t19.py)
        from harness import translated_check_t19 as _t19
        if prop in _t19.props() and driver.available() and (build_ok or common.lake_build(["oqdriver"])[0]):
            bad1 = []
            if "prelude_vs_cpython" not in tie:
                from harness import prelude_check as _pc
                tie["prelude_vs_cpython"], bad1 = _pc.run(seed)
            n19, bad19, untr19, listed19 = _t19.run(seed, only=prop)
            tie["translated_t19_vs_real_methods"] = n19
            tie["translated_t19_not_compared"] = len(_t19.DROPPED)
            tie["translated_functions"] = list(tie.get("translated_functions", [])) + listed19
            tie["untranslatable_now"] = list(tie.get("untranslatable_now", [])) + untr19
            if bad1:
                return prelude_broken(bad1)
            if bad19:
                tie_broken("translated_check_t19", bad19, "translator disagreement (text forms / equality of Pauli operators)")
        # --- T19 end

    except Timeout:
        raise
    except Exception as e:  # noqa: BLE001
        import traceback
        tie["self_check_crashed"] = f"{type(e).__name__}: {e}"[:300]
        if not broken:
            # the tie could not be re-established on this tree although every theorem still builds (the self-check calls something
            # of the library that changed): a broken tie like a disagreement – never on the unchanged tree
            traceback.print_exc()
            tie_broken("self-check crashed", [f"{type(e).__name__}: {str(e)[:300]}"], "translator self-check crashed")
        else:
            print(f"  note: a translator self-check could not run ({type(e).__name__}: {str(e)[:160]}); {len(broken)} obligation(s) are broken, going on")

    # --- T11: definitions rendered by harness/translate_t11.py (raising externals, conditionally assigned variables, closures:
    # estimation C15, `time_evolution_for_term` C16, `U3GateToRotation.production` C18) are instantiated with stand-ins on both sides and
    # compared with the Python functions they came from (harness/translated_check_t11.py); a disagreement is a fault of the translator
    if prop in _tables._specs() and driver.available():
        from harness import translated_check_t11 as _t11
        if any(p == prop for p, _s in _t11.t11_specs()) and (build_ok or common.lake_build(["oqdriver"])[0]):
            try:
                n11, bad11, untr11, dropped11 = _t11.run(seed, only=prop)
            except Timeout:
                raise
            except Exception as e:  # noqa: BLE001
                if not broken:
                    tie_broken("self-check crashed (T11)", [f"{type(e).__name__}: {str(e)[:300]}"], "translator self-check crashed")
                n11, bad11, untr11, dropped11 = 0, [], [f"self-check crashed: {type(e).__name__}: {str(e)[:120]}"], 0
            tie["translated_t11_vs_python_function"] = n11
            tie["translated_t11_not_compared"] = dropped11
            tie["untranslatable_now"] = list(tie.get("untranslatable_now", [])) + untr11
            tie["translated_functions"] = list(tie.get("translated_functions", []))
            if bad11:
                tie_broken("translated_check_t11", bad11, "translator disagreement (T11, opaque objects with raising externals)")
    # --- T11 end

    # --- T4: translated dictionary-valued definitions (abstract numeric values, exceptions with their class) are run at Rat through
    # the generated glue OQ/Generated/TranslatedDriverT4.lean and compared with the Python functions / the real methods on real objects
    # (harness/translated_check_t4.py); a disagreement is a fault of the translator, never a verdict about /repo
    if prop in _tables._specs() and driver.available():
        from harness import translated_check_t4 as _tc4
        if any(p == prop for p, _s in _tc4.t4_specs()) and (build_ok or common.lake_build(["oqdriver"])[0]):
            n4, bad4, untr4 = _tc4.run(seed, only=prop)
            tie["translated_t4_vs_python_function"] = n4
            tie["translated_t4_agreeing_only_up_to_float_rounding"] = len(_tc4.ROUNDED)
            tie["untranslatable_now"] = list(tie.get("untranslatable_now", [])) + untr4
            if bad4:
                tie_broken("translated_check_t4", bad4, "translator disagreement (dictionary-valued code)")
    # --- T4 end

    # --- T14: the translated shot-bookkeeping definitions (`scale_and_discretize`, `get_measurements_representing_distribution`; numpy /
    # float / random operations are external parameters) are run at Rat through the generated glue OQ/Generated/TranslatedDriverT14.lean
    # with the externals as recorded tables and compared with the Python functions (harness/translated_check_t14.py); a disagreement is
    # a fault of the translator, never a verdict about /repo
    if prop in _tables._specs() and driver.available():
        from harness import translated_check_t14 as _tc14
        if any(p == prop for p, _s in _tc14.t14_specs()) and (build_ok or common.lake_build(["oqdriver"])[0]):
            try:
                n14, bad14, untr14 = _tc14.run(seed, only=prop)
            except Timeout:
                raise
            except Exception as e:  # noqa: BLE001
                if not broken:
                    tie_broken("self-check crashed (T14)", [f"{type(e).__name__}: {str(e)[:300]}"], "translator self-check crashed")
                n14, bad14, untr14 = 0, [], [f"self-check could not run: {type(e).__name__}: {str(e)[:120]}"]
            tie["translated_t14_vs_python_function"] = n14
            tie["untranslatable_now"] = list(tie.get("untranslatable_now", [])) + untr14
            if bad14:
                tie_broken("translated_check_t14", bad14, "translator disagreement (shot bookkeeping)")
    # --- T14 end

    # --- T15: the translated measurement-statistics definitions (`_convert_bitstrings_to_vector`, `check_parity_of_vector`,
    # `get_expectation_value_from_frequencies`, `Measurements.get_expectation_values`; numpy through the
    # prelude `OQ.Py.np…`, itself compared with numpy by harness/prelude_check.py) are run at Rat through the generated glue
    # OQ/Generated/TranslatedDriverT15.lean and compared with the Python functions / the real method on real objects
    # (harness/translated_check_t15.py)
    if prop in _tables._specs() and driver.available():
        from harness import translated_check_t15 as _tc15
        if any(p == prop for p, _s in _tc15.t15_specs()) and (build_ok or common.lake_build(["oqdriver"])[0]):
            try:
                n15, bad15, untr15 = _tc15.run(seed, only=prop)
            except Timeout:
                raise
            except Exception as e:  # noqa: BLE001
                if not broken:
                    tie_broken("self-check crashed (T15)", [f"{type(e).__name__}: {str(e)[:300]}"], "translator self-check crashed")
                n15, bad15, untr15 = 0, [], [f"self-check could not run: {type(e).__name__}: {str(e)[:120]}"]
            tie["translated_t15_vs_python_function"] = n15
            tie["translated_t15_agreeing_only_up_to_float_rounding"] = len(_tc15.ROUNDED)
            tie["untranslatable_now"] = list(tie.get("untranslatable_now", [])) + untr15
            if bad15:
                tie_broken("translated_check_t15", bad15, "translator disagreement (measurement statistics)")
    # --- T15 end

    # --- T16: the translated distances between distributions (harness/tables_t16.py -> OQ/Generated/TranslatedC17Distances.lean: the
    # kernels and `compute_mmd`, the clipped log-likelihood, the Jensen-Shannon divergence, `evaluate_distribution_distance`; tied to the
    # model by Props/C17_TranslatedDistances.lean) are run at IEEE doubles through the generated glue OQ/Generated/TranslatedDriverT16.lean
    # (tag "TRT16") and compared with the real Python functions on real objects (harness/translated_check_t16.py)
    if prop == "C17" and driver.available() and (build_ok or common.lake_build(["oqdriver"])[0]):
        try:
            from harness import translated_check_t16 as _tc16
            from harness import tables_t16 as _tb16
            n16, bad16, untr16 = _tc16.run(seed, only=prop)
            tie["translated_t16_vs_python_function"] = n16
            tie["untranslatable_now"] = list(tie.get("untranslatable_now", [])) + untr16
            tie["translated_functions"] = list(tie.get("translated_functions", [])) + [
                f"{sp[0].__module__.split('quantum.')[-1]}.{getattr(sp[0], '__qualname__', sp[0].__name__)} -> Translated.{sp[1]}"
                for sp in _tb16.specs()]
        except Timeout:
            raise
        except Exception as e:  # noqa: BLE001  (same policy as for the self-checks above)
            import traceback
            tie["self_check_crashed"] = f"{type(e).__name__}: {e}"[:300]
            if not broken:
                traceback.print_exc()
                tie_broken("self-check crashed (T16)", [f"{type(e).__name__}: {str(e)[:300]}"], "translator self-check crashed")
            else:
                print(f"  note: a translator self-check could not run ({type(e).__name__}: {str(e)[:160]}); {len(broken)} obligation(s) are broken, going on")
            bad16 = []
        if bad16:
            tie_broken("translated_check_t16", bad16, "translator disagreement (distances)")
    # --- T16 end

    # --- T17: the translated `matrix` properties of the gate classes and the `GateOperation` members (harness/translate_t17.py ->
    # OQ/Generated/TranslatedGatesMatrix.lean, tied to the model's `gateMatrix` by Props/C07_TranslatedMatrix.lean) are run in the driver
    # (tag "TRT17") with the sympy operations instantiated by exact matrix operations over Q(zeta8) and by free matrix terms, and
    # compared with `gate.matrix` / `GateOperation.lifted_matrix` / `bind` / … of the real classes (harness/translated_check_t17.py)
    if prop in ("C06", "C07") and driver.available() and (build_ok or common.lake_build(["oqdriver"])[0]):
        try:
            from harness import translated_check_t17 as _t17
            n17, bad17, untr17, listed17 = _t17.run(seed)
        except Timeout:
            raise
        except Exception as e:  # noqa: BLE001  (same policy as for the self-checks above)
            if not broken:
                tie_broken("self-check crashed (T17)", [f"{type(e).__name__}: {str(e)[:300]}"], "translator self-check crashed")
            n17, bad17, untr17, listed17 = 0, [], [f"self-check could not run: {type(e).__name__}: {str(e)[:120]}"], []
        tie["translated_t17_matrix_vs_python_classes"] = n17
        tie["translated_t17_not_compared"] = len(getattr(_t17, "DROPPED", [])) if "_t17" in dir() else 0
        tie["translated_functions"] = list(tie.get("translated_functions", [])) + listed17
        tie["untranslatable_now"] = list(tie.get("untranslatable_now", [])) + untr17
        if bad17:
            tie_broken("translated_check_t17", bad17, "translator disagreement (gate matrices / GateOperation)")
    # --- T17 end

    # --- T7: the translated CLASSES PauliTerm / PauliSum (harness/translate_t7.py -> OQ/Generated/TranslatedC03.lean, tied to the model of
    # C03 by Props/C03_TranslatedPauli.lean) are run at Cyc8 through the generated glue OQ/Generated/TranslatedDriverT7.lean (tag "TRT7")
    # and compared with the real methods on real objects (harness/translated_check_t7.py); the prelude is compared with CPython for C03
    # as well; a disagreement is a fault of the translator / prelude, never a verdict about /repo
    if prop == "C03" and driver.available() and (build_ok or common.lake_build(["oqdriver"])[0]):
        # (a driver that does not build now would be a stale binary of an earlier run: nothing is compared then)
        try:
            from harness import translated_check_t7 as _tc7
            bad1 = []
            if "prelude_vs_cpython" not in tie:
                from harness import prelude_check as _pc7
                tie["prelude_vs_cpython"], bad1 = _pc7.run(seed)
            n7, bad7, untr7 = _tc7.run(seed, only=prop)
            from harness import tables_t7 as _tb7
            tie["translated_t7_vs_python_method"] = n7
            tie["untranslatable_now"] = list(tie.get("untranslatable_now", [])) + untr7
            tie["translated_functions"] = list(tie.get("translated_functions", [])) + [
                f"operators._pauli_operators.{i['cls'] + '.' if i['cls'] else ''}{i['meth']} -> TranslatedPauli.{nm}"
                for nm, i in _tb7.current()[1].items()]
        except Timeout:
            raise
        except Exception as e:  # noqa: BLE001  (same policy as for the self-checks above)
            import traceback
            tie["self_check_crashed"] = f"{type(e).__name__}: {e}"[:300]
            if not broken:
                traceback.print_exc()
                tie_broken("self-check crashed (T7)", [f"{type(e).__name__}: {str(e)[:300]}"], "translator self-check crashed")
            else:
                print(f"  note: a translator self-check could not run ({type(e).__name__}: {str(e)[:160]}); {len(broken)} obligation(s) are broken, going on")
            bad1, bad7 = [], []
        if bad1:
            return prelude_broken(bad1)
        if bad7:
            tie_broken("translated_check_t7", bad7, "translator disagreement (Pauli classes)")
    # --- T7 end

    # --- T18: the translated operator utilities of C09 on PauliTerm / PauliSum objects (harness/translate_t18.py ->
    # OQ/Generated/TranslatedC09Ops.lean, tied to the model of C09 by Props/C09_TranslatedOps.lean) are run at Cyc8 through the generated glue
    # OQ/Generated/TranslatedDriverT18.lean (tag "TRT18") and compared with the real functions on real objects
    # (harness/translated_check_t18.py); a disagreement is a broken tie (`tie_broken`), never a verdict by itself
    if prop == "C09" and driver.available() and (build_ok or common.lake_build(["oqdriver"])[0]):
        try:
            from harness import translated_check_t18 as _tc18
            from harness import tables_t18 as _tb18
            n18, bad18, untr18 = _tc18.run(seed, only=prop)
            tie["translated_t18_vs_python_function"] = n18
            tie["untranslatable_now"] = list(tie.get("untranslatable_now", [])) + untr18
            tie["translated_functions"] = list(tie.get("translated_functions", [])) + [
                f"operators.{i['meth']}{'' if i['cls'] is None else ' of ' + i['cls']} -> TranslatedOps.{nm}"
                for nm, i in _tb18.current()[1].items()]
        except Timeout:
            raise
        except Exception as e:  # noqa: BLE001  (same policy as for the self-checks above)
            import traceback
            tie["self_check_crashed"] = f"{type(e).__name__}: {e}"[:300]
            if not broken:
                traceback.print_exc()
                tie_broken("self-check crashed (T18)", [f"{type(e).__name__}: {str(e)[:300]}"], "translator self-check crashed")
            else:
                print(f"  note: a translator self-check could not run ({type(e).__name__}: {str(e)[:160]}); {len(broken)} obligation(s) are broken, going on")
            bad18 = []
        if bad18:
            tie_broken("translated_check_t18", bad18, "translator disagreement (operator utilities)")
    # --- T18 end

    if any(b["decl"].startswith("translation-tie:") for b in broken):
        discharged = min(discharged, max(obligations - 1, 0))

    # ---- 3. correspondence + oracle
    if args.replay:
        rp = json.load(open(args.replay))
        cases = [rp["case"]] if rp.get("case") is not None else []
        if not cases:
            cases = list(mod.corpus()) + list(mod.generate(rng, tier))
    else:
        cases = list(mod.corpus()) + list(mod.generate(rng, tier))
    impl_outs, oracle_fails, mismatches, n_model = run_cases(mod, cases, driver)
    from harness import finding_probes
    oracle_fails = oracle_fails + finding_probes.run(prop)

    known, _fixed = common.load_known()
    known_sigs = {k["sig"]: k for k in known if k["property"] == prop}
    listed = [f for f in oracle_fails if f["sig"] in known_sigs]
    unlisted = [f for f in oracle_fails if f["sig"] not in known_sigs]

    # ---- 4. failing-input search when a proof obligation or the correspondence broke
    searched = 0
    if (broken or mismatches) and not unlisted:
        budget = 4 if tier == "quick" else 12
        for k in range(budget):
            r2 = random.Random(f"{prop}:{seed}:search:{k}")
            extra = list(mod.generate(r2, tier))
            searched += len(extra)
            _, of2, _, _ = run_cases(mod, extra, None, want_model=False)
            un2 = [f for f in of2 if f["sig"] not in known_sigs]
            if un2:
                unlisted = un2
                break

    # ---- 5. verdict
    os.makedirs(os.path.join(common.VERIF, "replays"), exist_ok=True)
    rc = 0
    seen = set()
    for f in listed:
        if f["sig"] not in seen:
            seen.add(f["sig"])
            print(f"KNOWN-FINDING: property={prop} {known_sigs[f['sig']]['what']} [sig={f['sig']}]")
    replay_path = None
    if unlisted:
        f = unlisted[0]
        replay_path = os.path.join("replays", f"{prop}_{tier}_{seed}.json")
        json.dump({"property": prop, "kind": "failing-input", "case": f["case"], "sig": f["sig"], "detail": f["msg"],
                   "impl_output": f["impl"], "broken_obligations": broken,
                   "correspondence_mismatches": [m["msg"] for m in mismatches[:5]],
                   "replay": f"./check {prop} --replay <this file>"},
                  open(os.path.join(common.VERIF, replay_path), "w"), indent=1, default=str)
        print(f"VIOLATION property={prop} replay={replay_path}")
        print(f"  failing input ({f['sig']}): {f['msg']}")
        rc = 1
    elif broken or mismatches:
        replay_path = os.path.join("replays", f"{prop}_{tier}_{seed}.json")
        what = []
        if broken:
            what.append("proof obligations: " + "; ".join(f"{b['decl']} ({b['file']}:{b['line']}) {b['message'][:120]}" for b in broken[:6]))
        if mismatches:
            what.append(f"correspondence model≠implementation on {len(mismatches)} case(s): " + mismatches[0]["msg"][:300])
        json.dump({"property": prop, "kind": "no-failing-input-found",
                   "case": mismatches[0]["case"] if mismatches else None,
                   "broken_obligations": broken, "correspondence_mismatches": mismatches[:10],
                   "searched_cases": searched + len(cases),
                   "note": "the theorems / correspondence named here no longer check; no input violating the property itself was found"},
                  open(os.path.join(common.VERIF, replay_path), "w"), indent=1, default=str)
        print(f"VIOLATION property={prop} replay={replay_path} no-failing-input-found")
        for w in what:
            print("  " + w)
        rc = 1

    # ---- 6. evidence
    nontriv = set()
    for c in cases:
        try:
            if mod.nontrivial(c):
                nontriv.add(common.canon(c))
        except Exception:
            pass
    hist = {}
    for c in cases:
        k = c.get("kind", "?") if isinstance(c, dict) else "?"
        hist[k] = hist.get(k, 0) + 1
    extra_cov = {}
    if hasattr(mod, "distribution"):
        try:
            extra_cov = mod.distribution(cases, impl_outs)
        except Exception as e:
            extra_cov = {"distribution_error": repr(e)}
    ev = {
        "property_id": prop, "tier": tier, "seed": seed, "level": "proof",
        "coverage": {
            "obligations": obligations, "discharged": discharged,
            "checker_cmd": f"cd lean && lake build OQ.Props.{prop} && lake env lean .lake/audit/{prop}.lean  (#print axioms of each theorem)"
                           + ("; lake env leanchecker <import closure>" if tier == "thorough" else ""),
            "trusted_base": list(getattr(mod, "TRUSTED", [])) + [
                "Lean 4.33 kernel + Mathlib v4.33 (axioms allowed: propext, Classical.choice, Quot.sound)",
                "hand-written model OQ/Model/%s.lean tied to /repo by this run's differential correspondence" % prop,
                "harness/extract.py (tables regenerated from /repo)"],
            "theorems": names,
            "axioms_used": sorted({a for v in aud["axioms"].values() for a in v}),
            "audit_cached": aud.get("cached", False),
            "leanchecker": checker,
            "evaluations": len(cases), "model_compared": n_model,
            "distinct_nontrivial": len(nontriv), "rule": getattr(mod, "RULE", ""),
            "case_kinds": hist, "samples": [c for c in cases[:3]] + ([cases[-1]] if len(cases) > 3 else []),
            "mismatches": len(mismatches), "oracle_failures": len(oracle_fails),
            "known_findings_hit": sorted(seen), "search_cases": searched,
            "generated_tables": extract_notes, "translation_tie": tie, **extra_cov,
        },
        "assumptions": list(getattr(mod, "ASSUMPTIONS", [])),
        "wall_s": round(time.time() - t0, 2),
        "violations": 0 if rc == 0 else 1,
    }
    # evidence/ holds runs against /repo itself only; a run against another tree (OQ_REPO, used for seeded changes)
    # writes its evidence elsewhere
    evdir = os.environ.get("VERIF_EVIDENCE_DIR") or (
        os.path.join(common.VERIF, "evidence") if os.path.abspath(common.REPO) == "/repo" else "/tmp/verif_evidence_other_tree")
    os.makedirs(evdir, exist_ok=True)
    json.dump(ev, open(os.path.join(evdir, f"{prop}.json"), "w"), indent=1, default=str)
    print(f"{prop} {tier} seed={seed}: obligations {discharged}/{obligations}, cases {len(cases)} "
          f"(model-compared {n_model}, nontrivial {len(nontriv)}), mismatches {len(mismatches)}, "
          f"oracle failures {len(oracle_fails)} ({len(listed)} listed), {ev['wall_s']}s -> exit {rc}")
    return rc


if __name__ == "__main__":
    main()
