"""Direct probes of recorded findings whose input class the generators of a property deliberately do not draw (DESIGN 10.4).
Each probe runs the REAL code on the specific recorded input and judges the property's sentence there: it returns a message when the
defect shows (the run then prints the KNOWN-FINDING line of that signature) and None when the library behaves as the property demands
(nothing is printed: the finding is gone).  A probe never produces a violation by itself and never adds to KNOWN_FINDINGS.txt."""
from harness import common


def _c17_narrow_weights():
    common.use_repo()
    import numpy as np
    from orquestra.quantum.distributions import MeasurementOutcomeDistribution
    d = MeasurementOutcomeDistribution({(0,): np.int8(100), (1,): np.int8(100)})
    vals = [float(v) for v in d.distribution_dict.values()]
    if all(abs(v - 0.5) < 1e-12 for v in vals):
        return None
    return f"MeasurementOutcomeDistribution({{(0,): np.int8(100), (1,): np.int8(100)}}) holds {vals}, proportions of the input are 0.5 / 0.5"


def _c12_bool_next_to_symbol():
    common.use_repo()
    import sympy
    from orquestra.quantum.wavefunction import Wavefunction
    wf = Wavefunction([sympy.Symbol("x"), 0.5, 0.5, 0.5])
    try:
        wf[1] = True
    except ValueError:
        return None
    return "wf = Wavefunction([x, .5, .5, .5]); wf[1] = True was accepted (numeric entries then carry 1.5); wf[1] = 1 is rejected"


def _c03_numpy_zero_divisor():
    common.use_repo()
    import warnings
    import numpy as np
    from orquestra.quantum.operators import PauliTerm
    try:
        with warnings.catch_warnings():
            warnings.simplefilter("ignore")
            r = PauliTerm("X0*Z1", 2.0) / np.float64(0)
    except Exception:  # noqa: BLE001  (any refusal is what the property needs)
        return None
    return f"PauliTerm('X0*Z1', 2.0) / np.float64(0) returned {r!r} (a coefficient that denotes no matrix) instead of raising like / 0, / 0.0, / 0j"


def _c07_diagonal_singular_negative_power():
    common.use_repo()
    import sympy
    from orquestra.quantum.circuits import CustomGateDefinition
    g = CustomGateDefinition("p_probe", sympy.Matrix([[1, 0], [0, 0]]), ())()
    try:
        m = g.power(-1).matrix
    except Exception:  # noqa: BLE001  (a refusal is what the property needs: the matrix has no inverse)
        return None
    if any(not e.is_finite for e in m):
        return f"CustomGateDefinition('p', Matrix([[1,0],[0,0]]), ())().power(-1).matrix returned {m} instead of refusing (no inverse exists)"
    return None


PROBES = {"C07": [("negative-power-of-diagonal-singular-matrix-zoo", _c07_diagonal_singular_negative_power)],
          "C03": [("division-by-numpy-zero-returns-nonfinite", _c03_numpy_zero_divisor)],
          "C17": [("weights-narrow-numpy-int-total-wraps", _c17_narrow_weights)],
          "C12": [("bool-entry-next-to-symbols", _c12_bool_next_to_symbol)]}


def run(prop):
    out = []
    for sig, fn in PROBES.get(prop, []):
        try:
            msg = fn()
        except Exception as e:  # noqa: BLE001  (a probe that cannot run says nothing)
            msg = None
        if msg:
            out.append({"case": {"kind": "finding-probe", "sig": sig}, "sig": sig, "msg": msg, "impl": msg[:200]})
    return out
