"""Work package T2: the rest of circuits/_itertools.py (C13: generators, shared iterators, count dictionaries) and the list-level
bitstring conversions of utils.py (C04), translated by harness/translate_t2.py (an extension of harness/translate.py).

Every definition registered here is runnable: it carries a "driver" entry (how to build the Python arguments from the JSON arguments,
how to canonicalise the Python result, which exceptions are the modelled `none`) and is compared with the Python function it was
translated from by harness/translated_check.py on every run.  Type variables (`α`: circuits / bitstrings passed around, `κ`: dictionary
keys) are run at `String`."""
PROPS = ["C13", "C04"]

A = "α"
LA = "List α"
LLA = "List (List α)"
LI = "List Int"
LSTR = "List (List Char)"
LLI = "List (List Int)"
DICT = "OQ.Py.Dict κ Int"
LDICT = "List (OQ.Py.Dict κ Int)"
BATCHES = "List ((List α) × Int)"


def _drv(ret, args=None, raises=(), result=None):
    from . import translate_t2 as t2
    p = t2.parse_type(ret)
    return {"args": args or (lambda a: a), "raises": raises,
            "result": result or (lambda r: t2.canon_py(p, r))}


def _dict(pairs):
    return {k: v for k, v in pairs}


def SPECS():
    from . import translate_t2 as t2
    from orquestra.quantum.circuits import _itertools as it
    from orquestra.quantum import utils
    tf = t2.translate_function
    k_iter = {"_iterate_in_batches": ("iterate_in_batches", [LA, "Int"], LLA, True)}
    k_comb = {"_combine_measurements": ("combine_measurements", [DICT, DICT], DICT, False)}
    p_batches = t2.parse_type(BATCHES)
    p_lla = t2.parse_type(LLA)
    return {
        "C13": [
            (it._iterate_in_batches, "iterate_in_batches", [LA, "Int"], LLA, True,
             {"translator": tf, "generator": True, "fuel": ["len(items) + 1"],
              # the generator is run to its end; an exception of the first next() counts as one of the call (laziness not modelled)
              "driver": _drv(LLA, raises=(ValueError,), result=lambda g: t2.canon_py(p_lla, list(g)))}),
            (it.split_into_batches, "split_into_batches", [LA, LI, "Int"], BATCHES, True,
             {"translator": tf, "known": k_iter,
              "driver": _drv(BATCHES, raises=(ValueError,), result=lambda g: t2.canon_py(p_batches, list(g)))}),
            (it._combine_measurements, "combine_measurements", [DICT, DICT], DICT, False,
             {"translator": tf, "driver": _drv(DICT, args=lambda a: [_dict(a[0]), _dict(a[1])])}),
            (it.combine_measurement_counts, "combine_measurement_counts", [LDICT, LI], LDICT, True,
             {"translator": tf, "known": k_comb,
              "driver": _drv(LDICT, args=lambda a: [[_dict(d) for d in a[0]], a[1]], raises=(ValueError, TypeError))}),
            (it.combine_bitstrings, "combine_bitstrings", [LLA, LI], LLA, True,
             {"translator": tf, "driver": _drv(LLA, raises=(ValueError,))}),
        ],
        "C04": [
            (utils.convert_bitstrings_to_tuples, "convert_bitstrings_to_tuples", [LSTR], LLI, False,
             {"translator": tf, "known": {"bitstring_to_tuple": ("bitstring_to_tuple", ["List Char"], LI, False)},
              "driver": _drv(LLI)}),
            (utils.convert_tuples_to_bitstrings, "convert_tuples_to_bitstrings", [LLI], LSTR, False,
             {"translator": tf, "known": {"tuple_to_bitstring": ("tuple_to_bitstring", [LI], "List Char", False)},
              "driver": _drv(LSTR, args=lambda a: [[tuple(t) for t in a[0]]])}),
            (utils.get_ordered_list_of_bitstrings, "get_ordered_list_of_bitstrings", ["Int"], LSTR, True,
             {"translator": tf, "fuel": ["num_qubits + 1"],
              "driver": _drv(LSTR)}),
        ],
    }


def GENS():
    def label(r):
        return r.choice(["c0", "c1", "c2", "H", "X", "", "a b"])

    def bitstr(r, n=None):
        n = r.randrange(0, 5) if n is None else n
        return "".join(r.choice("01") for _ in range(n))

    def counts(r):
        keys = r.sample(["00", "01", "10", "11", "0", "1", "", "x"], r.randrange(0, 5))
        return [[k, r.choice([0, 1, 2, 3, 7, 100, -2, 10 ** 20])] for k in keys]

    def mults(r):
        return [r.choice([1, 1, 1, 2, 2, 3, 0, 0, -1]) if r.random() < 0.25 else r.choice([1, 2, 3])
                for _ in range(r.randrange(0, 5))]

    def total(ms, r):
        s = sum(ms)
        return max(0, s + r.choice([0, 0, 0, 0, 0, 1, -1]))

    def iterate(r):
        return [[label(r) for _ in range(r.randrange(0, 12))], r.choice([1, 2, 3, 4, 5, 13, 0, -1, -3])]

    def split(r):
        n = r.randrange(0, 11)
        m = n if r.random() < 0.85 else max(0, n + r.choice([-1, 1]))
        return [[label(r) for _ in range(n)], [r.choice([0, 1, 5, 100, -4, 10 ** 15]) for _ in range(m)],
                r.choice([1, 1, 2, 2, 3, 4, 7, 20, 0, -1])]

    def comb_counts(r):
        ms = mults(r)
        return [[counts(r) for _ in range(total(ms, r))], ms]

    def comb_bits(r):
        ms = mults(r)
        return [[[bitstr(r) for _ in range(r.randrange(0, 4))] for _ in range(total(ms, r))], ms]

    return {
        "iterate_in_batches": iterate,
        "split_into_batches": split,
        "combine_measurements": lambda r: [counts(r), counts(r)],
        "combine_measurement_counts": comb_counts,
        "combine_bitstrings": comb_bits,
        "convert_bitstrings_to_tuples": lambda r: [[bitstr(r, r.randrange(0, 9)) for _ in range(r.randrange(0, 6))]],
        "convert_tuples_to_bitstrings": lambda r: [[[r.randrange(2) for _ in range(r.randrange(0, 9))]
                                                    for _ in range(r.randrange(0, 6))]],
        "get_ordered_list_of_bitstrings": lambda r: [r.randrange(0, 8)],
    }
