"""Work package T11: estimation (C15), `time_evolution_for_term` (C16) and `U3GateToRotation.production` (C18) over OPAQUE objects with
RAISING externals, conditionally assigned variables and closures.  Rendered by harness/translate_t11.py; checked against the Python
functions by harness/translated_check_t11.py."""
PROPS = ["C15", "C16", "C18"]

PYSET = "OQ.Py.PySet Int"
SPLIT_RET = "(List α) × (List α) × (List Int) × (List Int)"


def _sig(ext):
    from .translate_t11 import signature
    return signature(ext)


def _opt(**kw):
    from . import translate_t11
    return {"translator": translate_t11.translate_function, **kw}


def SPECS():
    from . import tables
    from orquestra.quantum.estimation import _estimation as _est
    from orquestra.quantum.decompositions import _orquestra_decompositions as _odec
    from orquestra.quantum.circuits import _circuit as _circ
    from orquestra.quantum import evolution as _evo

    R = tables._resolve
    # ---------------------------------------------------------------- C15
    task_ext = [("α.operator", "attr_operator", ["α"], "ο"), ("α.circuit", "attr_circuit", ["α"], "γ"),
                ("α.number_of_shots", "attr_number_of_shots", ["α"], "Option Int")]
    eec_ext = task_ext + [("γ.bind(_)", "meth_bind", ["γ", "σ"], "γ"),
                          ("EstimationTask(operator=_,circuit=_,number_of_shots=_)", "ext_EstimationTask", ["ο", "γ", "Option Int"], "α")]
    s_eec = (R(_est, "evaluate_estimation_circuits"), "evaluate_estimation_circuits", ["List α", "List σ"], "List α", True,
             _opt(t11={"types": ["α", "ο", "γ", "σ"], "ext": eec_ext}))
    nm_ext = [("α.operator", "attr_operator", ["α"], "ο"), ("α.number_of_shots", "attr_number_of_shots", ["α"], "Option Int"),
              ("ο.is_constant", "attr_is_constant", ["ο"], "Bool"), ("ο.terms", "attr_terms", ["ο"], "List θ"),
              ("θ.coefficient", "attr_coefficient", ["θ"], "κ"), ("κ+κ", "ext_add", ["κ", "κ"], "κ"),
              ("int:κ", "ext_ofInt", ["Int"], "κ"), ("float:0.0", "const_0_0", [], "κ"),
              ("np.asarray(_)@List κ", "ext_asarray_vec", ["List κ"], "ν"),
              ("np.asarray(_)@List (List κ)", "ext_asarray_mat", ["List (List κ)"], "μ"),
              ("ExpectationValues(_,correlations=_,estimator_covariances=_)", "ext_ExpectationValues", ["ν", "List μ", "List μ"], "ε")]
    s_nm = (R(_est, "evaluate_non_measured_estimation_tasks"), "evaluate_non_measured_estimation_tasks", ["List α"], "List ε", True,
            _opt(t11={"types": ["α", "ο", "θ", "κ", "ν", "μ", "ε"], "ext": nm_ext}, local_types={"expectation_values": "List ε"}))
    k_nm = {"lean": "evaluate_non_measured_estimation_tasks", "args": ["List α"], "ret": "List ε", "partial": True,
            "ext": _sig(nm_ext), "spec": s_nm}
    s_split = next(s for s in tables._specs_base()["C15"] if s[1] == "split_estimation_tasks_to_measure")
    k_split = {"lean": "split_estimation_tasks_to_measure", "args": ["List α"], "ret": SPLIT_RET, "partial": False,
               "ext": [("attr_operator_is_constant", "α → Bool"), ("attr_number_of_shots", "α → Option Int")], "spec": s_split}
    avg_ext = [("split:α.operator.is_constant", "attr_operator_is_constant", ["α"], "Bool")] + nm_ext + [
        ("α.circuit", "attr_circuit", ["α"], "γ"),
        ("ρ.run_batch_and_measure(_,_)", "meth_run_batch_and_measure", ["ρ", "List γ", "List (Option Int)"], "!List ξ"),
        ("ξ.get_expectation_values(_)", "meth_get_expectation_values", ["ξ", "ο"], "!ε"),
        ("expectation_values_to_real(_)", "ext_expectation_values_to_real", ["ε"], "ε")]
    s_avg = (R(_est, "estimate_expectation_values_by_averaging"), "estimate_expectation_values_by_averaging", ["ρ", "List α"],
             "List (Option ε)", True,
             _opt(t11={"types": ["α", "ο", "θ", "κ", "ν", "μ", "ε", "γ", "ρ", "ξ"], "ext": avg_ext,
                       "known": {"split_estimation_tasks_to_measure": k_split, "evaluate_non_measured_estimation_tasks": k_nm}},
                  local_types={"measured_expectation_values_list": "List ε", "full_expectation_values": "List (Option ε)"}))
    exact_ext = [("α.circuit", "attr_circuit", ["α"], "γ"), ("α.operator", "attr_operator", ["α"], "ο"),
                 ("ρ.get_exact_expectation_values(_,_)", "meth_get_exact_expectation_values", ["ρ", "γ", "ο"], "!χ"),
                 ("np.asarray(_)", "ext_asarray", ["List χ"], "ν"), ("ExpectationValues(_)", "ext_ExpectationValues1", ["ν"], "ε")]
    s_exact = (R(_est, "calculate_exact_expectation_values"), "calculate_exact_expectation_values", ["ρ", "List α"], "List ε", True,
               _opt(t11={"types": ["α", "ο", "γ", "ρ", "χ", "ν", "ε"], "ext": exact_ext}))
    c15 = [s_eec, s_nm, s_avg, s_exact]

    # ---------------------------------------------------------------- C16
    term_ext = [("Circuit()", "ext_Circuit0", [], "γ"), ("θ.qubits", "attr_qubits", ["θ"], PYSET),
                ("θ.is_constant", "attr_is_constant", ["θ"], "Bool"), ("θ.coefficient", "attr_coefficient", ["θ"], "ψ"),
                ("ψ.imag", "attr_imag", ["ψ"], "ϕ"), ("ψ.real", "attr_real", ["ψ"], "ϕ"),
                ("abs(_)", "ext_abs", ["ϕ"], "ϕ"), ("float:1e-09", "const_1e_9", [], "ϕ"), ("ϕ>ϕ", "ext_gt", ["ϕ", "ϕ"], "Bool"),
                ("θ[_]", "ext_getitem", ["θ", "Int"], "List Char"), ("H(_)", "ext_H", ["Int"], "ω"),
                ("γ+ω", "ext_add_op", ["γ", "ω"], "γ"), ("np.pi", "const_np_pi", [], "τ"), ("τ/Int", "ext_div", ["τ", "Int"], "τ"),
                ("RX(_)", "ext_RX", ["τ"], "κ"), ("κ(_)", "call_gate", ["κ", "Int"], "ω"),
                ("θ.operations", "attr_operations", ["θ"], "ο"), ("len(_)", "ext_len", ["ο"], "Int"),
                ("Int*τ", "ext_mul_int", ["Int", "τ"], "τ"), ("τ*ϕ", "ext_mul", ["τ", "ϕ"], "τ"), ("RZ(_)", "ext_RZ", ["τ"], "κ"),
                ("CNOT(_,_)", "ext_CNOT", ["Int", "Int"], "ω"), ("γ.inverse()", "meth_inverse", ["γ"], "γ"),
                ("γ+γ", "ext_add", ["γ", "γ"], "γ")]
    c16 = [(R(_evo, "time_evolution_for_term"), "time_evolution_for_term", ["θ", "τ"], "γ", True,
            _opt(t11={"types": ["θ", "τ", "γ", "ω", "κ", "ϕ", "ψ", "ο"], "ext": term_ext, "classes": {"γ": _circ.Circuit},
                      "checked_index": True}, local_types={"central_gate": "ω"}))]

    # ---------------------------------------------------------------- C18
    u3_ext = [("ω.params", "attr_params", ["ω"], "List π"), ("RZ(_)", "ext_RZ", ["π"], "κ"), ("RY(_)", "ext_RY", ["π"], "κ"),
              ("isinstance(κ,ControlledGate)", "isinstance_ControlledGate", ["κ"], "Bool"), ("ω.gate", "attr_gate", ["ω"], "κ"),
              ("κ.num_control_qubits", "attr_num_control_qubits", ["κ"], "Int"),
              ("κ.controlled(_)", "meth_controlled", ["κ", "Int"], "!κ"),
              ("ω.qubit_indices", "attr_qubit_indices", ["ω"], "List Int"), ("κ(*_)", "call_gate_star", ["κ", "List Int"], "ω")]
    u3 = getattr(_odec, "U3GateToRotation", None)
    c18 = [(R(u3, "production") if u3 is not None else tables._Missing(_odec, "U3GateToRotation.production"), "u3_production",
            ["σ", "ω"], "List ω", True,
            _opt(t11={"types": ["σ", "ω", "κ", "π"], "ext": u3_ext}, local_types={"preprocess_gate": "κ → κ"}))]
    return {"C15": c15, "C16": c16, "C18": c18}


def GENS():
    return {}
