"""Python -> Lean translator of work package T13: the `Wavefunction` class of `wavefunction.py` (a class whose one field is a numpy array
or a sympy Matrix) and the functions around it (expression level = harness/translate.py, which this module subclasses).

What is new here (anything else raises TranslateError; the definition is then missing and its tie theorem does not build):

  EXTERNALS BY SOURCE PATTERN.  numpy / sympy / `math` / `rng` expressions are not interpreted: the spec (harness/tables_t13.py) declares
  source patterns with holes – `np.sum(_1)`, `np.abs(_1) ** 2`, `np.isclose(_1, 1.0)`, `_1 > 1.0`, `np.array(_1, dtype=complex)`,
  `isinstance(_1, np.ndarray)`, `_1.free_symbols`, `_1.choice(a=_2, size=_3, p=_4)` … – and an expression that matches a pattern
  SYNTACTICALLY (constants, keywords and attribute names included; a hole matches any sub-expression of the declared type) becomes
  the application of the field of that name of the structure `<NS>.Ext` (a parameter `ext` of every translated definition) to the
  translated holes.  A pattern is declared pure (`τ₁ → … → ρ`) or raising (`… → Except Exc ρ`); the laws the tie theorems need are
  their hypotheses.  Patterns are tried outermost node first, in spec order; a syntactic match whose hole types fit no declaration
  is an error.
  VALUE SEMANTICS FOR MUTABLE EXTERNAL OBJECTS.  An item assignment `x[k] = v` / `self.f[k] = v` / `self.f[...] = v` on a value of a
  declared mutable type is a declared external `(object, key, value) → object' × Except Exc Unit` – the object afterwards AND whether
  the write raised (a write that raises may have written) – and rebinds the name / field.  This is only sound while no second name
  refers to the same object, so an assignment whose right-hand side is a bare name or field of a mutable type (an ALIAS) is refused
  when any item assignment follows it in the function (`old = self.f; self.f[k] = v` is NOT translatable – the former defect of
  `__setitem__`); results of calls are taken to be fresh objects (assumption, listed per external in the tie theorems).
  EXCEPTIONS.  Every definition returns `Except Exc ρ`; a method that assigns fields of `self` or writes into them (a MUTATOR)
  returns `State × Except Exc ρ` – the state at the moment it returns OR RAISES.  `__init__` is rendered as a function from its
  arguments to `Except Exc State` (fields are locals until the end; an object whose constructor raised is never seen); a field read
  before it is assigned is refused.  `raise C(…)` keeps the class, not the message; `assert c` raises AssertionError.
  `try: B except C: H` – `B` and `H` are rendered as terms of type `Except Exc (Flow ρ L)` (`Flow.ret v`: a `return v` inside;
  `Flow.next l`: fell off the end with the values `l` of the variables assigned in `B` / `H`), composed as
  `match B with | .error e => if e is C then H else .error e | r => r`, and the rest of the block follows once.  `except Exception`
  catches everything; subclass relations between exception classes are the externals' business (an external that raises sympy's
  ShapeError says `.ValueError`).
  CALLS of other translated definitions (`self.m(…)`, `x.m(…)` and `x.prop` on a value of the class's type, `len(x)` → `__len__`,
  `f(…)`, `type(self)(…)` / `Class(…)` → `__init__`), with keyword arguments and constant defaults; every call that can raise (raising
  externals, translated definitions) is HOISTED in evaluation order into `match … with | .error e => … | .ok tmp => …`; a raising
  call under `and` / `or` (after the first operand), in a branch of a conditional expression or in a lambda is refused;
  a list comprehension `[elt for x in xs if c]` (one generator) whose `elt` / `c` can raise is rendered with `OQ.PyT.mapE` /
  `filterE` (left to right, first exception wins; the filter runs over the whole list first – refused if BOTH can raise, where
  Python would interleave them).
  Further forms: truthiness of a declared opaque type (`if self.free_symbols:`) as an external, `s.count("c")`,
  `format(i, "0" + str(w) + "b")`, `dict(<pairs>)`, `a, b = zip(*d.items())` (ValueError on an empty dict), tuple-unpacking
  assignment of a product, `xs += ys` / `return` with the declared type-directed coercions (injection into a sum type,
  `Int → ν`, iteration of an array), annotated empty-list assignment with the type declared in the spec.
Not translated: loops, `with`, `del`, nested functions, f-string messages, `warn`, calls of MUTATORS on anything (not needed here).
Object identity is not modelled: `return self` returns the state (the caller cannot tell the object from an equal one).
"""
import ast
import inspect
import textwrap

from . import translate as tr
from .translate import BOOL, INT, STR, TranslateError, elem, is_list, list_of, paren, prod_parts

UNIT = "Unit"
EXC_T = "OQ.PyT.Exc"
EXC = {"ValueError": ".ValueError", "TypeError": ".TypeError", "IndexError": ".IndexError", "KeyError": ".KeyError",
       "AssertionError": ".AssertionError"}
LEAN_KEYWORDS = {"from", "at", "end", "open", "fun", "let", "in", "do", "then", "else", "if", "match", "with", "where", "have",
                 "show", "by", "def", "theorem", "structure", "instance", "namespace", "section", "variable", "type", "class",
                 "deriving", "import", "export", "mutual", "private", "protected", "universe", "example", "abbrev", "axiom",
                 "inductive", "macro", "syntax", "notation", "local", "set_option", "return", "for", "unless", "try", "catch",
                 "complex"}
OWN = {"ext", "e", "r_t", "e_t", "v_t", "l_t", "w_t"}


def _name(x):
    if x in OWN:
        return x + "_py"
    return f"«{x}»" if x in LEAN_KEYWORDS else x


def sum_parts(t):
    parts, depth, i = [], 0, 0
    for i, c in enumerate(t):
        depth += c == "("
        depth -= c == ")"
        if depth == 0 and t.startswith(" ⊕ ", i):
            a, b = t[:i].strip(), t[i + 3:].strip()
            strip = lambda q: q[1:-1] if q.startswith("(") and q.endswith(")") and tr._balanced(q[1:-1]) else q
            return strip(a), strip(b)
    return None


# ---------------------------------------------------------------------------------------------- patterns
def _match(p, n, holes):
    if isinstance(p, ast.Name) and p.id.startswith("_") and p.id[1:].isdigit():
        k = int(p.id[1:])
        if k in holes and ast.dump(holes[k]) != ast.dump(n):
            return False
        holes[k] = n
        return True
    if type(p) is not type(n):
        return False
    for f in p._fields:
        if f in ("ctx", "kind", "type_comment"):
            continue
        a, b = getattr(p, f, None), getattr(n, f, None)
        if isinstance(a, list):
            if not isinstance(b, list) or len(a) != len(b) or not all(_match(x, y, holes) if isinstance(x, ast.AST) else x == y
                                                                         for x, y in zip(a, b)):
                return False
        elif isinstance(a, ast.AST):
            if not isinstance(b, ast.AST) or not _match(a, b, holes):
                return False
        elif a != b or type(a) is not type(b):
            return False
    return True


class External:
    def __init__(self, pattern, field, holes, ret, raises=False, doc=None):
        self.pattern, self.field, self.holes, self.ret, self.raises = pattern, field, list(holes), ret, raises
        self.ast = ast.parse(pattern, mode="eval").body
        self.doc = doc

    def lean_type(self):
        r = f"Except {EXC_T} {paren(self.ret)}" if self.raises else self.ret
        return " → ".join([paren(h) for h in self.holes] + [r])


class Ctx:
    """what the translator knows about the class / module being translated (from the spec in harness/tables_t13.py)"""

    def __init__(self, spec):
        self.ns = spec["ns"]
        self.type_params = list(spec["type_params"])
        self.fields = dict(spec["fields"])
        self.state_params = list(spec["state_params"])
        self.obj = spec["object"]                       # the name by which the class's own type goes in declared types
        self.cls_name = spec["class_name"]
        self.mutable = set(spec.get("mutable", []))
        self.externals = [External(*x) for x in spec["externals"]]
        self.setitem = dict(spec.get("setitem", {}))    # (object type, key type | "...", value type) -> ext field
        self.truthy = dict(spec.get("truthy", {}))      # opaque type -> ext field
        self.coerce = dict(spec.get("coerce", {}))      # (from, to) -> ext field
        self.known_pure = dict(spec.get("known_pure", {}))  # python name -> (lean name, arg types, result type): already translated
        self.units = {}                                 # python name -> unit dict (filled as units are translated)
        self.used = set()

    @property
    def state_t(self):
        return f"{self.ns}.State " + " ".join(self.state_params)

    @property
    def ext_t(self):
        return f"{self.ns}.Ext " + " ".join(self.type_params)

    def real(self, t):
        """declared type -> Lean type (the class's own type is its State)"""
        out, i, o = "", 0, self.obj
        while i < len(t):
            if t.startswith(o, i) and (i == 0 or not (t[i - 1].isalnum() or t[i - 1] == "_")) \
                    and (i + len(o) == len(t) or not (t[i + len(o)].isalnum() or t[i + len(o)] == "_")):
                out += f"({self.state_t})"
                i += len(o)
            else:
                out += t[i]
                i += 1
        return out

    def find(self, n):
        """the externals whose pattern matches `n` syntactically -> [(External, [hole nodes])]"""
        out = []
        for x in self.externals:
            holes = {}
            if _match(x.ast, n, holes):
                out.append((x, [holes[k] for k in sorted(holes)]))
        return out


# ---------------------------------------------------------------------------------------------- the translator of one body
class TX(tr.T):
    def __init__(self, env, ret, ctx, unit, state=False, flow=None, init_fields=None, alias=None):
        super().__init__(env, ret)
        self.ctx, self.unit = ctx, unit
        self.state = state            # mutator: results are `(self, Except …)`
        self.flow = flow              # inside try / handler: (list of variables handed on at the end)
        self.init_fields = init_fields  # `__init__`: field -> local name, for the fields assigned so far (None otherwise)
        self.alias = dict(alias or {})  # names standing for a PURE text over hoisted temporaries (no `let` is emitted for them)

    def clone(self, env=None, ret=None, state=None, flow="same", cls=None):
        return (cls or type(self))(dict(self.env if env is None else env), self.ret if ret is None else ret, self.ctx, self.unit,
                                   self.state if state is None else state, self.flow if flow == "same" else flow,
                                   None if self.init_fields is None else dict(self.init_fields), self.alias)

    def sub(self, extra):
        return self.clone(env={**self.env, **extra})

    def with_flow(self, flow):
        return self.clone(flow=flow)

    def with_alias(self, text, t):
        self.ctx._tmp = getattr(self.ctx, "_tmp", 0) + 1
        tmp = f"p__{self.ctx._tmp}"
        r = self.sub({tmp: t})
        r.alias[tmp] = text
        return r, ast.Name(id=tmp, ctx=ast.Load())

    # ---- how this body ends
    def _st(self, x):
        return f"(self, {x})" if self.state else f"({x})"

    def ok(self, v):
        return self._st(f".ok (OQ.PyT.Flow.ret {v})") if self.flow is not None else self._st(f".ok {v}")

    def fail(self, e):
        return self._st(f".error {e}")

    def fall(self):
        if self.flow is not None:
            vals = []
            for x in self.flow:
                if x.startswith("self."):
                    if self.init_fields is None or x[5:] not in self.init_fields:
                        raise TranslateError(f"{x} is not assigned on every path through the try statement")
                    vals.append(self.init_fields[x[5:]])
                else:
                    if x not in self.env:
                        raise TranslateError(f"{x} is not assigned on every path through the try statement")
                    vals.append(_name(x))
            tup = "()" if not vals else (vals[0] if len(vals) == 1 else "(" + ", ".join(vals) + ")")
            return self._st(f".ok (OQ.PyT.Flow.next {tup})")
        if self.init_fields is not None:
            missing = [f for f in self.ctx.fields if f not in self.init_fields]
            if missing:
                raise TranslateError(f"__init__ can end without assigning self.{missing[0]}")
            return "(.ok { " + ", ".join(f"{f} := {self.init_fields[f]}" for f in self.ctx.fields) + " })"
        if self.ret == UNIT:
            return self.ok("()")
        raise TranslateError("block falls off the end of a function that returns a value")

    # ---- coercions (type directed, declared)
    def coerce(self, v, t, want):
        if t == want:
            return v
        if (t, want) in self.ctx.coerce:
            self.ctx.used.add(self.ctx.coerce[(t, want)])
            return f"(ext.{self.ctx.coerce[(t, want)]} {v})"
        if is_list(t) and is_list(want):
            a, b = elem(t), elem(want)
            sp = sum_parts(b)
            if sp and a == sp[0]:
                return f"({v}.map Sum.inl)"
            if sp and a == sp[1]:
                return f"({v}.map Sum.inr)"
            if (a, b) in self.ctx.coerce:
                self.ctx.used.add(self.ctx.coerce[(a, b)])
                return f"({v}.map ext.{self.ctx.coerce[(a, b)]})"
        raise TranslateError(f"a value of type {t} where {want} is declared")

    # ---- pure expressions
    def ext_app(self, n, allow_raising=False):
        """`n` as an application of a declared external, or None"""
        cands = self.ctx.find(n)
        if not cands:
            return None
        err = None
        for x, holes in cands:
            try:
                args = [self.e(h) for h in holes]
            except TranslateError as e_:
                err = e_
                continue
            if [t for _, t in args] == x.holes:
                if x.raises and not allow_raising:
                    raise TranslateError(f"raising external `{x.pattern}` in a position where it cannot be hoisted")
                self.ctx.used.add(x.field)
                return "(" + " ".join([f"ext.{x.field}"] + [a for a, _ in args]) + ")", x.ret, x.raises
            err = TranslateError(f"`{x.pattern}` applied to {[t for _, t in args]}, declared {x.holes}")
        raise err

    def e(self, n):
        ctx = self.ctx
        if isinstance(n, ast.Name):
            if n.id in self.alias:
                return self.alias[n.id], self.env[n.id]
            if n.id in self.env:
                return _name(n.id), self.env[n.id]
            if n.id == "self" and self.init_fields is not None:
                raise TranslateError("`self` used as a value inside __init__")
        if isinstance(n, (ast.Call, ast.Attribute)) and self.unit_call(n) is not None:
            raise TranslateError(f"`{ast.unparse(n)}` (a translated definition) in a position where it cannot be hoisted")
        if isinstance(n, ast.Call) and isinstance(n.func, ast.Name) and n.func.id in ctx.known_pure and not n.keywords:
            lean, ats, rt = ctx.known_pure[n.func.id]
            args = [self.e(a) for a in n.args]
            if len(args) != len(ats):
                raise TranslateError(f"arity of {n.func.id}")
            return "(" + " ".join([lean] + [self.coerce(v, t, w) for (v, t), w in zip(args, ats)]) + ")", rt
        if isinstance(n, (ast.Call, ast.Attribute, ast.BinOp, ast.Compare, ast.Subscript)):
            r = self.ext_app(n)
            if r is not None:
                return r[0], r[1]
        if isinstance(n, ast.Attribute) and isinstance(n.value, ast.Name) and n.value.id == "self" and self.init_fields is not None:
            if n.attr in ctx.fields:
                if n.attr not in self.init_fields:
                    raise TranslateError(f"self.{n.attr} is read in __init__ before it is assigned")
                return self.init_fields[n.attr], ctx.fields[n.attr]
            raise TranslateError(f"self.{n.attr} inside __init__")
        if isinstance(n, ast.Attribute):
            try:
                v, t = self.e(n.value)
            except TranslateError:
                v, t = None, None
            if t == ctx.obj and n.attr in ctx.fields:
                return f"{v}.{n.attr}", ctx.fields[n.attr]
            raise TranslateError(f"attribute {ast.unparse(n)}")
        if isinstance(n, ast.UnaryOp) and isinstance(n.op, ast.Not):
            return f"(!{self.truth(n.operand)})", BOOL
        if isinstance(n, ast.BoolOp):
            j = " && " if isinstance(n.op, ast.And) else " || "
            return "(" + j.join(self.truth(v) for v in n.values) + ")", BOOL
        if isinstance(n, ast.IfExp):
            a, ta = self.e(n.body)
            b, tb = self.e(n.orelse)
            if ta != tb:
                raise TranslateError("conditional expression with branches of different types")
            return f"(if {self.truth(n.test)} then {a} else {b})", ta
        if isinstance(n, ast.Call) and isinstance(n.func, ast.Attribute) and n.func.attr == "count" and len(n.args) == 1 \
                and not n.keywords and isinstance(n.args[0], ast.Constant) and isinstance(n.args[0].value, str) \
                and len(n.args[0].value) == 1:
            s, ts = self.e(n.func.value)
            if ts == STR:
                return f"(OQ.PyT.countChar {s} {tr.char_lit(n.args[0].value)})", INT
        if isinstance(n, ast.Call) and isinstance(n.func, ast.Name) and n.func.id not in self.env and not n.keywords:
            f = n.func.id
            fmt = ast.parse("format(_1, '0' + str(_2) + 'b')", mode="eval").body
            holes = {}
            if f == "format" and _match(fmt, n, holes):
                (i, ti), (w, tw) = self.e(holes[1]), self.e(holes[2])
                if ti == INT and tw == INT:
                    return f"(OQ.PyT.formatBinW {i} {w})", STR
            if f == "dict" and len(n.args) == 1:
                ps, tp = self.e(n.args[0])
                if is_list(tp) and len(prod_parts(elem(tp))) == 2:
                    k_, v_ = prod_parts(elem(tp))
                    return f"(OQ.PyT.dictOfPairs {ps})", f"OQ.Py.Dict {paren(k_)} {paren(v_)}"
            if f == "zip" and len(n.args) == 2:
                parts = []
                for a in n.args:
                    x, tx = self.e(a)
                    if not is_list(tx):
                        to = [w for (frm, w) in ctx.coerce if frm == tx and is_list(w)]
                        if len(to) != 1:
                            raise TranslateError(f"zip over a value of type {tx}")
                        x, tx = self.coerce(x, tx, to[0]), to[0]
                    parts.append((x, tx))
                (a, ta), (b, tb) = parts
                return f"(List.zip {a} {b})", list_of(f"{paren(elem(ta))} × {paren(elem(tb))}")
        return super().e(n)

    def truth(self, n):
        v, t = self.e(n)
        if t == BOOL:
            return v
        if t in self.ctx.truthy:
            self.ctx.used.add(self.ctx.truthy[t])
            return f"(ext.{self.ctx.truthy[t]} {v})"
        if is_list(t):
            return f"(!({v}).isEmpty)"
        if t == INT:
            return f"({v} != 0)"
        raise TranslateError(f"truth value of {t}")

    # ---- calls of translated definitions
    def unit_call(self, n):
        """(unit, receiver node or None, argument nodes incl. defaults) if `n` is a call / property read of a translated definition"""
        ctx = self.ctx
        if isinstance(n, ast.Attribute) and not isinstance(n.ctx, ast.Store):
            u = ctx.units.get(n.attr)
            if u and u["kind"] == "property" and self._is_obj(n.value):
                return u, n.value, []
            return None
        if not isinstance(n, ast.Call):
            return None
        f = n.func
        u, recv = None, None
        if isinstance(f, ast.Name) and f.id not in self.env:
            if f.id == "len" and len(n.args) == 1 and not n.keywords and self._is_obj(n.args[0]) and "__len__" in ctx.units:
                return ctx.units["__len__"], n.args[0], []
            if f.id == ctx.cls_name and "__init__" in ctx.units:
                u = ctx.units["__init__"]
            elif f.id in ctx.units and ctx.units[f.id]["kind"] == "function":
                u = ctx.units[f.id]
        elif isinstance(f, ast.Call) and isinstance(f.func, ast.Name) and f.func.id == "type" and len(f.args) == 1 \
                and isinstance(f.args[0], ast.Name) and f.args[0].id == "self" and "__init__" in ctx.units:
            u = ctx.units["__init__"]          # type(self)(…): the constructor of the class itself (subclasses are not modelled)
        elif isinstance(f, ast.Attribute) and f.attr in ctx.units:
            c = ctx.units[f.attr]
            if c["kind"] == "static" and (self._is_obj(f.value) or (isinstance(f.value, ast.Name) and f.value.id in (ctx.cls_name, "self"))):
                u = c
            elif c["kind"] in ("reader", "mutator") and self._is_obj(f.value):
                u, recv = c, f.value
        if u is None:
            return None
        if u["kind"] == "mutator":
            raise TranslateError(f"call of the mutating method {u['py']}")
        params, defaults = u["params"], u["defaults"]
        if len(n.args) > len(params):
            raise TranslateError(f"too many arguments for {u['py']}")
        given = dict(zip(params, n.args))
        for kw in n.keywords:
            if kw.arg not in params or kw.arg in given:
                raise TranslateError(f"keyword argument {kw.arg} of {u['py']}")
            given[kw.arg] = kw.value
        args = []
        for p in params:
            if p in given:
                args.append(given[p])
            elif p in defaults:
                args.append(defaults[p])
            else:
                raise TranslateError(f"call of {u['py']} without argument {p}")
        return u, recv, args

    def _is_obj(self, node):
        if isinstance(node, ast.Name) and node.id == "self" and self.init_fields is not None:
            return False
        try:
            return self.e(node)[1] == self.ctx.obj
        except TranslateError:
            return False

    def raising(self, n):
        """does evaluating `n` involve a call that can raise?"""
        for x in ast.walk(n):
            if self.unit_call(x) is not None and not (isinstance(x, ast.Attribute) and isinstance(x.ctx, ast.Store)):
                return True
            if isinstance(x, ast.Call) and _is_unzip(x):
                return True
            if isinstance(x, (ast.Call, ast.Attribute, ast.BinOp, ast.Compare, ast.Subscript)):
                if any(c.raises for c, _ in self.ctx.find(x)):
                    return True
        return False

    def hoist(self, node):
        h = _Hoist(self)
        new = h.visit(node)
        return h.t, h.binds, new

    def chain(self, binds, inner):
        for v, text in reversed(binds):
            inner = f"match {text} with\n  | .error e => {self.fail('e')}\n  | .ok {v} =>\n  {inner}"
        return inner

    def as_except(self, node):
        """`node` as a standalone term of type `Except Exc τ` (used for comprehension bodies that can raise) -> (text, τ)"""
        inner = self.clone(ret="?", state=False, flow=None, cls=TX)
        t2, binds, new = inner.hoist(node)
        v, t = t2.e(new)
        return inner.chain(binds, f"(.ok {v})"), t

    def as_except_truth(self, node):
        inner = self.clone(ret="?", state=False, flow=None, cls=TX)
        t2, binds, new = inner.hoist(node)
        return inner.chain(binds, f"(.ok {t2.truth(new)})"), BOOL

    # ---- statements
    def block(self, stmts, tail=None):
        ctx = self.ctx
        if not stmts:
            return self.fall()
        s, rest = stmts[0], stmts[1:]
        if isinstance(s, ast.Expr) and isinstance(s.value, ast.Constant):
            return self.block(rest)
        if isinstance(s, ast.Pass) or (isinstance(s, ast.AnnAssign) and s.value is None):
            return self.block(rest)
        if isinstance(s, ast.AnnAssign):
            s = ast.Assign(targets=[s.target], value=s.value, lineno=s.lineno)
        if isinstance(s, ast.Return):
            if self.init_fields is not None:
                raise TranslateError("return inside __init__")
            if s.value is None:
                if self.ret != UNIT:
                    raise TranslateError("bare return")
                return self.ok("()")
            t2, binds, node = self.hoist(s.value)
            v, t = t2.e(node)
            return self.chain(binds, t2.ok(t2.coerce(v, t, self.ret)))
        if isinstance(s, ast.Raise):
            c = s.exc.func if isinstance(s.exc, ast.Call) else s.exc
            if not isinstance(c, ast.Name) or c.id not in EXC:
                raise TranslateError("raise of an unknown exception class")
            if s.exc is not None and self.raising(s.exc):
                raise TranslateError("a call that can raise inside an exception message")
            return self.fail(EXC[c.id])
        if isinstance(s, ast.Assert):
            t2, binds, node = self.hoist(s.test)
            return self.chain(binds, f"if {t2.truth(node)} then\n  ({t2.block(rest)})\n  else\n  {t2.fail('.AssertionError')}")
        if isinstance(s, ast.Expr) and isinstance(s.value, ast.Call):
            t2, binds, node = self.hoist(s.value)
            if not binds:
                raise TranslateError("expression statement without a call that matters")
            return self.chain(binds, t2.block(rest))
        if isinstance(s, (ast.Assign, ast.AugAssign)):
            return self._assign(s, rest)
        if isinstance(s, ast.If):
            t2, binds, test = self.hoist(s.test)
            ends_a, ends_b = tr._ends(s.body), bool(s.orelse) and tr._ends(s.orelse)
            a = t2.block(s.body + ([] if ends_a else rest))
            b = t2.block((s.orelse or []) + ([] if ends_b else rest))
            return self.chain(binds, f"if {t2.truth(test)} then\n  ({a})\n  else\n  ({b})")
        if isinstance(s, ast.Try):
            return self._try(s, rest)
        raise TranslateError(f"statement {type(s).__name__}")

    def _later_item_assignment(self, s):
        for x in ast.walk(self.unit["ast"]):
            if isinstance(x, (ast.Assign, ast.AugAssign)):
                for t in (x.targets if isinstance(x, ast.Assign) else [x.target]):
                    if isinstance(t, ast.Subscript) and x.lineno > s.lineno:
                        return True
        return False

    def _alias_check(self, s, value, t):
        if isinstance(value, ast.Name) and value.id.startswith(("c__", "p__")):
            return                           # a temporary: the result of a call (taken to be a fresh object)
        if t in self.ctx.mutable and isinstance(value, (ast.Name, ast.Attribute, ast.Subscript)) \
                and not self.ctx.find(value) and self._later_item_assignment(s):
            raise TranslateError(f"`{ast.unparse(s)}` gives a mutable object a second name and an item assignment follows "
                                 "(aliasing is not modelled)")

    def _set_field(self, f, v, rest_of):
        if self.init_fields is not None:
            loc = f"self_{f}"
            t2 = self.sub({})
            t2.init_fields[f] = loc
            t2.env[loc] = self.ctx.fields[f]
            return f"let {loc} : {self.ctx.fields[f]} := {v}\n  {rest_of(t2)}"
        if not self.state:
            raise TranslateError(f"assignment to self.{f} in a method not declared a mutator")
        return f"let self := {{ self with {f} := {v} }}\n  {rest_of(self)}"

    def _assign(self, s, rest):
        ctx = self.ctx
        if isinstance(s, ast.Assign) and len(s.targets) != 1:
            raise TranslateError("multiple assignment targets")
        tgt = s.targets[0] if isinstance(s, ast.Assign) else s.target
        is_self_field = lambda x: isinstance(x, ast.Attribute) and isinstance(x.value, ast.Name) and x.value.id == "self" \
            and x.attr in ctx.fields
        # ---- item assignment on a mutable object: x[k] = v / self.f[k] = v / self.f[...] = v
        if isinstance(tgt, ast.Subscript) and isinstance(s, ast.Assign):
            obj = tgt.value
            if not (is_self_field(obj) or (isinstance(obj, ast.Name) and obj.id in self.env)):
                raise TranslateError("item assignment target")
            ellipsis = isinstance(tgt.slice, ast.Constant) and tgt.slice.value is Ellipsis
            knode = None if ellipsis else tgt.slice
            # evaluation order of `o[k] = v`: v, o, k
            h = _Hoist(self)
            vnode = h.visit(s.value)
            if knode is not None:
                knode = h.visit(knode)
            t2, binds = h.t, h.binds
            o, to = t2.e(obj)
            v, tv = t2.e(vnode)
            if knode is None:
                key, args = (to, "...", tv), [o, v]
            else:
                k_, tk = t2.e(knode)
                key, args = (to, tk, tv), [o, k_, v]
            if to not in ctx.mutable or key not in ctx.setitem:
                raise TranslateError(f"item assignment {key} is not a declared external")
            ctx.used.add(ctx.setitem[key])
            call = "(" + " ".join([f"ext.{ctx.setitem[key]}"] + args) + ")"

            def after(tt, rest=rest):
                return tt.block(rest)
            if is_self_field(obj):
                upd_ok = t2._set_field(obj.attr, "w_t.1", after)
                upd_err = t2._set_field(obj.attr, "w_t.1", lambda tt: tt.fail("e"))
            else:
                nm = _name(obj.id)
                upd_ok = f"let {nm} : {to} := w_t.1\n  {t2.block(rest)}"
                upd_err = f"let {nm} : {to} := w_t.1\n  {t2.fail('e')}"
            return self.chain(binds, f"let w_t := {call}\n  match w_t.2 with\n  | .error e =>\n  ({upd_err})\n  | .ok _ =>\n  {upd_ok}")
        # ---- a, b = e
        if isinstance(tgt, ast.Tuple) and isinstance(s, ast.Assign) and all(isinstance(x, ast.Name) for x in tgt.elts):
            t2, binds, node = self.hoist(s.value)
            v, t = t2.e(node)
            parts = prod_parts(t)
            if len(parts) != len(tgt.elts) or len(parts) < 2:
                raise TranslateError(f"unpacking a value of type {t} into {len(tgt.elts)} names")
            lets, env = "", {}
            for k, (x, pt) in enumerate(zip(tgt.elts, parts)):
                proj = f"({v})" + ".2" * k + ("" if k == len(parts) - 1 else ".1")
                lets += f"let {_name(x.id)} : {ctx.real(pt)} := {proj}\n  "
                env[x.id] = pt
            return self.chain(binds, lets + t2.sub(env).block(rest))
        # ---- self.f = e
        if is_self_field(tgt) and isinstance(s, ast.Assign):
            t2, binds, node = self.hoist(s.value)
            v, t = t2.e(node)
            self._alias_check(s, node, t)
            if t != ctx.fields[tgt.attr]:
                raise TranslateError(f"self.{tgt.attr} : {ctx.fields[tgt.attr]} assigned a value of type {t}")
            return self.chain(binds, t2._set_field(tgt.attr, v, lambda tt: tt.block(rest)))
        if isinstance(tgt, ast.Name):
            name = tgt.id
            if name == "self":
                raise TranslateError("assignment to self")
            if isinstance(s, ast.Assign) and isinstance(s.value, (ast.List, ast.Tuple)) and not s.value.elts:
                t = self.unit["locals"].get(name)
                if t is None:
                    raise TranslateError(f"empty literal for {name} (no declared type)")
                return f"let {_name(name)} : {ctx.real(t)} := []\n  {self.sub({name: t}).block(rest)}"
            t2, binds, node = self.hoist(s.value)
            v, t = t2.e(node)
            if isinstance(s, ast.AugAssign):
                if not isinstance(s.op, ast.Add) or name not in self.env or not is_list(self.env[name]):
                    if name in self.env and self.env[name] == INT and t == INT:
                        bv, bt = t2.binop(ast.BinOp(left=ast.Name(id=name, ctx=ast.Load()), op=s.op, right=node))
                        return self.chain(binds, f"let {_name(name)} : {INT} := {bv}\n  {t2.block(rest)}")
                    raise TranslateError("augmented assignment")
                if self.env[name] in ctx.mutable:
                    raise TranslateError("`+=` on a mutable external object")
                v = t2.coerce(v, t, self.env[name])
                return self.chain(binds, f"let {_name(name)} : {ctx.real(self.env[name])} := {_name(name)} ++ {v}\n  {t2.block(rest)}")
            self._alias_check(s, node, t)
            want = self.unit["locals"].get(name, t)
            v = t2.coerce(v, t, want)
            return self.chain(binds, f"let {_name(name)} : {ctx.real(want)} := {v}\n  {t2.sub({name: want}).block(rest)}")
        raise TranslateError("assignment target")

    def _try(self, s, rest):
        ctx = self.ctx
        if s.finalbody or s.orelse or not s.handlers:
            raise TranslateError("try with else / finally")
        conds = []
        for h in s.handlers:
            if h.name is not None:
                raise TranslateError("`except … as e`")
            if isinstance(h.type, ast.Name) and h.type.id in EXC:
                conds.append(f"e_t == {EXC[h.type.id]}")
            elif isinstance(h.type, ast.Name) and h.type.id == "Exception":
                conds.append("true")
            else:
                raise TranslateError("except clause")
        can_fall = (not tr._ends(s.body)) or any(not tr._ends(h.body) for h in s.handlers)
        vars_ = []
        if can_fall:
            for blk in [s.body] + [h.body for h in s.handlers if not tr._ends(h.body)]:
                for x in _assigned_names(blk):
                    if x not in vars_:
                        vars_.append(x)
            if self.state:
                vars_ = [x for x in vars_ if not x.startswith("self.")]
        inner = self.with_flow(vars_)
        body = inner.block(s.body)
        # types of the handed-on variables: read off the environment at the end of the body (recomputed by a dry run)
        types = _FlowTypes(inner, s, vars_).types() if vars_ else []
        L = "Unit" if not vars_ else " × ".join(paren(ctx.real(t)) for t in types)
        flow_t = f"Except {EXC_T} (OQ.PyT.Flow {paren(ctx.real(self.ret)) if self.ret != '?' else 'Unit'} ({L}))"
        if self.init_fields is not None:
            flow_t = f"Except {EXC_T} (OQ.PyT.Flow Unit ({L}))"
        whole_t = f"({ctx.state_t}) × {flow_t}" if self.state else flow_t
        handler = "(self, .error e_t)" if self.state else "(.error e_t)"
        for c, h in reversed(list(zip(conds, s.handlers))):
            handler = f"if {c} then\n    ({inner.block(h.body)})\n    else\n    {handler}"
        epat = "(self, .error e_t)" if self.state else ".error e_t"
        composed = f"((match ({body} : {whole_t}) with\n  | {epat} =>\n    {handler}\n  | r_t => r_t) : {whole_t})"
        # after the statement
        env, init_fields = {}, (None if self.init_fields is None else dict(self.init_fields))
        pats = []
        for x, t in zip(vars_, types):
            if x.startswith("self."):
                init_fields[x[5:]] = f"self_{x[5:]}"
                pats.append(f"self_{x[5:]}")
            else:
                env[x] = t
                pats.append(_name(x))
        pat = "_" if not pats else (pats[0] if len(pats) == 1 else "(" + ", ".join(pats) + ")")
        after = self.clone(env={**self.env, **env})
        after.init_fields = init_fields
        w = (lambda x: f"(self, {x})") if self.state else (lambda x: x)
        arms = f"  | {w('.error e')} => {self.fail('e')}\n"
        if self.init_fields is None:
            arms += f"  | {w('.ok (.ret v_t)')} => {self.ok('v_t')}\n"
        else:
            arms += f"  | {w('.ok (.ret _)')} => {self.fail('.AssertionError')}\n"   # unreachable: no `return` inside __init__
        if can_fall:
            arms += f"  | {w(f'.ok (.next {pat})')} =>\n  {after.block(rest)}"
        else:
            if rest:
                raise TranslateError("statements after a try statement that never falls through")
            arms += f"  | {w('.ok (.next _)')} => {self.fail('.AssertionError')}"     # unreachable: both parts end in return / raise
        return f"match {composed} with\n{arms}"


class _FlowTypes:
    """types of the variables a try statement hands on: found by translating body / handlers with a recording `fall`"""

    def __init__(self, inner, s, vars_):
        self.inner, self.s, self.vars = inner, s, vars_

    def types(self):
        found = []

        class Rec(TX):
            def fall(rec):
                ts = []
                for x in self.vars:
                    if x.startswith("self."):
                        if rec.init_fields is None or x[5:] not in rec.init_fields:
                            raise TranslateError(f"{x} is not assigned on every path through the try statement")
                        ts.append(rec.ctx.fields[x[5:]])
                    else:
                        if x not in rec.env:
                            raise TranslateError(f"{x} is not assigned on every path through the try statement")
                        ts.append(rec.env[x])
                found.append(ts)
                return "()"

        i = self.inner
        for blk in [self.s.body] + [h.body for h in self.s.handlers]:
            i.clone(cls=Rec).block(blk)
        if not found:
            return []
        if any(f != found[0] for f in found):
            raise TranslateError("a variable leaves the try statement with different types")
        return found[0]


def _assigned_names(stmts):
    out = []
    for s in stmts:
        for x in ast.walk(s):
            tgts = []
            if isinstance(x, ast.Assign):
                tgts = x.targets
            elif isinstance(x, (ast.AugAssign, ast.AnnAssign)):
                tgts = [x.target]
            for t in tgts:
                for y in ([t] if not isinstance(t, ast.Tuple) else t.elts):
                    if isinstance(y, ast.Subscript):
                        y = y.value
                    nm = None
                    if isinstance(y, ast.Name):
                        nm = y.id
                    elif isinstance(y, ast.Attribute) and isinstance(y.value, ast.Name) and y.value.id == "self":
                        nm = "self." + y.attr
                    if nm and nm not in out:
                        out.append(nm)
    return out


def _is_unzip(n):
    return (isinstance(n, ast.Call) and isinstance(n.func, ast.Name) and n.func.id == "zip" and len(n.args) == 1
            and isinstance(n.args[0], ast.Starred) and isinstance(n.args[0].value, ast.Call)
            and isinstance(n.args[0].value.func, ast.Attribute) and n.args[0].value.func.attr == "items"
            and not n.args[0].value.args and not n.keywords)


class _Hoist:
    """rewrites an expression so that every call that can raise becomes a temporary bound beforehand, in evaluation order"""

    def __init__(self, t):
        self.t = t
        self.binds = []

    def _bind(self, text, rt):
        self.t.ctx._tmp = getattr(self.t.ctx, "_tmp", 0) + 1
        tmp = f"c__{self.t.ctx._tmp}"
        self.binds.append((tmp, text))
        self.t = self.t.sub({tmp: rt})
        return ast.Name(id=tmp, ctx=ast.Load())

    def refuse(self, node, where):
        if node is not None and self.t.raising(node):
            raise TranslateError(f"a call that can raise {where}")

    def visit(self, n):
        t = self.t
        if n is None or not isinstance(n, ast.AST) or not t.raising(n):
            return n
        # a translated definition
        uc = t.unit_call(n)
        if uc is not None:
            u, recv, args = uc
            nodes = ([self.visit(recv)] if recv is not None else []) + [self.visit(a) for a in args]
            vals = [self.t.e(a) for a in nodes]
            want = ([t.ctx.obj] if recv is not None else []) + list(u["args"])
            texts = [self.t.coerce(v, tv, w) for (v, tv), w in zip(vals, want)]
            return self._bind("(" + " ".join([f"{t.ctx.ns}.{u['lean']} ext"] + texts) + ")", u["ret"])
        if _is_unzip(n):
            d = self.visit(n.args[0].value.func.value)
            v, tv = self.t.e(d)
            if not tv.startswith("OQ.Py.Dict "):
                raise TranslateError(f".items() of {tv}")
            k_, v_ = _dict_parts(tv)
            return self._bind(f"(OQ.PyT.unzipItems {v})", f"{paren(list_of(k_))} × {paren(list_of(v_))}")
        # a raising external (outermost pattern first)
        if isinstance(n, (ast.Call, ast.Attribute, ast.BinOp, ast.Compare, ast.Subscript)):
            cands = t.ctx.find(n)
            if cands:
                err = None
                for x, holes in cands:
                    saved = (self.t, list(self.binds))
                    try:
                        nodes = [self.visit(h) for h in holes]
                        vals = [self.t.e(a) for a in nodes]
                    except TranslateError as e_:
                        self.t, self.binds = saved
                        err = e_
                        continue
                    if [tv for _, tv in vals] == x.holes:
                        t.ctx.used.add(x.field)
                        text = "(" + " ".join([f"ext.{x.field}"] + [v for v, _ in vals]) + ")"
                        if x.raises:
                            return self._bind(text, x.ret)
                        self.t, nm = self.t.with_alias(text, x.ret)     # a pure external over hoisted parts
                        return nm
                    self.t, self.binds = saved
                    err = TranslateError(f"`{x.pattern}` applied to {[tv for _, tv in vals]}, declared {x.holes}")
                raise err
        if isinstance(n, ast.BoolOp):
            first = self.visit(n.values[0])
            for v in n.values[1:]:
                self.refuse(v, "under a short-circuit operator")
            return ast.BoolOp(op=n.op, values=[first] + n.values[1:])
        if isinstance(n, ast.IfExp):
            test = self.visit(n.test)
            self.refuse(n.body, "in a conditional expression")
            self.refuse(n.orelse, "in a conditional expression")
            return ast.IfExp(test=test, body=n.body, orelse=n.orelse)
        if isinstance(n, ast.ListComp):
            return self._comprehension(n)
        if isinstance(n, (ast.GeneratorExp, ast.SetComp, ast.DictComp, ast.Lambda)):
            raise TranslateError("a call that can raise inside a generator / lambda")
        if isinstance(n, ast.Call):
            return ast.Call(func=self.visit(n.func) if not isinstance(n.func, ast.Name) else n.func,
                            args=[self.visit(a) for a in n.args],
                            keywords=[ast.keyword(arg=k.arg, value=self.visit(k.value)) for k in n.keywords])
        if isinstance(n, ast.Attribute):
            return ast.Attribute(value=self.visit(n.value), attr=n.attr, ctx=n.ctx)
        if isinstance(n, ast.BinOp):
            left = self.visit(n.left)
            return ast.BinOp(left=left, op=n.op, right=self.visit(n.right))
        if isinstance(n, ast.UnaryOp):
            return ast.UnaryOp(op=n.op, operand=self.visit(n.operand))
        if isinstance(n, ast.Compare):
            left = self.visit(n.left)
            return ast.Compare(left=left, ops=n.ops, comparators=[self.visit(c) for c in n.comparators])
        if isinstance(n, (ast.Tuple, ast.List)):
            return type(n)(elts=[self.visit(x) for x in n.elts], ctx=ast.Load())
        if isinstance(n, ast.Subscript):
            v = self.visit(n.value)
            sl = n.slice
            if isinstance(sl, ast.Slice):
                sl = ast.Slice(lower=self.visit(sl.lower), upper=self.visit(sl.upper), step=sl.step)
            else:
                sl = self.visit(sl)
            return ast.Subscript(value=v, slice=sl, ctx=n.ctx)
        if isinstance(n, ast.Starred):
            return ast.Starred(value=self.visit(n.value), ctx=n.ctx)
        raise TranslateError(f"a call that can raise inside {type(n).__name__}")

    def _comprehension(self, n):
        """[elt for x in xs if c] with `elt` and / or `c` able to raise -> mapE / filterE"""
        if len(n.generators) != 1 or not isinstance(n.generators[0].target, ast.Name) or len(n.generators[0].ifs) > 1:
            raise TranslateError("comprehension form (with a call that can raise)")
        g = n.generators[0]
        it = self.visit(g.iter)
        xs, txs = self.t.e(it)
        if not is_list(txs):
            to = [w for (frm, w) in self.t.ctx.coerce if frm == txs and is_list(w)]
            if len(to) != 1:
                raise TranslateError(f"comprehension over a value of type {txs}")
            xs, txs = self.t.coerce(xs, txs, to[0]), to[0]
        var, te = g.target.id, elem(txs)
        inner = self.t.sub({var: te})
        r_if = bool(g.ifs) and inner.raising(g.ifs[0])
        r_elt = inner.raising(n.elt)
        if r_if and r_elt:
            raise TranslateError("comprehension whose filter AND element can raise")
        binder = f"(fun ({_name(var)} : {self.t.ctx.real(te)}) => "
        if g.ifs:
            if r_if:
                c, tc = inner.as_except_truth(g.ifs[0])
                src = self._bind(f"(OQ.PyT.filterE {binder}{c}) {xs})", txs)
                xs = self.t.e(src)[0]
            else:
                xs = f"({xs}.filter {binder}{inner.truth(g.ifs[0])}))"
        if r_elt:
            b, tb = inner.as_except(n.elt)
            return self._bind(f"(OQ.PyT.mapE {binder}{b}) {xs})", list_of(tb))
        if isinstance(n.elt, ast.Name) and n.elt.id == var:
            self.t, nm = self.t.with_alias(xs, txs)
            return nm
        b, tb = inner.e(n.elt)
        self.t, nm = self.t.with_alias(f"({xs}.map {binder}{b}))", list_of(tb))
        return nm


def _dict_parts(t):
    rest = t[len("OQ.Py.Dict "):]
    # two type atoms, each either a parenthesised group or a single word
    parts, i = [], 0
    while i < len(rest) and len(parts) < 2:
        if rest[i] == " ":
            i += 1
            continue
        if rest[i] == "(":
            d, j = 0, i
            while True:
                d += rest[j] == "("
                d -= rest[j] == ")"
                j += 1
                if d == 0:
                    break
            parts.append(rest[i + 1:j - 1])
            i = j
        else:
            j = rest.find(" ", i)
            j = len(rest) if j < 0 else j
            parts.append(rest[i:j])
            i = j
    return parts[0], parts[1]


# ---------------------------------------------------------------------------------------------- one unit
def translate_unit(ctx, u):
    """u: dict(py=<python function>, name=<python name>, lean=<lean name>, kind=function|static|reader|property|mutator|init,
    args=[declared types], ret=<declared type>, locals={name: type}) -> lean text; registers the unit in ctx.units"""
    fn = u["py"]
    fn = getattr(fn, "fget", fn)
    fn = getattr(fn, "__func__", fn)
    fn = getattr(fn, "__wrapped__", fn)
    src = textwrap.dedent(inspect.getsource(fn))
    node = ast.parse(src).body[0]
    if not isinstance(node, ast.FunctionDef):
        raise TranslateError("not a function")
    names = [a.arg for a in node.args.args]
    has_self = u["kind"] in ("reader", "property", "mutator", "init")
    if has_self:
        if not names or names[0] != "self":
            raise TranslateError("method without self")
        names = names[1:]
    if node.args.vararg or node.args.kwarg or node.args.kwonlyargs or len(names) != len(u["args"]):
        raise TranslateError("parameters differ from the declared ones")
    defaults = dict(zip(reversed(names), reversed(node.args.defaults)))
    for p, d in defaults.items():
        if not (isinstance(d, ast.Constant) and (d.value is None or isinstance(d.value, (bool, int, str)))):
            raise TranslateError(f"default of {p} is not a constant")
    unit = dict(u, ast=node, params=names, defaults=defaults, locals=dict(u.get("locals", {})))
    env = dict(zip(names, u["args"]))
    state = u["kind"] == "mutator"
    if u["kind"] in ("reader", "property", "mutator"):
        env["self"] = ctx.obj
    t = TX(env, u["ret"], ctx, unit, state=state, init_fields={} if u["kind"] == "init" else None)
    ctx._tmp = 0
    body = t.block(node.body)
    tps = "{" + " ".join(ctx.type_params) + " : Type} "
    binders = f"(ext : {ctx.ext_t}) " + (f"(self : {ctx.state_t}) " if env.get("self") else "") \
        + " ".join(f"({_name(n)} : {ctx.real(tt)})" for n, tt in zip(names, u["args"]))
    if u["kind"] == "init":
        rt = f"Except {EXC_T} ({ctx.state_t})"
    elif state:
        rt = f"({ctx.state_t}) × Except {EXC_T} {paren(ctx.real(u['ret']))}"
    else:
        rt = f"Except {EXC_T} {paren(ctx.real(u['ret']))}"
    where = f"{inspect.getsourcefile(fn).split('/src/')[-1]}:{fn.__qualname__}"
    ctx.units[u["name"]] = dict(unit, ret=(ctx.obj if u["kind"] == "init" else u["ret"]))
    return f"/-- translated from `{where}` -/\ndef {ctx.ns}.{u['lean']} {tps}{binders} : {rt} :=\n  {body}\n"


def declarations(ctx):
    """the State structure and the Ext structure (from the spec alone – they exist even when a unit is not translatable)"""
    out = [f"/-- the fields of a `{ctx.cls_name}` object -/", f"structure {ctx.ns}.State ({' '.join(ctx.state_params)} : Type) where"]
    out += [f"  {f} : {t}" for f, t in ctx.fields.items()]
    out += ["deriving DecidableEq, Repr", "", f"/-- the externals (numpy / sympy / math / rng expressions by source pattern, item assignments, truth values, coercions): "
                "parameters of every translated definition; their laws are hypotheses of the tie theorems -/",
            f"structure {ctx.ns}.Ext ({' '.join(ctx.type_params)} : Type) where"]
    for x in ctx.externals:
        out += [f"  /-- `{x.pattern}`" + (" (may raise)" if x.raises else "") + (f": {x.doc}" if x.doc else "") + " -/",
                f"  {x.field} : {x.lean_type()}"]
    for (to, tk, tv), f in ctx.setitem.items():
        src = "_1[...] = _2" if tk == "..." else "_1[_2] = _3"
        hs = [to] + ([] if tk == "..." else [tk]) + [tv]
        out += [f"  /-- the statement `{src}`: the object afterwards, and whether the write raised -/",
                f"  {f} : {' → '.join(paren(h) for h in hs)} → {paren(to)} × Except {EXC_T} Unit"]
    for t, f in ctx.truthy.items():
        out += [f"  /-- truth value of a `{t}` (`if x:` / `not x`) -/", f"  {f} : {paren(t)} → Bool"]
    for (a, b), f in ctx.coerce.items():
        out += [f"  /-- a `{a}` where a `{b}` is expected (iteration / numeric conversion) -/", f"  {f} : {paren(a)} → {paren(b)}"]
    return "\n".join(out) + "\n"
