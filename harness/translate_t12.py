"""Work package T12: extension of harness/translate_t3.py (opaque objects, externals as parameters) for the circuit container
(`circuits/_circuit.py`), the composition of `_unitary_tools._lift_matrix`, `split_circuit` and the index helpers nested in
`operators/_utils.get_pauliop_from_matrix` (properties C01, C09).  `T12` subclasses `translate_t3.T3`; everything of T3 / the base
translator stays available.  Added:

Effects (calls that may RAISE inside an expression).  A declared external whose result type is `Option τ` (a constructor that
  validates, `op.lifted_matrix(n)`, `_permutation_matrix(…)`), `min(xs)` / `max(xs)` of ONE list of ints (`OQ.Py.minList` / `maxList`,
  ValueError on an empty one), `functools.reduce(f, xs)` without initial value (`OQ.Py.reduce1`, TypeError on an empty list) and
  calls of translated PARTIAL functions are hoisted out of the statement that contains them, in Python's evaluation order (arguments
  before the call, left to right), into `match … with | none => none | some __hK => …`.  An effect in a conditionally evaluated
  position (branch of a conditional expression, later operand of and/or, comprehension element, lambda) is refused – except that
  `return A if c else B` / `x = A if c else B` are first rewritten to the equivalent `if` statement.  Only in partial functions.
Loops whose body may raise (`raise`, effects): `OQ.Py.foldlOpt` over the loop-carried tuple (first exception ends the loop: `none`).
Function-typed parameters (`eye`, `kronecker_product`, `predicate`): a declared type `A → B → C`; a call is an application, the bare
  name a value (e.g. the first argument of `reduce`).
Module attributes: `sympy.Matrix(x)` (a call) and `operator.matmul` (a value) where the prefix is a module global of the function:
  externals with the keys "sympy.Matrix(_)" / "operator.matmul".
Literals `[*xs, a]`, `[*xs, *ys]`, `(a, *xs)` (concatenation of the segments); `a, b = e1, e2` (both sides evaluated first).
`x = []`: the type of the local may be declared by position (`local_types={"#1": …}` = the first empty-literal assignment in source
  order) instead of by name, so that renaming the local keeps the translation.
`if x:` / `if not x:` on a parameter of type `Option Int` (truthy = not None and non-zero; the value is narrowed to `Int` in the true
  branch), on an `Int` (non-zero) and on a list (non-empty); `e1 if x is not None else e2` narrows `x` in `e1`; an empty literal in
  one branch takes the type of the other.
Float / complex literals (`1.0`, `1j`): external constants of the (opaque) scalar type; `-x` on an opaque scalar: the external "-ρ";
  `f(x, dtype=float)`: a keyword whose value is a builtin type is part of the external's key ("np.asarray(_,dtype=float)").
`xs[i]` on a list of opaque / list elements: `xs[i]?` (IndexError = `none`; domain: a non-negative index, as in the base translator).
`sorted(xs)` of ints (`OQ.Py.sortedInt`); `X[:, i] = v` on a local opaque matrix: the external "μ[:,_]=ν" (rebinding).
`itertools.groupby(xs, key)` with a function-typed `key`: `OQ.Py.groupby key xs : List (κ × List α)` – the groups as LISTS (the
  sub-iterators are consumed by the loop body before the next group is requested in every function translated here; laziness is
  not modelled, as for T2's generators).
Modes (spec option "mode"):
  "ctor"       `__init__(self, …)`: `self.a = e` binds the local `self__a`, `self.a` reads it (reading a field before it is assigned is
               an unknown name -> TranslateError); falling off the end returns the tuple of the assigned fields in order of first
               assignment.  `self` is not a binder (the object is empty on entry).
  "generator"  `yield e` is `__yield.append(e)`, the function returns the list `__yield` of everything it yields (complete run).
  "property"   the spec names a `property` (or its getter); the getter is translated.
  "dispatch"   a `functools.singledispatch` function over opaque classes (see `translate_dispatch`).
  "nested"     a function DEFINED INSIDE another one (`path` = names of the enclosing defs): its free variables that are locals /
               parameters of the enclosing functions become leading binders (`closure` = [(name, type)], checked against the free
               variables actually read on every run).
"""
import ast
import functools
import inspect
import itertools
import textwrap
import types

from . import translate as tr
from . import translate_t3 as t3
from .translate import TranslateError, INT, BOOL, is_list, elem, list_of, paren
from .translate_t3 import opt_of, is_opt, opt_elem


class EffT(str):
    """the type `Option τ` of a call that may raise (marks the call as an effect to be hoisted)"""


def fn_parts(t):
    """['A', 'B', 'C'] for 'A → B → C' (top level), None for a non-function type"""
    parts, depth, cur, i = [], 0, "", 0
    while i < len(t):
        ch = t[i]
        depth += ch == "("
        depth -= ch == ")"
        if depth == 0 and t.startswith(" → ", i):
            parts.append(cur.strip())
            cur = ""
            i += 3
            continue
        cur += ch
        i += 1
    parts.append(cur.strip())
    if len(parts) < 2:
        return None
    return [p[1:-1] if p.startswith("(") and p.endswith(")") and tr._balanced(p[1:-1]) else p for p in parts]


class Ctx12(t3.Ctx):
    def __init__(self, *a, **k):
        super().__init__(*a, **k)
        self.probing = False
        self.counter = 0

    def fresh(self):
        self.counter += 1
        return f"__h{self.counter}"

    def partial_idents(self):
        out = set()
        for key, x in self.ext.items():
            if not is_opt(x.ret):
                continue
            head = key.split("(")[0]
            out.add(head.split(".")[-1])
        return out


def _is_none_test(n):
    return (isinstance(n, ast.Compare) and len(n.ops) == 1 and isinstance(n.ops[0], (ast.Is, ast.IsNot))
            and isinstance(n.left, ast.Name) and isinstance(n.comparators[0], ast.Constant) and n.comparators[0].value is None)


def _empty_lit(n):
    return isinstance(n, (ast.List, ast.Tuple)) and not n.elts


class T12(t3.T3):
    def __init__(self, env, ret, partial, ctx, attrs=None, local_types=None, optfold=False):
        super().__init__(env, ret, partial, ctx, attrs, local_types)
        self.optfold = optfold

    def sub(self, extra):
        return T12({**self.env, **extra}, self.ret, self.partial, self.ctx, self.attrs, self.local_types, self.optfold)

    def without(self, name):
        return T12({k: v for k, v in self.env.items() if k != name}, self.ret, self.partial, self.ctx, self.attrs,
                   self.local_types, self.optfold)

    # ------------------------------------------------------------------ effects
    def eff(self, text, t):
        if not self.partial:
            raise TranslateError("a call that may raise in a function not declared partial")
        if not self.ctx.probing:
            raise TranslateError("a call that may raise in a conditionally evaluated position")
        return text, EffT(opt_of(t))

    def use(self, key, args):
        v, t = super().use(key, args)
        if is_opt(t) and "(" in key:
            return self.eff(v, opt_elem(t))
        return v, t

    _TYPE_NAMES = ("float", "int", "complex", "bool")

    def _is_type_kw(self, k):
        return (isinstance(k.value, ast.Name) and k.value.id in self._TYPE_NAMES and k.value.id not in self.env
                and self.ctx.glob(k.value.id) is getattr(__import__("builtins"), k.value.id))

    def _shape(self, n):
        """as in T3, except that a keyword whose value is a builtin TYPE (`dtype=float`) is part of the key, not an argument"""
        pos = ["*_" if isinstance(a, ast.Starred) else "_" for a in n.args]
        kws = [f"{k.arg}={k.value.id}" if self._is_type_kw(k) else f"{k.arg}=_" for k in n.keywords]
        return "(" + ",".join(pos + kws) + ")"

    def _call_args(self, n):
        out = []
        for a in n.args:
            out.append(self.e(a.value if isinstance(a, ast.Starred) else a))
        for k in n.keywords:
            if k.arg is None:
                raise TranslateError("**kwargs")
            if not self._is_type_kw(k):
                out.append(self.e(k.value))
        return out

    def _module(self, n):
        """the module a Name refers to (a global of the translated function that is not shadowed), else None"""
        if isinstance(n, ast.Name) and n.id not in self.env:
            g = self.ctx.glob(n.id)
            if isinstance(g, types.ModuleType):
                return n.id
        return None

    # ------------------------------------------------------------------ expressions
    def e(self, n):
        c = self.ctx
        if isinstance(n, ast.Constant) and isinstance(n.value, (float, complex)) and not isinstance(n.value, bool):
            return self.use(repr(n.value), [])      # a float / complex literal: an external constant of the scalar type
        if isinstance(n, ast.UnaryOp) and isinstance(n.op, ast.Not):
            v, t = self.e(n.operand)
            if t == INT:
                return f"({v} == 0)", BOOL
        if isinstance(n, ast.UnaryOp) and isinstance(n.op, ast.USub):
            v, t = self.e(n.operand)
            if c.opaque(t):
                return self.use(f"-{t}", [(v, t)])
        if isinstance(n, ast.Subscript) and isinstance(n.slice, ast.Slice):
            for bnd in (n.slice.lower, n.slice.upper):
                if isinstance(bnd, ast.UnaryOp) and isinstance(bnd.op, ast.USub) and isinstance(bnd.operand, ast.Constant):
                    raise TranslateError("negative slice bound (counts from the end; outside the rendered subset)")
        if isinstance(n, ast.Subscript) and not isinstance(n.slice, ast.Slice):
            a, ta = self.e(n.value)
            if is_list(ta) and elem(ta) not in tr.DEFAULTS:
                i, ti = self.e(n.slice)
                if ti != INT:
                    raise TranslateError("subscript")
                # IndexError when out of range (documented domain, as in the base translator: a non-negative index)
                return self.eff(f"({a}[Int.toNat {i}]?)", elem(ta))
        if isinstance(n, ast.Attribute) and self._module(n.value):
            return self.use(f"{n.value.id}.{n.attr}", [])
        if isinstance(n, (ast.Tuple, ast.List)) and any(isinstance(v, ast.Starred) for v in n.elts):
            segs, t_el = [], None
            for v in n.elts:
                if isinstance(v, ast.Starred):
                    x, tx = self.e(v.value)
                    if not is_list(tx):
                        raise TranslateError("starred non-list")
                    segs.append(x)
                    te = elem(tx)
                else:
                    x, te = self.e(v)
                    segs.append(f"[{x}]")
                if t_el is not None and te != t_el:
                    raise TranslateError("starred literal of mixed types")
                t_el = te
            return "(" + " ++ ".join(segs) + ")", list_of(t_el)
        if isinstance(n, ast.IfExp):
            if _is_none_test(n.test):
                x = n.test.left.id
                t = self.env.get(x)
                if t is None or not is_opt(t):
                    raise TranslateError(f"`{x} is None` on a name of type {t}")
                some_n, none_n = (n.body, n.orelse) if isinstance(n.test.ops[0], ast.IsNot) else (n.orelse, n.body)
                sv, st = self.sub({x: opt_elem(t)}).e(some_n) if not _empty_lit(some_n) else (None, None)
                nv, nt = self.without(x).e(none_n) if not _empty_lit(none_n) else (None, None)
                if st is None and nt is None:
                    raise TranslateError("empty literals (type unknown)")
                st, nt = st or nt, nt or st
                if st != nt:
                    raise TranslateError("ifexp types")
                sv = sv if sv is not None else f"([] : {st})"
                nv = nv if nv is not None else f"([] : {st})"
                return f"(match {x} with | some {x} => {sv} | none => {nv})", st
            if _empty_lit(n.body) != _empty_lit(n.orelse):
                cnd, tc = self.truth(n.test)
                a, ta = self.e(n.orelse if _empty_lit(n.body) else n.body)
                lit = f"([] : {ta})"
                return (f"(if {cnd} then {lit} else {a})" if _empty_lit(n.body) else f"(if {cnd} then {a} else {lit})"), ta
            cnd, tc = self.truth(n.test)
            a, ta = self.e(n.body)
            b, tb = self.e(n.orelse)
            if ta != tb:
                raise TranslateError("ifexp types")
            return f"(if {cnd} then {a} else {b})", str(ta)
        if isinstance(n, ast.BinOp) and isinstance(n.op, ast.Pow):
            a, ta = self.e(n.left)
            b, tb = self.e(n.right)
            if ta == INT and tb == INT:
                # documented domain (as in the base translator): a non-negative exponent (Python gives a float otherwise)
                return f"({a} ^ (Int.toNat {b}))", INT
        return super().e(n)

    def truth(self, n):
        """truthiness of a test expression: Bool as is, Int non-zero, list non-empty"""
        if isinstance(n, ast.UnaryOp) and isinstance(n.op, ast.Not):
            v, t = self.truth(n.operand)
            return f"(!{v})", BOOL
        v, t = self.e(n)
        if t == BOOL:
            return v, BOOL
        if t == INT:
            return f"({v} != 0)", BOOL
        if is_list(t):
            return f"(!{v}.isEmpty)", BOOL
        raise TranslateError(f"truth value of {t}")

    def call(self, n):
        c = self.ctx
        f = n.func
        if isinstance(f, ast.Name) and f.id in self.env and fn_parts(self.env[f.id]):
            parts = fn_parts(self.env[f.id])
            if n.keywords or any(isinstance(a, ast.Starred) for a in n.args):
                raise TranslateError("call shape of a function-typed local")
            args = [self.e(a) for a in n.args]
            if [str(t) for _, t in args] != parts[:-1]:
                raise TranslateError(f"{f.id} applied to {[t for _, t in args]}, declared {parts[:-1]}")
            ret = parts[-1]
            text = "(" + " ".join([f.id] + [a for a, _ in args]) + ")"
            if is_opt(ret):
                return self.eff(text, opt_elem(ret))
            return text, ret
        if isinstance(f, ast.Name) and f.id not in self.env:
            name = f.id
            g = c.glob(name)
            if name in ("min", "max") and len(n.args) == 1 and not n.keywords and g is getattr(__import__("builtins"), name):
                v, t = self.e(n.args[0])
                if t == "List Int":
                    return self.eff(f"(OQ.Py.{name}List {v})", INT)
                raise TranslateError(f"{name} of {t}")
            if name == "len" and g is len and len(n.args) == 1 and not n.keywords:
                v, t = self.e(n.args[0])
                if c.opaque(t):
                    return self.use(f"len({t})", [(v, t)])
            if name == "sorted" and g is sorted and len(n.args) == 1 and not n.keywords:
                v, t = self.e(n.args[0])
                if t == "List Int":
                    return f"(OQ.Py.sortedInt {v})", "List Int"
                raise TranslateError(f"sorted of {t}")
            if name == "reduce" and g is functools.reduce and len(n.args) == 2 and not n.keywords:
                fv, ft = self.e(n.args[0])
                xs, txs = self.e(n.args[1])
                parts = fn_parts(ft)
                if not is_list(txs) or parts != [elem(txs)] * 3:
                    raise TranslateError(f"reduce({ft}, {txs})")
                return self.eff(f"(OQ.Py.reduce1 {fv} {xs})", elem(txs))
            if name == "groupby" and g is itertools.groupby and len(n.args) == 2 and not n.keywords:
                xs, txs = self.e(n.args[0])
                kv, kt = self.e(n.args[1])
                parts = fn_parts(kt)
                if not is_list(txs) or parts is None or len(parts) != 2 or parts[0] != elem(txs) or parts[1] not in (BOOL, INT):
                    raise TranslateError(f"groupby({txs}, {kt})")
                return f"(OQ.Py.groupby {kv} {xs})", list_of(f"{paren(parts[1])} × {paren(txs)}")
            if name in self.KNOWN3:
                v, t = self._known_call(name, n)
                return self.eff(v, t) if self.KNOWN3[name]["partial"] else (v, t)
        if isinstance(f, ast.Attribute) and self._module(f.value) and f"{f.value.id}.{f.attr}{self._shape(n)}" in c.ext:
            return self.use(f"{f.value.id}.{f.attr}{self._shape(n)}", self._call_args(n))
        if isinstance(f, ast.Name) and f.id == "int" and f.id not in self.env and len(n.args) == 1 and not n.keywords:
            v, t = self.e(n.args[0])
            if t == BOOL:
                return f"(if {v} then (1 : Int) else (0 : Int))", INT
        return super().call(n)

    def _known_call(self, name, n):
        c = self.ctx
        k = self.KNOWN3[name]
        if n.keywords:
            raise TranslateError("keyword arguments")
        args = [self.e(a) for a in n.args]
        if [str(t) for _, t in args] != list(k["args"]):
            raise TranslateError(f"call of {name} with {[t for _, t in args]}, declared {k['args']}")
        if k.get("spec") is not None:
            # the callee must itself be translatable now (otherwise its definition is missing from the generated file)
            saved = (tr.T.KNOWN, t3.T3.KNOWN3)
            try:
                sp = k["spec"]
                translate_function(sp[0], sp[1], sp[2], sp[3], sp[4], **{kk: v for kk, v in sp[5].items() if kk != "translator"})
            except Exception as e:
                raise TranslateError(f"callee {name} is not translatable now ({e})")
            finally:
                tr.T.KNOWN, t3.T3.KNOWN3 = saved
        for x in k["ext"]:
            if not any(y.name == x[0] and y.lean_type() == x[1] for y in c.ext.values()):
                raise TranslateError(f"{name} needs the external {x[0]} : {x[1]}, which the caller does not declare")
        pre = " ".join(x[0] for x in k["ext"])
        clo = []
        for nm, t in k.get("closure", []):
            if str(self.env.get(nm)) != t:
                raise TranslateError(f"{name} closes over {nm} : {t}; here it is {self.env.get(nm)}")
            clo.append(nm)
        return "(" + " ".join(p for p in [k["lean"], pre] + clo + [a for a, _ in args] if p) + ")", k["ret"]

    # ------------------------------------------------------------------ hoisting
    def _hoist(self, node, items, cur):
        """returns (new node, translator with the hoisted names); appends (name, lean text, type) to items.
        `node` is evaluated exactly once when the statement runs."""
        if isinstance(node, ast.IfExp):
            test, cur = self._hoist(node.test, items, cur)
            return ast.IfExp(test=test, body=node.body, orelse=node.orelse), cur
        if isinstance(node, ast.BoolOp):
            first, cur = self._hoist(node.values[0], items, cur)
            return ast.BoolOp(op=node.op, values=[first] + node.values[1:]), cur
        if isinstance(node, (ast.ListComp, ast.GeneratorExp)):
            g0 = node.generators[0]
            it, cur = self._hoist(g0.iter, items, cur)
            g0 = ast.comprehension(target=g0.target, iter=it, ifs=g0.ifs, is_async=0)
            return type(node)(elt=node.elt, generators=[g0] + node.generators[1:]), cur
        if isinstance(node, ast.Lambda):
            return node, cur
        if isinstance(node, ast.Call):
            func = node.func
            if isinstance(func, ast.Attribute):
                v, cur = self._hoist(func.value, items, cur)
                func = ast.Attribute(value=v, attr=func.attr, ctx=ast.Load())
            elif not isinstance(func, ast.Name):
                func, cur = self._hoist(func, items, cur)
            args = []
            for a in node.args:
                if isinstance(a, ast.Starred):
                    v, cur = self._hoist(a.value, items, cur)
                    args.append(ast.Starred(value=v, ctx=ast.Load()))
                else:
                    v, cur = self._hoist(a, items, cur)
                    args.append(v)
            kws = []
            for k in node.keywords:
                v, cur = self._hoist(k.value, items, cur)
                kws.append(ast.keyword(arg=k.arg, value=v))
            new = ast.Call(func=func, args=args, keywords=kws)
            self.ctx.probing = True
            try:
                try:
                    text, t = cur.e(new)
                except TranslateError:
                    return new, cur   # reported when the statement is rendered
            finally:
                self.ctx.probing = False
            if isinstance(t, EffT):
                name = self.ctx.fresh()
                items.append((name, text, opt_elem(t)))
                return ast.Name(id=name, ctx=ast.Load()), cur.sub({name: opt_elem(t)})
            return new, cur
        if isinstance(node, ast.expr):
            fields = {}
            for fld, val in ast.iter_fields(node):
                if isinstance(val, ast.expr):
                    fields[fld], cur = self._hoist(val, items, cur)
                elif isinstance(val, list) and all(isinstance(x, ast.expr) for x in val) and val:
                    out = []
                    for x in val:
                        y, cur = self._hoist(x, items, cur)
                        out.append(y)
                    fields[fld] = out
                else:
                    fields[fld] = val
            new = type(node)(**fields)
            if isinstance(new, ast.Subscript) and isinstance(new.ctx, ast.Load) and not isinstance(new.slice, ast.Slice):
                self.ctx.probing = True
                try:
                    try:
                        text, t = cur.e(new)
                    except TranslateError:
                        return new, cur
                finally:
                    self.ctx.probing = False
                if isinstance(t, EffT):
                    name = self.ctx.fresh()
                    items.append((name, text, opt_elem(t)))
                    return ast.Name(id=name, ctx=ast.Load()), cur.sub({name: opt_elem(t)})
            return new, cur
        return node, cur

    def _hoist_stmt(self, s):
        items, cur = [], self
        if isinstance(s, ast.Return) and s.value is not None:
            v, cur = self._hoist(s.value, items, cur)
            new = ast.Return(value=v)
        elif isinstance(s, ast.Assign):
            v, cur = self._hoist(s.value, items, cur)
            new = ast.Assign(targets=s.targets, value=v)
        elif isinstance(s, ast.AugAssign):
            v, cur = self._hoist(s.value, items, cur)
            new = ast.AugAssign(target=s.target, op=s.op, value=v)
        elif isinstance(s, ast.Expr):
            v, cur = self._hoist(s.value, items, cur)
            new = ast.Expr(value=v)
        elif isinstance(s, ast.If):
            v, cur = self._hoist(s.test, items, cur)
            new = ast.If(test=v, body=s.body, orelse=s.orelse)
        elif isinstance(s, ast.For):
            v, cur = self._hoist(s.iter, items, cur)
            new = ast.For(target=s.target, iter=v, body=s.body, orelse=s.orelse)
        elif isinstance(s, ast.Assert):
            v, cur = self._hoist(s.test, items, cur)
            new = ast.Assert(test=v, msg=s.msg)
        else:
            return s, [], self
        return new, items, cur

    def _may_raise(self, nodes):
        c = self.ctx
        idents = c.partial_idents()
        opaque_callable = any(k.split("(")[0] in c.types for k, x in c.ext.items() if is_opt(x.ret))
        for root in nodes:
            for n in ast.walk(root):
                if isinstance(n, (ast.Raise, ast.Assert)):
                    return True
                if isinstance(n, ast.Subscript) and isinstance(n.ctx, ast.Load) and not isinstance(n.slice, ast.Slice):
                    try:
                        _, tv = self.e(n.value)
                        if is_list(tv) and elem(tv) not in tr.DEFAULTS:
                            return True
                    except TranslateError:
                        pass
                if isinstance(n, ast.Call):
                    f = n.func
                    nm = f.id if isinstance(f, ast.Name) else (f.attr if isinstance(f, ast.Attribute) else None)
                    if nm in idents or (nm in ("min", "max") and len(n.args) == 1) or nm == "reduce":
                        return True
                    if nm in self.KNOWN3 and self.KNOWN3[nm]["partial"]:
                        return True
                    if isinstance(f, ast.Name) and f.id in self.env:
                        parts = fn_parts(self.env[f.id])
                        if (parts and is_opt(parts[-1])) or (opaque_callable and c.opaque(self.env[f.id])):
                            return True
                    if isinstance(f, ast.Call):
                        return True if any(is_opt(x.ret) for x in c.ext.values()) else False
        return False

    # ------------------------------------------------------------------ statements
    def block(self, stmts, tail=None):
        c = self.ctx
        if not stmts:
            return super().block(stmts, tail)
        s, rest = stmts[0], stmts[1:]
        if isinstance(s, ast.Expr) and isinstance(s.value, ast.Constant) and isinstance(s.value.value, str):
            return self.block(rest, tail)
        # ---- x = [] : the declared type may be given by POSITION ("#k" = the k-th empty-literal assignment of the function in
        # source order), so that renaming the local keeps the translation
        if isinstance(s, ast.Assign) and len(s.targets) == 1 and isinstance(s.targets[0], ast.Name) and _empty_lit(s.value) \
                and s.targets[0].id not in self.local_types and f"#{getattr(s, '_t12_empty', 0)}" in self.local_types:
            self.local_types = {**self.local_types, s.targets[0].id: self.local_types[f"#{s._t12_empty}"]}
        # ---- a nested function that is translated on its own (spec option known[name] with its closure): skipped here; the
        # variables it closes over must not be re-assigned afterwards (a closure reads them at call time)
        if isinstance(s, ast.FunctionDef):
            k = self.KNOWN3.get(s.name)
            if k is None or "closure" not in k or tail is not None:
                raise TranslateError(f"nested function {s.name} (not declared)")
            for st in rest:
                for x in ast.walk(st):
                    if isinstance(x, ast.Name) and isinstance(x.ctx, ast.Store) and x.id in [nm for nm, _ in k["closure"]]:
                        raise TranslateError(f"{x.id} is re-assigned after the closure {s.name} was created")
            return self.sub({}).without(s.name).block(rest, tail)
        # ---- raise inside a loop body that is rendered with foldlOpt
        if isinstance(s, ast.Raise) and tail is not None and self.optfold and self.partial:
            return "none"
        # ---- return A if c else B / x = A if c else B where a branch may raise: the equivalent `if` statement
        if isinstance(s, (ast.Return, ast.Assign)) and isinstance(s.value, ast.IfExp) and self.partial \
                and self._may_raise([s.value.body, s.value.orelse]) and not _is_none_test(s.value.test):
            mk = (lambda v: ast.Return(value=v)) if isinstance(s, ast.Return) else (lambda v: ast.Assign(targets=s.targets, value=v))
            return self.block([ast.If(test=s.value.test, body=[mk(s.value.body)], orelse=[mk(s.value.orelse)])] + rest, tail)
        # ---- effects of the statement's own (unconditionally evaluated) expressions
        if not getattr(s, "_t12_done", False):
            new, items, cur = self._hoist_stmt(s)
            if items:
                if tail is not None and not self.optfold:
                    raise TranslateError("a call that may raise inside a loop body that is not rendered with foldlOpt")
                new._t12_done = True
                inner = cur.block([new] + rest, tail)
                for name, text, t in reversed(items):
                    inner = f"(match {text} with\n  | none => none\n  | some {name} =>\n  {inner})"
                return inner
        # ---- X[:, i] = e on an opaque matrix X: the external "μ[:,_]=ν" (the matrix with column i replaced; X is a local that
        # holds a freshly built object in every function translated here, so the in-place update is a rebinding)
        if isinstance(s, ast.Assign) and len(s.targets) == 1 and isinstance(s.targets[0], ast.Subscript) \
                and isinstance(s.targets[0].value, ast.Name) and isinstance(s.targets[0].slice, ast.Tuple) \
                and len(s.targets[0].slice.elts) == 2 and isinstance(s.targets[0].slice.elts[0], ast.Slice) \
                and s.targets[0].slice.elts[0].lower is None and s.targets[0].slice.elts[0].upper is None \
                and s.targets[0].slice.elts[0].step is None:
            name = s.targets[0].value.id
            t = self.env.get(name)
            if t is None or not c.opaque(t) or name in c.names:
                raise TranslateError("column assignment to a parameter / non-opaque object")
            i, ti = self.e(s.targets[0].slice.elts[1])
            v, tv = self.e(s.value)
            nv, nt = self.use(f"{t}[:,_]={tv}", [(name, t), (i, ti), (v, tv)])
            if nt != t:
                raise TranslateError("column assignment changes type")
            return f"let {name} : {t} := {nv}\n  {self.block(rest, tail)}"
        # ---- a, b = e1, e2
        if isinstance(s, ast.Assign) and len(s.targets) == 1 and isinstance(s.targets[0], ast.Tuple) \
                and isinstance(s.value, ast.Tuple) and len(s.value.elts) == len(s.targets[0].elts) \
                and all(isinstance(x, ast.Name) for x in s.targets[0].elts) \
                and not any(isinstance(x, ast.Starred) for x in s.value.elts):
            vals = [self.e(v) for v in s.value.elts]
            names = [x.id for x in s.targets[0].elts]
            tmp = [f"__t{k}_{nm}" for k, nm in enumerate(names)]
            text = "".join(f"let {tm} : {t} := {v}\n  " for tm, (v, t) in zip(tmp, vals))
            text += "".join(f"let {nm} : {t} := {tm}\n  " for nm, tm, (v, t) in zip(names, tmp, vals))
            for nm in names:
                self._drop_tail(nm)
            return text + self.sub({nm: str(t) for nm, (_, t) in zip(names, vals)}).block(rest, tail)
        # ---- if x: / if not x: on Option Int (narrowing), Int, list
        if isinstance(s, ast.If):
            test, neg = s.test, False
            if isinstance(test, ast.UnaryOp) and isinstance(test.op, ast.Not):
                test, neg = test.operand, True
            if isinstance(test, ast.Name) and self.env.get(test.id) == "Option Int":
                x = test.id
                tb, fb = (s.orelse or [], s.body) if neg else (s.body, s.orelse or [])
                a = self.sub({x: INT}).block(tb + ([] if tr._ends(tb) else rest), tail)
                b = self.block(fb + ([] if tr._ends(fb) else rest), tail)
                return (f"(match {x} with\n  | some __v =>\n  if (__v != 0) then\n  let {x} : Int := __v\n  {a}\n  else\n  {b}\n"
                        f"  | none =>\n  {b})")
            if not _is_none_test(s.test):
                try:
                    _, t0 = self.e(test)
                except TranslateError:
                    t0 = None
                if t0 == INT or (t0 is not None and is_list(t0) and not neg):
                    cnd, _ = self.truth(s.test)
                    a = self.block(s.body + ([] if tr._ends(s.body) else rest), tail)
                    b = self.block((s.orelse or []) + ([] if (s.orelse and tr._ends(s.orelse)) else rest), tail)
                    return f"if {cnd} then\n  {a}\n  else\n  {b}"
        # ---- x = f(…) with an empty-literal-free plain assignment whose type carries the effect marker: strip it
        if isinstance(s, ast.For) and not s.orelse:
            return self._for12(s, rest, tail)
        return super().block(stmts, tail)

    def _for3(self, s, rest, tail):
        return self._for12(s, rest, tail)

    def _for12(self, s, rest, tail):
        if not (self.partial and self._may_raise(s.body)):
            return super()._for3(s, rest, tail)
        if tail is not None and not self.optfold:
            raise TranslateError("a loop that may raise inside a loop that is not rendered with foldlOpt")
        if t3._is_enumerate(s.iter):
            raise TranslateError("enumerate in a loop that may raise")
        it, tit = self.e(s.iter)
        if tit == t3.PYSET:
            tit = "List Int"
        if not is_list(tit):
            raise TranslateError("for over non-list")
        te = elem(tit)
        assigned = _assigned12(s.body)
        state = [x for x in assigned if x in self.env]
        targets = t3._target_names(s.target)
        for x in targets:
            if x in state:
                raise TranslateError("loop variable reassigned")
        for x in state:
            self._drop_tail(x)
        tys = [self.env[x] for x in state]
        st_ty = " × ".join(f"({t})" for t in tys) if state else "Unit"

        def proj(k):
            if len(state) == 1:
                return "st"
            return "st" + ".2" * k + ("" if k == len(state) - 1 else ".1")

        def tup(env_t):
            for x, t in zip(state, tys):
                if env_t.env.get(x) != t:
                    raise TranslateError(f"loop changes the type of {x}")
            return "(some (" + ", ".join(state) + "))" if state else "(some ())"

        binds = "".join(f"let {x} : {t} := {proj(k)}\n    " for k, (x, t) in enumerate(zip(state, tys)))
        if isinstance(s.target, ast.Name):
            v = s.target.id if s.target.id != "_" else "_it"
            env = {} if s.target.id == "_" else {s.target.id: te}
        else:
            v = "__p"
            env, lets, _ = self._bind_target(s.target, te, v)
            binds += lets.replace("; ", "\n    ")
        inner = T12({**self.env, **env}, self.ret, self.partial, self.ctx, self.attrs, self.local_types, optfold=True)
        body = inner.block(s.body, tail=tup)
        after = "".join(f"let {x} : {t} := {proj(k)}\n  " for k, (x, t) in enumerate(zip(state, tys)))
        init = "(" + ", ".join(state) + ")" if state else "()"
        return (f"(match OQ.Py.foldlOpt (fun (st : {st_ty}) ({v} : {te}) =>\n    {binds}{body}) {init} {it} with\n"
                f"  | none => none\n  | some st =>\n  {after}{self.block(rest, tail)})")


def _assigned12(stmts):
    """names (re)assigned in a loop body (nested loops included), in order of first assignment; `raise` is allowed"""
    out = []

    def add(x):
        if x not in out:
            out.append(x)

    class V(ast.NodeVisitor):
        def generic_visit(self, n):
            if isinstance(n, (ast.Return, ast.Break, ast.Continue, ast.While)):
                raise TranslateError(f"{type(n).__name__} inside a loop body")
            if isinstance(n, ast.Assign):
                for t in n.targets:
                    if isinstance(t, ast.Tuple):
                        for x in t.elts:
                            add(tr._target_name(x))
                    else:
                        add(tr._target_name(t))
            elif isinstance(n, ast.AugAssign):
                add(tr._target_name(n.target))
            elif isinstance(n, ast.Call) and isinstance(n.func, ast.Attribute) and n.func.attr == "append" \
                    and isinstance(n.func.value, ast.Name):
                add(n.func.value.id)
            super().generic_visit(n)

    for s in stmts:
        V().visit(s)
    return out


# ---------------------------------------------------------------------- source-level modes
class _SelfFields(ast.NodeTransformer):
    """`self.a` -> the local `self__a` (constructor mode)"""

    def __init__(self, self_name):
        self.self_name, self.fields = self_name, []

    def visit_Attribute(self, n):
        if isinstance(n.value, ast.Name) and n.value.id == self.self_name:
            if isinstance(n.ctx, ast.Store) and n.attr not in self.fields:
                self.fields.append(n.attr)
            return ast.copy_location(ast.Name(id=f"self__{n.attr}", ctx=n.ctx), n)
        return self.generic_visit(n)


class _Yields(ast.NodeTransformer):
    """`yield e` (a statement) -> `__yield.append(e)`; nested function definitions are left alone"""

    def __init__(self):
        self.count = 0

    def visit_Expr(self, n):
        if isinstance(n.value, ast.Yield) and n.value.value is not None:
            self.count += 1
            return ast.copy_location(ast.Expr(value=ast.Call(
                func=ast.Attribute(value=ast.Name(id="__yield", ctx=ast.Load()), attr="append", ctx=ast.Load()),
                args=[n.value.value], keywords=[])), n)
        return n

    def visit_FunctionDef(self, n):
        return n


def _find_nested(node, path):
    cur = node
    for name in path:
        found = None
        for s in ast.walk(cur):
            if isinstance(s, ast.FunctionDef) and s.name == name and s is not cur:
                found = s
                break
        if found is None:
            raise TranslateError(f"nested function {name} not found")
        cur = found
    return cur


def _free_reads(fnode):
    """free variables of a (nested) function: names read in it or in functions nested in it that are neither parameters, nor
    assigned, nor nested function names of the scope they are read in (in order of first read)"""
    params = {a.arg for a in fnode.args.args}
    stores, reads, inner = set(), [], []

    def visit(n):
        for ch in ast.iter_child_nodes(n):
            if isinstance(ch, (ast.FunctionDef, ast.Lambda)):
                if isinstance(ch, ast.FunctionDef):
                    stores.add(ch.name)
                    inner.append(ch)
                continue
            if isinstance(ch, ast.Name):
                if isinstance(ch.ctx, ast.Store):
                    stores.add(ch.id)
                elif ch.id not in reads:
                    reads.append(ch.id)
            visit(ch)
    for st in fnode.body:
        visit(ast.Module(body=[st], type_ignores=[]))
    for g in inner:
        for r in _free_reads(g):
            if r not in reads:
                reads.append(r)
    return [r for r in reads if r not in params and r not in stores]


def translate_dispatch(fn, lean_name, arg_types, ret, partial, o):
    """a `functools.singledispatch` function over OPAQUE argument classes (mode "dispatch").  `o["dispatch"]` = [(class name,
    opaque type of the overload's first parameter, name of the downcast external, python name of the overload)] in the order the
    tests are rendered; the REGISTRY of the function object is read on every run: its classes must be exactly the declared ones
    (plus `object` = the undecorated base function), each must be registered to the declared overload, and the classes must be
    unrelated (no one a subclass of another), so that the order of the tests cannot matter for an object that is an instance of
    at most one of them (an instance of several makes singledispatch itself ambiguous; outside the rendering).
    Rendering: `match as_C1 x with | some x' => overload1 … x' rest | none => match as_C2 x with … | none => <base body>`; the
    downcasts `as_C : δ → Option τ` are parameters (what `isinstance` + the static type of the overload amount to)."""
    reg = getattr(fn, "registry", None)
    if reg is None:
        raise TranslateError("not a singledispatch function")
    decl = list(o["dispatch"])
    classes = {c.__name__: c for c in reg if c is not object}
    if sorted(classes) != sorted(d[0] for d in decl):
        raise TranslateError(f"registered classes {sorted(classes)}, declared {sorted(d[0] for d in decl)}")
    cl = list(classes.values())
    for a in cl:
        for b in cl:
            if a is not b and issubclass(a, b):
                raise TranslateError(f"{a.__name__} is a subclass of {b.__name__}: dispatch order matters")
    base = reg[object]
    src = textwrap.dedent(inspect.getsource(getattr(base, "__wrapped__", base)))
    node = ast.parse(src).body[0]
    names = [a.arg for a in node.args.args]
    if len(names) != len(arg_types) or node.args.vararg or node.args.kwarg or node.args.kwonlyargs:
        raise TranslateError("arity")
    ctx = Ctx12(base, lean_name, names, list(arg_types), ret, partial, o.get("types", []), o.get("ext", []), o.get("classes"))
    tr.T.KNOWN = {}
    t3.T3.KNOWN3 = dict(o.get("known") or {})
    tt = T12(dict(zip(names, arg_types)), ret, partial, ctx)
    text = tt.block(node.body)
    for cname, typ, cast, over in reversed(decl):
        f = reg[classes[cname]]
        if f.__name__ != over:
            raise TranslateError(f"{cname} is registered to {f.__name__}, declared {over}")
        k = t3.T3.KNOWN3.get(over)
        if k is None or k["args"][0] != typ or list(k["args"][1:]) != list(arg_types[1:]) or k["ret"] != ret:
            raise TranslateError(f"overload {over}: signature")
        call = ast.Call(func=ast.Name(id=over, ctx=ast.Load()),
                        args=[ast.Name(id="__x", ctx=ast.Load())] + [ast.Name(id=nm, ctx=ast.Load()) for nm in names[1:]], keywords=[])
        sub = tt.sub({"__x": typ})
        ctx.probing = True
        try:
            v, t = sub.e(call)
        finally:
            ctx.probing = False
        if not isinstance(t, EffT):
            v = f"(some {v})" if partial else v
        text = f"(match {cast} {names[0]} with\n  | some __x => {v}\n  | none =>\n  {text})"
    binders = "{" + " ".join(ctx.types) + " : Type} "
    binders += "".join(f"({x.name} : {x.lean_type()}) " for x in ctx.ext.values())
    binders += "".join(f"({cast} : {arg_types[0]} → Option {typ}) " for _, typ, cast, _ in decl)
    binders += " ".join(f"({n} : {t})" for n, t in zip(names, arg_types))
    where = f"{inspect.getsourcefile(base).split('/src/')[-1]}:{base.__qualname__} (singledispatch: {', '.join(d[0] for d in decl)})"
    rt = opt_of(ret) if partial else ret
    return f"/-- translated from `{where}` -/\ndef {lean_name} {binders} : {rt} :=\n  {text}\n"


def translate_function(fn, lean_name, arg_types, ret, partial=False, attrs=None, local_types=None, known=None, t12=None, **_more):
    """`t12` = dict(types, ext, classes, known  (as the "t3" option of translate_t3),  mode, path, closure)"""
    o = t12 or {}
    mode = o.get("mode")
    if mode == "dispatch":
        return translate_dispatch(fn, lean_name, arg_types, ret, partial, o)
    if mode == "property" and isinstance(fn, property):
        fn = fn.fget
    fn = getattr(fn, "__wrapped__", fn)
    src = textwrap.dedent(inspect.getsource(fn))
    node = ast.parse(src).body[0]
    if not isinstance(node, ast.FunctionDef):
        raise TranslateError("not a function")
    qual = fn.__qualname__
    closure = []
    if mode == "nested":
        node = _find_nested(node, o["path"])
        qual += "." + ".".join(o["path"])
        closure = list(o.get("closure", []))
    if node.args.vararg or node.args.kwarg or node.args.kwonlyargs or node.args.posonlyargs:
        raise TranslateError("parameter kinds")
    names = [a.arg for a in node.args.args]
    body = node.body
    local_types = dict(local_types or {})
    if mode == "ctor":
        if not names:
            raise TranslateError("constructor without self")
        tf = _SelfFields(names[0])
        body = [tf.visit(s) for s in body]
        if any(isinstance(n, ast.Name) and n.id == names[0] for s in body for n in ast.walk(s)):
            raise TranslateError("`self` used other than through its fields")
        if any(isinstance(n, ast.Return) for s in body for n in ast.walk(s)):
            raise TranslateError("return in a constructor")
        if not tf.fields:
            raise TranslateError("constructor assigns no field")
        fields = [ast.Name(id=f"self__{f}", ctx=ast.Load()) for f in tf.fields]
        body = body + [ast.Return(value=fields[0] if len(fields) == 1 else ast.Tuple(elts=fields, ctx=ast.Load()))]
        names = names[1:]
    if mode == "generator":
        y = _Yields()
        body = [y.visit(s) for s in body]
        if not y.count:
            raise TranslateError("not a generator function")
        if any(isinstance(n, (ast.Yield, ast.YieldFrom, ast.Return)) for s in body for n in ast.walk(s)):
            raise TranslateError("yield as an expression / yield from / return in a generator")
        body = [ast.Assign(targets=[ast.Name(id="__yield", ctx=ast.Store())], value=ast.List(elts=[], ctx=ast.Load()))] + body \
            + [ast.Return(value=ast.Name(id="__yield", ctx=ast.Load()))]
        local_types["__yield"] = ret
    if mode == "nested":
        free = _free_reads(node)
        glob = getattr(fn, "__globals__", {})
        import builtins
        need = [r for r in free if r not in glob and not hasattr(builtins, r)]
        declared = [c for c, _ in closure]
        if sorted(need) != sorted(declared):
            raise TranslateError(f"free variables {need}, declared closure {declared}")
    if len(names) != len(arg_types):
        raise TranslateError("arity")
    k_empty = 0
    for st in body:
        for x in ast.walk(st):
            if isinstance(x, ast.Assign) and _empty_lit(x.value):
                k_empty += 1
                x._t12_empty = k_empty
    ctx = Ctx12(fn, lean_name, names, list(arg_types), ret, partial, o.get("types", []), o.get("ext", []), o.get("classes"))
    tr.T.KNOWN = dict(known or {})
    t3.T3.KNOWN3 = dict(o.get("known") or {})
    env = dict(closure)
    env.update(zip(names, arg_types))
    text = T12(env, ret, partial, ctx, attrs, local_types).block(body)
    binders = ""
    if ctx.types:
        binders += "{" + " ".join(ctx.types) + " : Type} "
    binders += "".join(f"({x.name} : {x.lean_type()}) " for x in ctx.ext.values())
    binders += " ".join(f"({n} : {t})" for n, t in list(closure) + list(zip(names, arg_types)))
    where = f"{inspect.getsourcefile(fn).split('/src/')[-1]}:{qual}"
    rt = opt_of(ret) if partial else ret
    term = ""
    if ctx.recursive_on:
        term = f"termination_by structural {sorted(ctx.recursive_on)[0]}\n"
    return f"/-- translated from `{where}` -/\ndef {lean_name} {binders} : {rt} :=\n  {text}\n{term}"
