"""Shared plumbing of the verification harness (run with /venv/bin/python)."""
import fcntl
import hashlib
import json
import os
import re
import subprocess
import sys
import time
from fractions import Fraction

VERIF = os.path.dirname(os.path.dirname(os.path.abspath(__file__)))
LEAN = os.path.join(VERIF, "lean")
REPO = os.environ.get("OQ_REPO", "/repo")
REPO_SRC = os.path.join(REPO, "src")
DRIVER = os.path.join(LEAN, ".lake", "build", "bin", "oqdriver")
ALLOWED_AXIOMS = {"propext", "Classical.choice", "Quot.sound"}
FORBIDDEN = re.compile(
    r"\bsorry\b|\badmit\b|^axiom\s|native_decide|bv_decide|implemented_by|\bunsafe\s|maxHeartbeats 0",
    re.M,
)


def use_repo():
    """Import the library from /repo/src (the working tree under test), nothing else."""
    os.environ.setdefault("ORQUESTRA_QUANTUM_VERIF", "1")
    if REPO_SRC not in sys.path:
        sys.path.insert(0, REPO_SRC)
    import orquestra.quantum as oq  # noqa

    path = os.path.abspath(list(oq.__path__)[0])
    assert path.startswith(os.path.abspath(REPO_SRC)), f"library imported from {path}, not {REPO_SRC}"
    return oq


# ---------------------------------------------------------------- rationals
def rat(x):
    """JSON form of an exact rational: int or 'p/q' string."""
    f = Fraction(x)
    return int(f.numerator) if f.denominator == 1 else f"{f.numerator}/{f.denominator}"


def unrat(j):
    if isinstance(j, str):
        return Fraction(j)
    return Fraction(j)


def cyc_to_complex(j):
    """[a,b,c,d] (Q(zeta8)) -> python complex"""
    a, b, c, d = [float(unrat(x)) for x in j]
    r = 2 ** -0.5
    return complex(a + b * r - d * r, b * r + c + d * r)


def cyc_to_gauss(j):
    """[a,b,c,d] with b=d=0 -> (Fraction re, Fraction im)"""
    a, b, c, d = [unrat(x) for x in j]
    assert b == 0 and d == 0, "not a Gaussian rational"
    return a, c


def gauss(re, im=0):
    return [rat(re), rat(im)]


# ---------------------------------------------------------------- lean side
class BuildResult:
    def __init__(self, ok, log, broken=None):
        self.ok, self.log, self.broken = ok, log, broken or []


def _lock():
    os.makedirs(os.path.join(LEAN, ".lake"), exist_ok=True)
    f = open(os.path.join(LEAN, ".lake", "verif.lock"), "w")
    fcntl.flock(f, fcntl.LOCK_EX)
    return f


def lean_sources():
    out = []
    for root, _, files in os.walk(os.path.join(LEAN, "OQ")):
        for fn in files:
            if fn.endswith(".lean"):
                out.append(os.path.join(root, fn))
    out.append(os.path.join(LEAN, "Main.lean"))
    return sorted(out)


def sources_hash():
    h = hashlib.sha256()
    for p in lean_sources():
        h.update(p.encode())
        h.update(open(p, "rb").read())
    return h.hexdigest()


def strip_comments(src):
    src = re.sub(r"/-.*?-/", "", src, flags=re.S)
    src = re.sub(r"--.*", "", src)
    return src


def import_closure(module):
    """files of the OQ modules in the import closure of `module` (e.g. OQ.Props.C13)"""
    seen, todo = set(), [module]
    while todo:
        m = todo.pop()
        if m in seen or not m.startswith("OQ."):
            continue
        p = os.path.join(LEAN, *m.split(".")) + ".lean"
        if not os.path.exists(p):
            continue
        seen.add(m)
        for imp in re.findall(r"^import\s+(\S+)", open(p).read(), flags=re.M):
            todo.append(imp)
    return sorted(seen)


def prop_modules(prop):
    """OQ.Props.Cxx and any OQ.Props.Cxx_* companion modules"""
    d = os.path.join(LEAN, "OQ", "Props")
    mods = []
    for fn in sorted(os.listdir(d)):
        if fn == f"{prop}.lean" or (fn.startswith(f"{prop}_") and fn.endswith(".lean")):
            mods.append("OQ.Props." + fn[:-5])
    return mods


def theorem_names(prop):
    out = []
    for mod in prop_modules(prop):
        p = os.path.join(LEAN, *mod.split(".")) + ".lean"
        src = strip_comments(open(p).read())
        # namespaces are tracked line by line so that names are fully qualified
        stack = []
        for line in src.split("\n"):
            m = re.match(r"^namespace\s+(\S+)", line)
            if m:
                stack.append(m.group(1))
                continue
            m = re.match(r"^end\s+(\S+)", line)
            if m and stack and stack[-1] == m.group(1):
                stack.pop()
                continue
            m = re.match(r"^theorem\s+([\w'.]+)", line)
            if m:
                out.append(".".join(stack + [m.group(1)]))
    return out


def lake_build(targets, timeout=3000):
    lock = _lock()
    try:
        p = subprocess.run(["lake", "build"] + targets, cwd=LEAN, capture_output=True, text=True, timeout=timeout)
        return p.returncode == 0, p.stdout + p.stderr
    finally:
        lock.close()


def broken_theorems(prop, log):
    """map `error: OQ/…/X.lean:LINE` to the nearest preceding theorem/def name"""
    out = []
    for m in re.finditer(r"error: (OQ/\S+?\.lean):(\d+):\d+: (.*)", log):
        path, line, msg = m.group(1), int(m.group(2)), m.group(3)
        name = "?"
        try:
            lines = open(os.path.join(LEAN, path)).read().split("\n")
            for i in range(min(line, len(lines)) - 1, -1, -1):
                mm = re.match(r"\s*(?:private\s+)?(?:theorem|lemma|def|example|instance)\s+([\w'.]+)?", lines[i])
                if mm:
                    name = mm.group(1) or "example"
                    break
        except OSError:
            pass
        out.append({"file": path, "line": line, "decl": name, "message": msg[:300]})
    return out


def audit(prop, force=False, lock=True):
    """#print axioms for every theorem of Props/<prop>; forbidden-token grep over the import closure.
    Returns dict(theorems=[...], axioms={thm: [...]}, bad_axioms=[...], forbidden=[...])."""
    names = theorem_names(prop)
    cache_path = os.path.join(LEAN, ".lake", f"audit_{prop}.json")
    key = sources_hash()
    if not force and os.path.exists(cache_path):
        try:
            c = json.load(open(cache_path))
            if c.get("key") == key:
                c["cached"] = True
                return c
        except Exception:
            pass
    forbidden = []
    closure = sorted({m for pm in prop_modules(prop) for m in import_closure(pm)})
    for m in closure:
        p = os.path.join(LEAN, *m.split(".")) + ".lean"
        for hit in FORBIDDEN.finditer(strip_comments(open(p).read())):
            forbidden.append({"module": m, "token": hit.group(0).strip()})
    os.makedirs(os.path.join(LEAN, ".lake", "audit"), exist_ok=True)
    af = os.path.join(LEAN, ".lake", "audit", f"{prop}.lean")
    with open(af, "w") as f:
        for pm in prop_modules(prop):
            f.write(f"import {pm}\n")
        for n in names:
            f.write(f"#print axioms {n}\n")
    lk = _lock() if lock else None
    try:
        p = subprocess.run(["lake", "env", "lean", af], cwd=LEAN, capture_output=True, text=True, timeout=1800)
    finally:
        if lk is not None:
            lk.close()
    out = p.stdout + p.stderr
    axioms = {}
    for m in re.finditer(r"'([^']+)' depends on axioms: \[([^\]]*)\]", out, flags=re.S):
        axioms[m.group(1)] = [a.strip() for a in m.group(2).replace("\n", " ").split(",") if a.strip()]
    for m in re.finditer(r"'([^']+)' does not depend on any axioms", out):
        axioms[m.group(1)] = []
    bad = []
    for n in names:
        if n not in axioms:
            bad.append({"theorem": n, "problem": "no axiom report (did not elaborate)"})
        else:
            extra = [a for a in axioms[n] if a not in ALLOWED_AXIOMS]
            if extra:
                bad.append({"theorem": n, "problem": "axioms " + ",".join(extra)})
    res = {"key": key, "theorems": names, "axioms": axioms, "bad_axioms": bad, "forbidden": forbidden,
           "raw_ok": p.returncode == 0, "cached": False}
    if p.returncode == 0 and not bad:
        json.dump(res, open(cache_path, "w"))
    return res


def leanchecker(prop, timeout=1500):
    """returns (status, tail): status True = re-check passed, False = leanchecker REPORTED a problem,
    None = leanchecker could not complete (killed, out of memory, timed out: no verdict)"""
    mods = sorted({m for pm in prop_modules(prop) for m in import_closure(pm)})
    last = ""
    for _attempt in range(2):
        lock = _lock()
        try:
            p = subprocess.run(["lake", "env", "leanchecker"] + mods, cwd=LEAN, capture_output=True, text=True,
                               timeout=timeout)
        except subprocess.TimeoutExpired:
            last = "timed out"
            continue
        finally:
            lock.close()
        out = (p.stdout + p.stderr)
        if p.returncode == 0:
            return True, out[-2000:]
        if p.returncode > 0 and out.strip():
            return False, out[-2000:]
        last = f"exit status {p.returncode} without a diagnostic (killed / out of memory?)"
    return None, last


def write_driver_all():
    """lean/OQ/Driver/All.lean dispatches to every OQ/Driver/Cxx.lean present (regenerated, not hand-edited)."""
    d = os.path.join(LEAN, "OQ", "Driver")
    props = sorted(f[:-5] for f in os.listdir(d) if re.fullmatch(r"C\d\d\.lean", f))
    text = "-- generated by harness/common.py:write_driver_all — do not edit\n"
    text += "".join(f"import OQ.Driver.{p}\n" for p in props)
    text += "open Lean\nnamespace OQ.Driver\n\ndef dispatch (prop op : String) (j : Json) : Except String Json :=\n  match prop with\n"
    text += "".join(f'  | "{p}" => OQ.{p}.Driver.handle op j\n' for p in props)
    if os.path.exists(os.path.join(d, "Py.lean")):
        text = text.replace("open Lean\n", "import OQ.Driver.Py\nopen Lean\n", 1)
        text += '  | "PY" => OQ.PY.Driver.handle op j\n'
    if os.path.exists(os.path.join(LEAN, "OQ", "Generated", "TranslatedDriver.lean")):
        text = text.replace("open Lean\n", "import OQ.Generated.TranslatedDriver\nopen Lean\n", 1)
        text += '  | "TR" => OQ.TR.Driver.handle op j\n'
    # --- T3: further generated glue files OQ/Generated/TranslatedDriver<TAG>.lean (namespace OQ.TR<TAG>.Driver) are
    # dispatched under the property tag "TR<TAG>"
    for fn in sorted(os.listdir(os.path.join(LEAN, "OQ", "Generated"))):
        m = re.fullmatch(r"TranslatedDriver(\w+)\.lean", fn)
        if m:
            text = text.replace("open Lean\n", f"import OQ.Generated.TranslatedDriver{m.group(1)}\nopen Lean\n", 1)
            text += f'  | "TR{m.group(1)}" => OQ.TR{m.group(1)}.Driver.handle op j\n'
    # --- T3 end
    # --- T5: glue of the translated runner CLASSES (harness/tables_runners.py writes OQ/Generated/TranslatedRunnersDriver.lean)
    if os.path.exists(os.path.join(LEAN, "OQ", "Generated", "TranslatedRunnersDriver.lean")):
        text = text.replace("open Lean\n", "import OQ.Generated.TranslatedRunnersDriver\nopen Lean\n", 1)
        text += '  | "TRR" => OQ.TRR.Driver.handle op j\n'
    # --- T5 end
    # --- T1: glue of the gate-CLASS translator (harness/tables_gates.py), dispatched as "TG"
    if os.path.exists(os.path.join(LEAN, "OQ", "Generated", "TranslatedGatesDriver.lean")):
        text = text.replace("open Lean\n", "import OQ.Generated.TranslatedGatesDriver\nopen Lean\n", 1)
        text += '  | "TG" => OQ.TG.Driver.handle op j\n'
    # --- T1 end
    text += '  | _ => .error s!"unknown property {prop}"\n\nend OQ.Driver\n'
    path = os.path.join(d, "All.lean")
    if not os.path.exists(path) or open(path).read() != text:
        open(path, "w").write(text)
    return props


class Driver:
    """Batch interface to the compiled model driver."""

    def __init__(self, prop):
        self.prop = prop

    def available(self):
        return os.path.exists(DRIVER)

    def run(self, requests, timeout=1200):
        """requests: list of (op, payload) -> list of parsed JSON responses"""
        if not requests:
            return []
        text = "".join(f"{self.prop} {op} {json.dumps(payload, separators=(',', ':'))}\n" for op, payload in requests)
        p = subprocess.run([DRIVER], input=text, capture_output=True, text=True, timeout=timeout)
        lines = [ln for ln in p.stdout.split("\n") if ln.strip()]
        if len(lines) != len(requests):
            raise RuntimeError(f"driver answered {len(lines)} of {len(requests)} requests; stderr={p.stderr[-500:]}")
        return [json.loads(ln) for ln in lines]


# ---------------------------------------------------------------- known findings
def load_known():
    known, fixed = [], []
    p = os.path.join(VERIF, "KNOWN_FINDINGS.txt")
    if os.path.exists(p):
        for ln in open(p):
            ln = ln.strip()
            m = re.match(r"known:\s+property=(\S+)\s+sig=(\S+)\s+(.*)", ln)
            if m:
                known.append({"property": m.group(1), "sig": m.group(2), "what": m.group(3)})
            m = re.match(r"fixed:\s+property=(\S+)\s+(\S+)\s+(.*)", ln)
            if m:
                fixed.append({"property": m.group(1), "commit": m.group(2), "what": m.group(3)})
    return known, fixed


def canon(obj):
    return json.dumps(obj, sort_keys=True, separators=(",", ":"), default=str)
