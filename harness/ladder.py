"""The type ladder of a number (shared by the checks of C03 and C09).

The properties quantify over coefficients -- complex numbers -- not over the Python class that carries one: the same value spelled
as numpy.complex64 / clongdouble / float32 / float16 / longdouble / int8..int64 / uint8 / uint16 / bool_, as a Python bool, a
fractions.Fraction or a sympy number (Integer, Rational, Float, a + b*I) denotes the same operator.  A tag is only honoured where
the type carries the value EXACTLY (`ladder_value` returns None otherwise and the caller falls back to a Python number), so the
exact models still answer every case."""
from fractions import Fraction

LADDER_CPLX = ("c64", "clg")                                  # complex-valued and NOT subclasses of `complex`
LADDER_REAL = ("f32", "f16", "flg")
LADDER_INT = ("i8", "i16", "i32", "i64", "u8", "u16", "nb", "pb")
LADDER_OBJ = ("fr", "si", "sr", "sf", "sI")                   # exact-object numbers
LADDER_ALL = LADDER_CPLX + LADDER_REAL + LADDER_INT + LADDER_OBJ
# narrow types: the library adds like terms / matrix entries in the arithmetic of the type it is given (numpy keeps float32 /
# complex64 / float16 / int8 under Python-scalar factors), so only values whose small sums stay exact there are spelled that way:
# multiples of 1/8 of modulus <= the bound
NARROW = {"c64": 16, "f32": 16, "f16": 4, "i8": 16, "u8": 16}
NP_NAMES = {"c64": "complex64", "clg": "clongdouble", "f32": "float32", "f16": "float16", "flg": "longdouble", "i8": "int8",
            "i16": "int16", "i32": "int32", "i64": "int64", "u8": "uint8", "u16": "uint16", "nb": "bool_", "pb": "bool_"}
INT_RANGE = {"i8": (-128, 127), "i16": (-2 ** 15, 2 ** 15 - 1), "i32": (-2 ** 31, 2 ** 31 - 1), "i64": (-2 ** 62, 2 ** 62), "u8": (0, 255),
             "u16": (0, 65535), "nb": (0, 1), "pb": (0, 1), "si": (-2 ** 62, 2 ** 62)}


def ladder_value(tag, re, im=0):
    """the number re + im*i (Fractions) carried by the type `tag`, or None where that type cannot carry it exactly"""
    re, im = Fraction(re), Fraction(im)
    fre, fim = float(re), float(im)
    if Fraction(fre) != re or Fraction(fim) != im:
        return None                                             # not a pair of doubles: the ladder is for exact values only
    if tag in NARROW:
        bound = NARROW[tag]
        if (8 * re).denominator != 1 or (8 * im).denominator != 1 or abs(re) > bound or abs(im) > bound:
            return None
    if tag in INT_RANGE:
        lo, hi = INT_RANGE[tag]
        if im != 0 or re.denominator != 1 or not lo <= re <= hi:
            return None
        if tag == "pb":
            return bool(re)
        if tag == "si":
            import sympy
            return sympy.Integer(int(re))
        import numpy as np
        return getattr(np, NP_NAMES[tag])(int(re))
    if tag in LADDER_CPLX:
        import numpy as np
        with np.errstate(all="ignore"):
            v = getattr(np, NP_NAMES[tag])(complex(fre, fim))
        return v if complex(v) == complex(fre, fim) else None
    if tag in LADDER_REAL:
        if im != 0:
            return None
        import numpy as np
        with np.errstate(all="ignore"):
            v = getattr(np, NP_NAMES[tag])(fre)
        return v if float(v) == fre else None
    if tag == "fr":
        return Fraction(re) if im == 0 else None
    if tag in ("sr", "sf", "sI"):
        import sympy
        if tag == "sr":
            return sympy.Rational(re.numerator, re.denominator) if im == 0 else None
        if tag == "sf":
            return sympy.Float(fre) if im == 0 else None
        if im == 0:
            return None
        return sympy.Rational(re.numerator, re.denominator) + sympy.I * sympy.Rational(im.numerator, im.denominator)
    return None


def ladder_pick(rng, c, allowed):
    """a tag of `allowed` that carries the coefficient c = [re, im] (rationals as written by harness.common.rat) exactly"""
    from .common import unrat
    re, im = unrat(c[0]), unrat(c[1])
    fits = [t for t in allowed if ladder_value(t, re, im) is not None]
    return rng.choice(fits) if fits else None


def tclass(x):
    """how an object of the implementation spells a number: 'py' (an int / float / complex instance -- numpy.float64 and
    complex128 are), 'np:<dtype>', 'fraction', 'sympy', else the class name"""
    if isinstance(x, (int, float, complex)):
        return "py"
    import numpy as np
    if isinstance(x, np.generic):
        return "np:" + x.dtype.name
    if isinstance(x, Fraction):
        return "fraction"
    if type(x).__module__.startswith("sympy"):
        return "sympy"
    return type(x).__name__


def typed_array(a, tag):
    """the complex array `a` as an array of the ladder dtype `tag`, or None where that dtype cannot carry it exactly"""
    import warnings
    import numpy as np
    a = np.asarray(a, dtype=complex)
    if tag == "fr":
        if np.any(a.imag != 0):
            return None
        return np.array([Fraction(float(x)) for x in a.real.flatten()], dtype=object).reshape(a.shape)
    if tag not in NP_NAMES:
        return None
    dt = getattr(np, NP_NAMES[tag])
    if tag not in LADDER_CPLX and np.any(a.imag != 0):
        return None
    with np.errstate(all="ignore"), warnings.catch_warnings():
        warnings.simplefilter("ignore")
        b = (a if tag in LADDER_CPLX else a.real).astype(dt)
        back = b.astype(complex)
    return b if np.array_equal(back, a) else None
