"""Translator extension T7 (on top of harness/translate.py): the CLASSES `PauliTerm` / `PauliSum` of operators/_pauli_operators.py
(property C03) – objects as VALUES, operator DISPATCH, dictionaries keyed by frozensets, recursion on an int with fuel.

`TV` subclasses `translate.T` (int / bool / list expression forms are inherited).  Added here:

  objects     : a `PauliTerm` is the record of the attributes its `__init__` assigns (`structure PTerm R`: `_ops : Dict Nat Letter`,
                `coefficient : R`; read from the source), a `PauliSum` is its single attribute `terms : List (PTerm R)`.  The classes are
                mutable only through `coefficient` and no translated method assigns it: objects are treated as values.
                `PauliTerm(d, c)` / `PauliSum(ts)` call the translated `__init__` (which may raise); `PauliTerm("I0", c)` with a str
                LITERAL is constant-folded: the current `_parse_operators_and_coefficient` is RUN on the literal at generation time and
                the rest of `__init__` is translated with its result as a literal.
  letters     : a Python str over ALLOWED_OPERATORS is `Letter := Option P` (`none` = "I"); `ord`, `a + b` (→ two-letter string) and the
                module constants OPERATOR_MAP / COEFF_MAP / ALLOWED_OPERATORS (VALUES read at generation time) are rendered as literal
                tables; a Gaussian-integer complex constant `a+bj` is `cplx k a b = a + k.i * b`.
  numbers     : the coefficient type `R` is a type parameter with `0 1 + * -` only.  FLOAT ROUNDING IS NOT MODELLED.  Float / int literals
                meeting a number must be 0, 1 or -1.  `complex(x)` of a number is `x`.
  externals   : record `Ext R`: `np.isclose` (`isclose`), `np.allclose` (`allclose`), true division of numbers (`truediv`, `none` =
                ZeroDivisionError), Python's `a == b` / `a != b` on two numbers (`num_eq`; an int literal 0 / 1 / -1 is the ring's
                constant; `isinstance(v, Number)` on a value of the number kind is decided statically: True), the iteration order of a `set` of ints (`set_iter`: list of the distinct elements in insertion order
                → the order CPython yields them in).  `max` of a set does not depend on the order and is rendered on the elements.
  dispatch    : every method is rendered once per KIND of its polymorphic argument (num / term / sum, or `val` = the union `PVal R`),
                on demand from the call sites: `isinstance` tests on an argument of a known kind are decided statically (dead
                branches are not rendered), on a `val` they become a `match` that rebinds the name at the narrower kind.
                `a * b`, `a + b`, `a - b`, `a / b`, `a ** b`, `a == b` on objects follow Python's protocol: `type(a).__op__(a, b)` when
                `a` is an object, else the reflected method of `b`.  A cycle between variants is refused (TranslateError).
  results     : a variant that can raise returns `Except OQ.Py.Exc4 τ` (ValueError / TypeError / KeyError / IndexError /
                ZeroDivisionError; fuel exhaustion is `runtime` = RecursionError ⊂ RuntimeError); raising sub-expressions are hoisted in
                Python's evaluation order into `Except.bind`; variants that cannot raise are plain functions.
  dicts       : `OQ.Py.Dict`: `d[k] = v`, `del d[k]`, `d[k]`, `k in d`, `d.get(k, dflt)`, `d.copy()`, `.keys() .values() .items()`,
                `d == {}`, `OrderedDict()` (type declared per method), `d[k].append(v)`; a dict keyed by `frozenset(d.items())` values
                compares keys by `OQ.Py.frozenItemsEq` (`dictHasBy` / `dictGetByE` / `dictSetBy`).
  further     : `for` loops (also with raising bodies: `OQ.Py.foldlE`) over lists, dict values and generators of translated `__iter__`
                methods (a generator function `for i in it: yield e` is the list of what it yields), `itertools.chain`, `product`,
                `chain.from_iterable`, `sum(generator)` of numbers (starts from 0), `all([...])`, `set(...)`, `frozenset(...)`,
                `cast(T, e)` = `e`, `assert isinstance(...)` decided statically, `warnings.warn` skipped, `x is None` narrowing on `Option`,
                conditional expressions at the top of a `return` lowered to `if`, `type(x).identity()` resolved by the kind of `x`,
                recursion of a module function on an `int` argument with FUEL (declared; exhaustion = RecursionError).
Anything else raises TranslateError: the definition (and every variant that calls it) is then missing.
"""
import ast
import inspect
import textwrap

from . import translate as tr
from .translate import T, TranslateError, INT, BOOL, is_list, elem, list_of, paren

NUM, NAT = "R", "Nat"
LETTER = "Letter"
LSTRING = "List Letter"
OPSD = "OQ.Py.Dict Nat Letter"
TERM = "PTerm R"
SUM = "PSum R"
LTERMS = "List (PTerm R)"
VAL = "PVal R"
OPTNUM = "Option R"
SETNAT = "OQ.Py.PySet Nat"
SETLETTER = "OQ.Py.PySet Letter"
FITEMS = "OQ.Py.FrozenItems Nat Letter"
UNIT = "Unit"
INTLIT = "«intlit»"
KIND = {NUM: "num", TERM: "term", SUM: "sum", VAL: "val"}
EXC = {"RuntimeError": "runtime", "ValueError": "value", "IndexError": "index", "KeyError": "key", "TypeError": "type",
       "ZeroDivisionError": "zeroDiv"}
LET = {"X": "some P.X", "Y": "some P.Y", "Z": "some P.Z", "I": "none"}
CLS_OF = {TERM: "PauliTerm", SUM: "PauliSum"}
TY_OF = {"PauliTerm": TERM, "PauliSum": SUM}
TAG = {"PauliTerm": "term", "PauliSum": "sum"}
NUMCLS = {"int", "float", "complex"}
NUMABC = "Number"   # numbers.Number: every int / float / complex is an instance (the number kind is exactly int / float / complex here)
BINOPS = {ast.Mult: "mul", ast.Add: "add", ast.Sub: "sub", ast.Div: "truediv", ast.Pow: "pow"}
# declared types of the empty containers a method creates (in source order) and of non-polymorphic parameters
EMPTIES = {("PauliSum", "simplify"): [f"OQ.Py.Dict ({FITEMS}) ({LTERMS})", LTERMS], ("PauliSum", "__init__"): [LTERMS]}
PARAMS = {("PauliTerm", "__init__"): {"operator": OPSD, "coefficient": OPTNUM},
          ("PauliTerm", "copy"): {"new_coefficient": OPTNUM},
          ("PauliTerm", "__getitem__"): {"i": NAT},
          ("PauliTerm", "_multiply_by_operator"): {"op": LETTER, "index": NAT},
          ("PauliTerm", "__pow__"): {"power": INT}, ("PauliSum", "__pow__"): {"power": INT},
          ("PauliSum", "__init__"): {"terms": LTERMS},
          (None, "_efficient_exponentiation"): {"power": INT}}
FUEL = {(None, "_efficient_exponentiation"): ("power", "(Int.toNat power + 1)")}
ATTRS = {"PauliTerm": {"_ops": OPSD, "coefficient": NUM}, "PauliSum": {"terms": LTERMS}}
PRE = "k x"


def DICT(k, v):
    return f"OQ.Py.Dict {paren(k)} {paren(v)}"


def is_dict(t):
    return t.startswith("OQ.Py.Dict ")


def dict_kv(t):
    from .translate_t4 import dict_kv as f
    return f(t)


def ok(v):
    return f"(Except.ok {v})"


def err(c):
    return f"(Except.error OQ.Py.Exc4.{c})"


def _name(n, ident=None):
    return isinstance(n, ast.Name) and (ident is None or n.id == ident)


def _dotted(n):
    parts = []
    while isinstance(n, ast.Attribute):
        parts.append(n.attr)
        n = n.value
    if isinstance(n, ast.Name):
        parts.append(n.id)
        return ".".join(reversed(parts))
    return None


class NeedPartial(Exception):
    pass


class Gen:
    """the whole module: variants are generated on demand (depth first, so the text is in dependency order)"""

    def __init__(self, module):
        self.mod = module
        self.done = {}     # key -> info
        self.order = []    # lean texts in dependency order
        self.stack = []
        self.failed = {}
        self.tree = ast.parse(inspect.getsource(module))
        self.classes = {c.name: c for c in self.tree.body if isinstance(c, ast.ClassDef)}
        self.funcs = {f.name: f for f in self.tree.body if isinstance(f, ast.FunctionDef)}
        for cls, want in ATTRS.items():
            got = self.init_attrs(cls)
            if got != list(want):
                raise TranslateError(f"{cls}.__init__ assigns the attributes {got}, declared {list(want)}")

    def init_attrs(self, cls):
        out = []
        for x in ast.walk(self.method_node(cls, "__init__")):
            tg = x.targets[0] if isinstance(x, ast.Assign) else (x.target if isinstance(x, ast.AnnAssign) else None)
            if isinstance(tg, ast.Attribute) and _name(tg.value, "self") and tg.attr not in out:
                out.append(tg.attr)
        return out

    def method_node(self, cls, meth):
        if cls is None:
            if meth not in self.funcs:
                raise TranslateError(f"the module no longer defines {meth}")
            return self.funcs[meth]
        if cls not in self.classes:
            raise TranslateError(f"the module no longer defines {cls}")
        for f in self.classes[cls].body:
            if isinstance(f, ast.FunctionDef) and f.name == meth:
                return f
        raise TranslateError(f"{cls} no longer defines {meth}")

    def has_method(self, cls, meth):
        return cls in self.classes and any(isinstance(f, ast.FunctionDef) and f.name == meth for f in self.classes[cls].body)

    def is_property(self, cls, meth):
        return any(_name(d, "property") for d in self.method_node(cls, meth).decorator_list)

    def is_static(self, cls, meth):
        return any(_name(d, "staticmethod") for d in self.method_node(cls, meth).decorator_list)

    def lean_name(self, cls, meth, argtypes, lit=None):
        base = meth.strip("_")
        name = (TAG[cls] + "_" if cls else "") + base
        node = self.method_node(cls, meth)
        declared = PARAMS.get((cls, meth), {})
        params = [a.arg for a in node.args.args if a.arg != "self"]
        for p, t in zip(params, argtypes):
            if p not in declared:
                if t not in KIND:
                    raise TranslateError(f"{cls}.{meth}: parameter {p} of type {t} is neither declared nor a kind")
                name += "_" + KIND[t]
        if lit is not None:
            name += "_lit_" + "".join(c for c in lit if c.isalnum())
        return name

    def variant(self, cls, meth, argtypes, lit=None):
        """info of the variant of cls.meth for the given argument types (generated now if needed)"""
        key = (cls, meth, tuple(argtypes), lit)
        if key in self.done:
            return self.done[key]
        if key in self.failed:
            raise TranslateError(self.failed[key])
        if key in self.stack:
            raise TranslateError(f"cycle between variants through {cls}.{meth}{tuple(argtypes)}")
        self.stack.append(key)
        try:
            info = self._make(cls, meth, list(argtypes), lit)
        except TranslateError as e:
            self.failed[key] = f"{cls}.{meth}: {e}" if not str(e).startswith(f"{cls}.{meth}") else str(e)
            raise TranslateError(self.failed[key])
        finally:
            self.stack.pop()
        self.done[key] = info
        self.order.append(info["text"])
        return info

    def _make(self, cls, meth, argtypes, lit):
        node = self.method_node(cls, meth)
        if node.args.vararg or node.args.kwarg or node.args.kwonlyargs:
            raise TranslateError("*args / **kwargs")
        names = [a.arg for a in node.args.args]
        static = cls is None or self.is_static(cls, meth)
        pnames = names if static else names[1:]
        if meth == "__init__":
            static = True    # the constructor: no receiver state
        if len(pnames) != len(argtypes):
            raise TranslateError(f"arity: {pnames} vs {argtypes}")
        declared = PARAMS.get((cls, meth), {})
        for p, t in zip(pnames, argtypes):
            if p in declared and declared[p] != t and not (lit is not None and p == "operator"):
                raise TranslateError(f"parameter {p}: {t}, declared {declared[p]}")
        lean = self.lean_name(cls, meth, argtypes, lit)
        env = {} if static else {"self": TY_OF[cls]}
        env.update(dict(zip(pnames, argtypes)))
        fuel = FUEL.get((cls, meth))
        gen_yield = any(isinstance(x, ast.Yield) for x in ast.walk(node))
        res = None
        for partial in (False, True):
            rets = [None]
            for _ in range(2):
                tv = TV(self, cls, meth, env, rets[0], partial, lean if fuel else None, lit)
                try:
                    if gen_yield:
                        body, rt = tv.generator(node)
                        tv.rets = [rt]
                    elif meth == "__init__":
                        body = tv.block(list(node.body), tail=lambda t: t.init_result())
                        tv.rets = [TY_OF[cls]]
                    else:
                        body = tv.block(list(node.body))
                except NeedPartial:
                    body = None
                    break
                seen = []
                for r in tv.rets:
                    if r not in seen:
                        seen.append(r)
                if not seen:
                    seen = [UNIT]
                if len(seen) == 1 or rets[0] is not None:
                    res = (body, rets[0] or seen[0], partial)
                    break
                if set(seen) <= {NUM, TERM, SUM, VAL}:
                    rets[0] = VAL
                    continue
                raise TranslateError(f"return types {seen}")
            if res:
                break
        if res is None:
            raise TranslateError("could not be rendered")
        body, ret, partial = res
        if lit is not None:
            binders = [(p, t) for p, t in zip(pnames, argtypes) if p != "operator"]
        else:
            binders = list(zip(pnames, argtypes))
        if not static:
            binders = [("self", TY_OF[cls])] + binders
        btxt = " ".join(f"({n} : {t})" for n, t in binders)
        where = f"operators/_pauli_operators.py:{(cls + '.') if cls else ''}{meth}"
        kinds = ", ".join(f"{p} : {t}" for p, t in zip(pnames, argtypes))
        rt = f"Except OQ.Py.Exc4 ({ret})" if partial else ret
        doc = f"/-- translated from `{where}`" + (f" for {kinds}" if kinds else "") + \
            (f", the str literal {lit!r} constant-folded" if lit is not None else "") + " -/\n"
        if fuel:
            # recursion on an int: explicit fuel, exhaustion = RecursionError (a RuntimeError)
            if not partial:
                raise TranslateError("a recursive function must be able to raise (fuel)")
            text = (f"{doc}def {lean}_fuel (k : OQ.Scal R) (x : Ext R) : Nat → {' → '.join(t for _, t in binders)} → {rt}\n"
                    f"  | 0, {', '.join('_' for _ in binders)} => {err('runtime')}\n"
                    f"  | __fuel + 1, {', '.join(n for n, _ in binders)} =>\n  {body}\n\n"
                    f"/-- `{meth}` with the fuel `{fuel[1]}` (sufficient: proved in the tie theorems) -/\n"
                    f"def {lean} (k : OQ.Scal R) (x : Ext R) {btxt} : {rt} :=\n  {lean}_fuel k x {fuel[1]} {' '.join(n for n, _ in binders)}\n")
        else:
            text = f"{doc}def {lean} (k : OQ.Scal R) (x : Ext R) {btxt} : {rt} :=\n  {body}\n"
        return {"lean": lean, "args": [t for _, t in binders], "names": [n for n, _ in binders], "ret": ret, "partial": partial,
                "text": text, "cls": cls, "meth": meth, "lit": lit}


class TV(T):
    def __init__(self, gen, cls, meth, env, ret, partial, rec_name, lit, shared=None):
        super().__init__(env, ret, partial, None, None)
        self.gen, self.cls, self.meth, self.rec_name, self.slit = gen, cls, meth, rec_name, lit
        self.sh = shared if shared is not None else {"n": 0, "rets": [], "pending": [[]], "empties": None}
        self.rets = self.sh["rets"]

    def sub(self, extra):
        return TV(self.gen, self.cls, self.meth, {**self.env, **extra}, self.ret, self.partial, self.rec_name, self.slit, self.sh)

    def fresh(self):
        self.sh["n"] += 1
        return f"__t{self.sh['n']}"

    # ------------------------------------------------------------------ effects
    def effect(self, text, t):
        """bind the raising computation `text : Except Exc4 t` to a fresh name, in evaluation order"""
        if not self.partial:
            raise NeedPartial()
        tmp = self.fresh()
        self.sh["pending"][-1].append((tmp, text, t))
        return tmp, t

    def scoped(self, f):
        """run f with its own list of pending binds; returns (result, binds)"""
        self.sh["pending"].append([])
        try:
            r = f()
        finally:
            b = self.sh["pending"].pop()
        return r, b

    @staticmethod
    def wrap_binds(binds, text):
        if binds and text == ok(binds[-1][0]):
            text, binds = binds[-1][1], binds[:-1]    # `bind m pure` is `m`
        for tmp, txt, ty in reversed(binds):
            text = f"Except.bind {txt} (fun ({tmp} : {ty}) =>\n  {text})"
        return text

    def pure_only(self, n, what):
        r, b = self.scoped(lambda: self.e(n))
        if b:
            raise TranslateError(f"{what} that may raise (not in a position where it can be hoisted)")
        return r

    # ------------------------------------------------------------------ coercions
    def lit(self, v, t):
        """an int / float literal meeting a value of type t"""
        if t == NUM:
            if v in (0, 1):
                return f"({int(v)} : R)"
            if v == -1:
                return "(-1 : R)"
            raise TranslateError(f"the numeric literal {v!r} meets a coefficient (only 0, 1, -1 are rendered)")
        if float(v) != int(v):
            raise TranslateError(f"non-integral literal {v!r}")
        if t == NAT:
            if v < 0:
                raise TranslateError("negative literal meets a Nat")
            return f"({int(v)} : Nat)"
        if t in (INT, INTLIT):
            return f"({int(v)} : Int)"
        raise TranslateError(f"literal {v!r} meets {t}")

    def coerce(self, v, tv, want):
        if tv == want:
            return v
        if tv == INTLIT and want != OPTNUM:
            return self.lit(v, want)
        if want == OPTNUM and tv == NUM:
            return f"(some {v})"
        if want == OPTNUM and tv == INTLIT:
            return f"(some {self.lit(v, NUM)})"
        if want == OPTNUM and tv == "«none»":
            return "(none : Option R)"
        if want == VAL and tv in (NUM, TERM, SUM):
            return f"(PVal.{KIND[tv]} {v})"
        if want == LSTRING and tv == LETTER:
            return f"[{v}]"
        raise TranslateError(f"a value of type {tv} where {want} is expected")

    def unlit(self, v, t):
        return (self.lit(v, INT), INT) if t == INTLIT else (v, t)

    # ------------------------------------------------------------------ expressions
    def e(self, n):
        if isinstance(n, ast.Constant):
            if isinstance(n.value, bool):
                return ("true" if n.value else "false"), BOOL
            if isinstance(n.value, (int, float)):
                return n.value, INTLIT
            if isinstance(n.value, complex):
                raise TranslateError("complex literal")
            if n.value is None:
                return None, "«none»"
            if isinstance(n.value, str):
                if n.value in LET and n.value in self.gen.mod.ALLOWED_OPERATORS:
                    return f"({LET[n.value]} : Letter)", LETTER
                raise TranslateError(f"str constant {n.value!r}")
        if isinstance(n, ast.Name):
            if n.id in self.env:
                return n.id, self.env[n.id]
            return self.module_constant(n.id)
        if isinstance(n, ast.UnaryOp):
            if isinstance(n.op, ast.USub):
                v, t = self.e(n.operand)
                if t == INTLIT:
                    return -v, INTLIT
                if t == NUM:
                    return f"(-{v})", NUM
                if t == INT:
                    return f"(-{v})", INT
                raise TranslateError("unary minus")
            if isinstance(n.op, ast.Not):
                v, t = self.e(n.operand)
                if t != BOOL:
                    raise TranslateError("not on a non-bool")
                return f"(!{v})", BOOL
        if isinstance(n, ast.BoolOp):
            parts = [self.e(n.values[0])] + [self.pure_only(v, "a later operand of and/or") for v in n.values[1:]]
            if any(t != BOOL for _, t in parts):
                raise TranslateError("and/or on non-bool operands")
            j = " && " if isinstance(n.op, ast.And) else " || "
            return "(" + j.join(p for p, _ in parts) + ")", BOOL
        if isinstance(n, ast.IfExp):
            st = self.static_test(n.test)
            if st is not None:
                return self.e(n.body if st == "true" else n.orelse)
            nar = self.narrow_test(n.test)
            if nar:
                x_, pat, tpos, pos_first = nar
                pos, neg = (n.body, n.orelse) if pos_first else (n.orelse, n.body)
                a, ta = self.sub({x_: tpos}).pure_only(pos, "a branch of a conditional expression")
                if self.env[x_] == VAL:
                    raise TranslateError("conditional expression on the kind of a union value")
                b, tb = self.pure_only(neg, "a branch of a conditional expression")
                if ta == INTLIT and tb != INTLIT:
                    a, ta = self.lit(a, tb), tb
                if tb == INTLIT and ta != INTLIT:
                    b, tb = self.lit(b, ta), ta
                if ta != tb:
                    raise TranslateError(f"conditional expression of types {ta}, {tb}")
                return f"(match {x_} with | {pat} => {a} | _ => {b})", ta
            c, tc = self.e(n.test)
            a, ta = self.pure_only(n.body, "a branch of a conditional expression")
            b, tb = self.pure_only(n.orelse, "a branch of a conditional expression")
            if tc != BOOL:
                raise TranslateError("ifexp test")
            if ta == INTLIT and tb != INTLIT:
                a, ta = self.lit(a, tb), tb
            if tb == INTLIT and ta != INTLIT:
                b, tb = self.lit(b, ta), ta
            if ta != tb:
                raise TranslateError(f"conditional expression of types {ta}, {tb}")
            return f"(if {c} then {a} else {b})", ta
        if isinstance(n, ast.Attribute):
            return self.attribute(n)
        if isinstance(n, ast.List):
            parts = [self.e(v) for v in n.elts]
            if not parts:
                raise TranslateError("empty list literal in an expression")
            t0 = parts[0][1]
            if any(t != t0 for _, t in parts):
                raise TranslateError("list literal of mixed types")
            return "[" + ", ".join(p for p, _ in parts) + "]", list_of(t0)
        if isinstance(n, ast.Set):
            parts = [self.e(v) for v in n.elts]
            if parts and all(t == LETTER for _, t in parts):
                return "(OQ.Py.setOfList [" + ", ".join(p for p, _ in parts) + "])", SETLETTER
            raise TranslateError("set literal")
        if isinstance(n, ast.Tuple):
            parts = [self.unlit(*self.e(v)) for v in n.elts]
            return "(" + ", ".join(p for p, _ in parts) + ")", " × ".join(paren(t) for _, t in parts)
        if isinstance(n, ast.BinOp):
            return self.binop(n)
        if isinstance(n, ast.Compare):
            return self.compare(n)
        if isinstance(n, ast.Call):
            return self.call(n)
        if isinstance(n, ast.Subscript):
            return self.subscript(n)
        if isinstance(n, (ast.ListComp, ast.GeneratorExp)):
            return self.comprehension(n)
        if isinstance(n, ast.DictComp):
            return self.dictcomp(n)
        raise TranslateError(f"expression {type(n).__name__}")

    def dictcomp(self, n):
        if len(n.generators) != 1:
            raise TranslateError("dict comprehension with several generators")
        g = n.generators[0]
        it, te = self.iter_of(g.iter)
        var = g.target.id if isinstance(g.target, ast.Name) else "p0"
        env, lets, _ = self._bind_target(g.target, te, var)
        inner = self.sub(env)
        src = it
        for cond in g.ifs:
            c, tc = inner.pure_only(cond, "a comprehension filter")
            if tc != BOOL:
                raise TranslateError("comprehension filter")
            src = f"({src}.filter (fun ({var} : {te}) => {lets}{c}))"
        kk, tk = inner.pure_only(n.key, "a dict comprehension key")
        vv, tvv = inner.pure_only(n.value, "a dict comprehension value")
        td = DICT(tk, tvv)
        return f"({src}.foldl (fun (acc : {td}) ({var} : {te}) => {lets}OQ.Py.dictSet acc {kk} {vv}) [])", td

    def module_constant(self, name):
        mod = self.gen.mod
        if name in ("OPERATOR_MAP", "COEFF_MAP", "ALLOWED_OPERATORS") and hasattr(mod, name):
            self.gen.constants.add(name)
            if name == "OPERATOR_MAP":
                return "OPERATOR_MAP", DICT(INT, LETTER)
            if name == "COEFF_MAP":
                return "(COEFF_MAP k)", DICT(LSTRING, NUM)
            return "ALLOWED_OPERATORS", list_of(LETTER)
        raise TranslateError(f"unknown name {name}")

    def attribute(self, n):
        v, t = self.e(n.value)
        cls = CLS_OF.get(t)
        if cls is None:
            raise TranslateError(f"attribute {n.attr} of {t}")
        if n.attr in ATTRS[cls]:
            if cls == "PauliSum":
                return v, LTERMS
            return f"{v}.{n.attr}", ATTRS[cls][n.attr]
        if self.gen.has_method(cls, n.attr) and self.gen.is_property(cls, n.attr):
            return self.invoke(cls, n.attr, [(v, t)])
        raise TranslateError(f"attribute {cls}.{n.attr}")

    def invoke(self, cls, meth, args, lit=None):
        """call of the variant of cls.meth for these (already rendered) arguments: [(text, type)], receiver first"""
        static = cls is None or self.gen.is_static(cls, meth)
        node = self.gen.method_node(cls, meth)
        pnames = [a.arg for a in node.args.args if static or a.arg != "self"]
        if not static:
            pnames = pnames
        declared = PARAMS.get((cls, meth), {})
        recv, rest = ([], args) if static else (args[:1], args[1:])
        if lit is not None:
            rest_names = [p for p in pnames if p != "operator"]
        else:
            rest_names = pnames
        if len(rest) != len(rest_names):
            raise TranslateError(f"{cls}.{meth}: {len(rest)} argument(s) for {rest_names}")
        texts, types = [], []
        for p, (v, t) in zip(rest_names, rest):
            want = declared.get(p)
            if want is None:
                if t == INTLIT:
                    v, t = self.lit(v, NUM), NUM
                if t not in KIND:
                    raise TranslateError(f"{cls}.{meth}: argument {p} of type {t}")
                want = t
            texts.append(self.coerce(v, t, want))
            types.append(want)
        full_types = list(types)
        if lit is not None:
            full_types.insert(pnames.index("operator"), "«lit»")
        if self.rec_name and cls is None and meth == self.meth:
            # the recursive call: one unit of fuel less
            if [t for t in full_types] != [self.env[p] for p in pnames]:
                raise TranslateError("recursive call at other types")
            return self.effect(f"({self.rec_name}_fuel k x __fuel {' '.join(texts)})", self.ret_of_rec())
        info = self.gen.variant(cls, meth, full_types, lit)
        call = "(" + " ".join([info["lean"], PRE] + [v for v, _ in recv] + texts) + ")"
        if info["partial"]:
            return self.effect(call, info["ret"])
        return call, info["ret"]

    def ret_of_rec(self):
        # the result kind of the recursive function is the kind of its first parameter
        node = self.gen.method_node(None, self.meth)
        return self.env[node.args.args[0].arg]

    # ---- Python's binary operator protocol on objects
    def obj_binop(self, opname, a, ta, b, tb):
        if ta == INTLIT and tb != INTLIT:
            a, ta = self.lit(a, NUM), NUM
        if tb == INTLIT and opname != "pow":
            b, tb = self.lit(b, NUM), NUM
        if ta in CLS_OF:
            return self.invoke(CLS_OF[ta], f"__{opname}__", [(a, ta), (b, tb)])
        if tb in CLS_OF and ta == NUM:
            return self.invoke(CLS_OF[tb], f"__r{opname}__", [(b, tb), (a, ta)])
        if ta == VAL or tb == VAL:
            # dispatch on the run-time kind(s): one branch per kind
            def branches(name_txt, kinds_done):
                pass
            va, vb = self.fresh(), self.fresh()
            outs = []
            for ka in ([NUM, TERM, SUM] if ta == VAL else [ta]):
                for kb in ([NUM, TERM, SUM] if tb == VAL else [tb]):
                    pa = f"PVal.{KIND[ka]} {va}" if ta == VAL else "_"
                    pb = f"PVal.{KIND[kb]} {vb}" if tb == VAL else "_"
                    xa = va if ta == VAL else a
                    xb = vb if tb == VAL else b
                    (r, b2) = self.scoped(lambda: self.typed_binop(opname, xa, ka, xb, kb))
                    outs.append((pa, pb, r, b2))
            if not self.partial:
                raise NeedPartial()
            arms = []
            for pa, pb, (r, tr_), b2 in outs:
                arms.append(f"  | {pa}, {pb} => {self.wrap_binds(b2, ok(self.coerce(r, tr_, VAL)))}")
            sa = a if ta == VAL else "()"
            sb = b if tb == VAL else "()"
            return self.effect(f"(match {sa}, {sb} with\n" + "\n".join(arms) + ")", VAL)
        raise TranslateError(f"operator {opname} on {ta}, {tb}")

    def typed_binop(self, opname, a, ta, b, tb):
        if ta == NUM and tb == NUM:
            return self.num_binop(opname, a, b)
        return self.obj_binop(opname, a, ta, b, tb)

    def num_binop(self, opname, a, b):
        sym = {"add": "+", "mul": "*"}.get(opname)
        if sym:
            return f"({a} {sym} {b})", NUM
        if opname == "truediv":
            return self.effect(f"(OQ.Py.ofOption OQ.Py.Exc4.zeroDiv (x.truediv {a} {b}))", NUM)
        raise TranslateError(f"{opname} on two numbers")

    def binop(self, n):
        a, ta = self.e(n.left)
        b, tb = self.e(n.right)
        opname = BINOPS.get(type(n.op))
        objs = (TERM, SUM, VAL)
        if opname and (ta in objs or tb in objs):
            return self.obj_binop(opname, a, ta, b, tb)
        if opname and NUM in (ta, tb):
            if ta == INTLIT:
                a, ta = self.lit(a, NUM), NUM
            if tb == INTLIT:
                b, tb = self.lit(b, NUM), NUM
            if ta == NUM and tb == NUM:
                return self.num_binop(opname, a, b)
        if isinstance(n.op, ast.Add) and ta == tb and is_list(ta):
            return f"({a} ++ {b})", ta
        if isinstance(n.op, ast.Add) and ta == LETTER and tb == LETTER:
            return f"[{a}, {b}]", LSTRING
        if ta == INTLIT and tb == INTLIT:
            raise TranslateError("arithmetic on two literals")
        if NAT in (ta, tb) and {ta, tb} <= {NAT, INTLIT} and isinstance(n.op, ast.Add):
            a = self.coerce(a, ta, NAT)
            b = self.coerce(b, tb, NAT)
            return f"({a} + {b})", NAT
        if {ta, tb} <= {INT, INTLIT}:
            a = self.coerce(a, ta, INT)
            b = self.coerce(b, tb, INT)
            op = n.op
            if isinstance(op, ast.Add):
                return f"({a} + {b})", INT
            if isinstance(op, ast.Sub):
                return f"({a} - {b})", INT
            if isinstance(op, ast.Mult):
                return f"({a} * {b})", INT
            if isinstance(op, ast.FloorDiv):
                return f"(Int.fdiv {a} {b})", INT
            if isinstance(op, ast.Mod):
                return f"(Int.fmod {a} {b})", INT
        raise TranslateError(f"binop {type(n.op).__name__} on {ta}, {tb}")

    def compare(self, n):
        if len(n.ops) != 1:
            raise TranslateError("chained comparison")
        op = n.ops[0]
        L, Rn = n.left, n.comparators[0]
        neg = isinstance(op, (ast.NotEq, ast.NotIn, ast.IsNot))

        def out(c):
            return (f"(!{c})" if neg else c), BOOL
        if isinstance(op, (ast.Is, ast.IsNot)):
            if isinstance(Rn, ast.Constant) and Rn.value is None:
                v, t = self.e(L)
                if t.startswith("Option "):
                    return out(f"({v}.isNone)")
                if t == "«none»":
                    return out("true")
                return out("false")
            raise TranslateError("is")
        if isinstance(op, (ast.In, ast.NotIn)):
            a, ta = self.e(L)
            b, tb = self.e(Rn)
            if is_dict(tb):
                kk, _ = dict_kv(tb)
                a = self.coerce(a, ta, kk)
                if kk == FITEMS:
                    return out(f"(OQ.Py.dictHasBy OQ.Py.frozenItemsEq {b} {a})")
                return out(f"(OQ.Py.dictHas {b} {a})")
            if is_list(tb) and elem(tb) == ta:
                return out(f"({b}.contains {a})")
            raise TranslateError(f"membership of {ta} in {tb}")
        if isinstance(op, (ast.Eq, ast.NotEq)):
            # d == {}
            for x_, y_ in ((L, Rn), (Rn, L)):
                if isinstance(y_, ast.Dict) and not y_.keys:
                    d, td = self.e(x_)
                    if not is_dict(td):
                        raise TranslateError("comparison of a non-dict with {}")
                    return out(f"({d}.isEmpty)")
            a, ta = self.e(L)
            b, tb = self.e(Rn)
            if ta in (TERM, SUM, VAL) or tb in (TERM, SUM, VAL):
                if neg:
                    raise TranslateError("!= on objects")
                return self.obj_binop("eq", a, ta, b, tb) if ta in CLS_OF else self.obj_eq_reflected(a, ta, b, tb)
            if ta == FITEMS and tb == FITEMS:
                return out(f"(OQ.Py.frozenItemsEq {a} {b})")
            if ta == tb and ta in (SETLETTER, SETNAT):
                return out(f"(OQ.Py.setEq {a} {b})")
            if ta == tb and ta in (LETTER, BOOL, NAT, INT):
                return out(f"({a} == {b})")
            if {ta, tb} <= {NAT, INT, INTLIT} and ta != tb:
                t = ta if tb == INTLIT else tb
                return out(f"({self.coerce(a, ta, t)} == {self.coerce(b, tb, t)})")
            if NUM in (ta, tb) and {ta, tb} <= {NUM, INTLIT}:
                # Python's == on two numbers: an external (no equality on the abstract R is assumed); a literal is the ring's constant
                a = self.lit(a, NUM) if ta == INTLIT else a
                b = self.lit(b, NUM) if tb == INTLIT else b
                return out(f"(x.num_eq {a} {b})")
            raise TranslateError(f"== on {ta}, {tb}")
        sym = {ast.Lt: "<", ast.LtE: "≤", ast.Gt: ">", ast.GtE: "≥"}.get(type(op))
        if sym:
            a, ta = self.e(L)
            b, tb = self.e(Rn)
            if {ta, tb} <= {NAT, INT, INTLIT} and {ta, tb} != {INTLIT} and not {NAT, INT} <= {ta, tb}:
                t = ta if ta != INTLIT else tb
                return f"(decide ({self.coerce(a, ta, t)} {sym} {self.coerce(b, tb, t)}))", BOOL
        raise TranslateError(f"comparison {type(op).__name__}")

    def obj_eq_reflected(self, a, ta, b, tb):
        if ta == NUM and tb in CLS_OF:
            return self.invoke(CLS_OF[tb], "__eq__", [(b, tb), (a, ta)])
        raise TranslateError(f"== on {ta}, {tb}")

    def kinds_of(self, cls_node):
        """the kinds named by the class argument of isinstance"""
        names = cls_node.elts if isinstance(cls_node, ast.Tuple) else [cls_node]
        out = set()
        for x_ in names:
            if not _name(x_):
                raise TranslateError("isinstance class")
            if x_.id in NUMCLS or x_.id == NUMABC:
                out.add(NUM)
            elif x_.id in TY_OF:
                out.add(TY_OF[x_.id])
            elif x_.id == "Sequence":
                out.add("«seq»")
            elif x_.id == "str":
                out.add("«str»")
            else:
                raise TranslateError(f"isinstance class {x_.id}")
        if NUM in out and not (NUMCLS <= {x_.id for x_ in names} or NUMABC in {x_.id for x_ in names}):
            raise TranslateError("isinstance with only some of int / float / complex (numbers are one kind here)")
        return out

    def isinstance_test(self, n):
        """(text or None, narrowing) of isinstance(<expr>, classes): static ('true'/'false') or dynamic on a VAL name"""
        if not (isinstance(n, ast.Call) and _name(n.func, "isinstance") and len(n.args) == 2 and not n.keywords):
            return None
        v, t = self.e(n.args[0])
        if t == INT and _name(n.args[1], "int"):
            return ("true", None)
        kinds = self.kinds_of(n.args[1])
        if t == VAL:
            if {NUM, TERM, SUM} <= kinds:
                return ("true", None)
            ks = kinds & {NUM, TERM, SUM}
            if len(ks) == 1 and _name(n.args[0]):
                return (None, (n.args[0].id, next(iter(ks))))
            if not ks:
                return ("false", None)
            raise TranslateError("isinstance on a union value with several (not all) kinds")
        if t == "«lit»":
            return ("true" if "«str»" in kinds else "false", None)
        if t in (NUM, INTLIT):
            return ("true" if NUM in kinds else "false", None)
        if t == INT:
            if kinds == {NUM}:
                raise TranslateError("isinstance(int value, (int, float, complex))")
            raise TranslateError("isinstance on an Int")
        if t in (TERM, SUM):
            return ("true" if t in kinds else "false", None)
        if is_list(t) or is_dict(t):
            return ("true" if "«seq»" in kinds and is_list(t) else "false", None)
        raise TranslateError(f"isinstance on {t}")

    def call(self, n):
        f = n.func
        fname = f.id if isinstance(f, ast.Name) else None
        d = _dotted(f) if isinstance(f, ast.Attribute) else None
        if fname == "isinstance":
            if len(n.args) == 2 and _name(n.args[1], "int"):
                v, t = self.e(n.args[0])
                if t == INT:
                    return "true", BOOL
            r = self.isinstance_test(n)
            if r and r[0] is not None:
                return r[0], BOOL
            if r:
                name, kind = r[1]
                return f"(match {name} with | PVal.{KIND[kind]} _ => true | _ => false)", BOOL
        if fname == "cast" and len(n.args) == 2:
            return self.e(n.args[1])
        if fname == "complex" and len(n.args) == 1 and not n.keywords:
            v, t = self.e(n.args[0])
            if t == INTLIT:
                return self.lit(v, NUM), NUM
            if t == NUM:
                return v, NUM
            raise TranslateError(f"complex({t})")
        if d in ("np.isclose", "np.allclose") and len(n.args) == 2 and not n.keywords:
            a, ta = self.e(n.args[0])
            b, tb = self.e(n.args[1])
            return f"(x.{d[3:]} {self.coerce(a, ta, NUM)} {self.coerce(b, tb, NUM)})", BOOL
        if fname == "len" and len(n.args) == 1:
            v, t = self.e(n.args[0])
            if t in CLS_OF:
                return self.invoke(CLS_OF[t], "__len__", [(v, t)])
            if is_list(t) or is_dict(t):
                return f"(({v}.length : Nat) : Int)", INT
            raise TranslateError(f"len({t})")
        if fname == "ord" and len(n.args) == 1:
            v, t = self.e(n.args[0])
            if t == LETTER:
                return f"(ordL {v})", INT
            raise TranslateError(f"ord({t})")
        if fname in TY_OF:
            return self.construct(fname, n)
        if fname == "type":
            raise TranslateError("type(...) outside type(x).identity()")
        if fname == "set" and len(n.args) == 1:
            v, t = self.e(n.args[0])
            if t == list_of(NAT):
                return f"(OQ.Py.setOfList {v})", SETNAT
            if t == list_of(LETTER):
                return f"(OQ.Py.setOfList {v})", SETLETTER
            if t == SETNAT:
                return v, t
            raise TranslateError(f"set({t})")
        if fname == "frozenset" and len(n.args) == 1:
            v, t = self.e(n.args[0])
            if t == list_of(f"Nat × {LETTER}"):
                return v, FITEMS
            raise TranslateError(f"frozenset({t})")
        if fname == "max" and len(n.args) == 1:
            v, t = self.e(n.args[0])
            if t in (SETNAT, list_of(NAT)):
                return self.effect(f"(OQ.Py.maxNatE {v})", NAT)
            raise TranslateError(f"max({t})")
        if fname == "sum" and len(n.args) == 1:
            v, t = self.e(n.args[0])
            if t == list_of(NUM):
                return f"({v}.foldl (fun (acc : R) (c : R) => acc + c) (0 : R))", NUM
            raise TranslateError(f"sum({t})")
        if fname == "all" and len(n.args) == 1:
            v, t = self.e(n.args[0])
            if t == list_of(BOOL):
                return f"({v}.all id)", BOOL
            raise TranslateError(f"all({t})")
        if fname == "chain" and len(n.args) == 2:
            (a, ta), (b, tb) = self.e(n.args[0]), self.e(n.args[1])
            if ta == tb and is_list(ta):
                return f"({a} ++ {b})", ta
            raise TranslateError("chain")
        if d == "chain.from_iterable" and len(n.args) == 1:
            v, t = self.e(n.args[0])
            if t == list_of(SETNAT):
                return f"({v}.flatten)", list_of(NAT)
            raise TranslateError(f"chain.from_iterable({t})")
        if fname == "product" and len(n.args) == 2:
            (a, ta), (b, tb) = self.e(n.args[0]), self.e(n.args[1])
            if is_list(ta) and is_list(tb):
                ea, eb = elem(ta), elem(tb)
                return (f"({a}.flatMap (fun (pa : {ea}) => {b}.map (fun (pb : {eb}) => (pa, pb))))",
                        list_of(f"{paren(ea)} × {paren(eb)}"))
            raise TranslateError("product")
        if fname in self.gen.funcs:
            args = [self.e(a) for a in n.args]
            if n.keywords:
                raise TranslateError("keyword arguments")
            return self.invoke(None, fname, args)
        if isinstance(f, ast.Attribute):
            meth = f.attr
            # PauliTerm.identity() / type(x).identity()
            if _name(f.value) and f.value.id in TY_OF and f.value.id not in self.env:
                return self.invoke(f.value.id, meth, [self.e(a) for a in n.args])
            if isinstance(f.value, ast.Call) and _name(f.value.func, "type") and len(f.value.args) == 1:
                v, t = self.e(f.value.args[0])
                if t in CLS_OF and self.gen.is_static(CLS_OF[t], meth):
                    return self.invoke(CLS_OF[t], meth, [self.e(a) for a in n.args])
                raise TranslateError("type(x).m() on a value of unknown kind")
            r, trv = self.e(f.value)
            if trv in CLS_OF:
                cls = CLS_OF[trv]

                return self.invoke(cls, meth, [(r, trv)] + self.call_args(cls, meth, n))
            if is_dict(trv):
                kk, vv = dict_kv(trv)
                if meth == "copy" and not n.args:
                    return r, trv
                if meth == "keys" and not n.args:
                    return f"(OQ.Py.dictKeys {r})", list_of(kk)
                if meth == "values" and not n.args:
                    return f"(OQ.Py.dictValues {r})", list_of(vv)
                if meth == "items" and not n.args:
                    return f"(OQ.Py.dictItems {r})", list_of(f"{paren(kk)} × {paren(vv)}")
                if meth == "get" and len(n.args) == 2:
                    a, ta = self.e(n.args[0])
                    b, tb = self.e(n.args[1])
                    return f"(OQ.Py.dictGetD {r} {self.coerce(a, ta, kk)} {self.coerce(b, tb, vv)})", vv
            raise TranslateError(f"method {meth} on {trv}")
        raise TranslateError(f"call of {fname or d}")

    def call_args(self, cls, meth, n):
        """positional + keyword + default (None only) arguments of a method call, in parameter order"""
        node = self.gen.method_node(cls, meth)
        params = [a.arg for a in node.args.args if a.arg != "self"]
        defaults = dict(zip(params[len(params) - len(node.args.defaults):], node.args.defaults))
        given = {}
        if len(n.args) > len(params):
            raise TranslateError("too many arguments")
        for p, a in zip(params, n.args):
            given[p] = a
        for kw in n.keywords:
            if kw.arg not in params or kw.arg in given:
                raise TranslateError(f"keyword {kw.arg}")
            given[kw.arg] = kw.value
        out = []
        for p in params:
            if p in given:
                out.append(self.e(given[p]))
            elif p in defaults:
                out.append(self.e(defaults[p]))
            else:
                raise TranslateError(f"missing argument {p}")
        return out

    def construct(self, cls, n):
        node = self.gen.method_node(cls, "__init__")
        params = [a.arg for a in node.args.args if a.arg != "self"]
        first = n.args[0] if n.args else next((kw.value for kw in n.keywords if kw.arg == params[0]), None)
        if cls == "PauliTerm" and isinstance(first, ast.Constant) and isinstance(first.value, str):
            # a str LITERAL: constant-folded through the current parser
            if not n.args:
                raise TranslateError("str literal passed by keyword")
            n2 = ast.Call(func=n.func, args=n.args[1:], keywords=n.keywords)
            rest = self.call_args_from(node, params[1:], n2)
            return self.invoke_init_lit(cls, rest, first.value)
        args = self.call_args(cls, "__init__", n)
        return self.invoke_init(cls, args)

    def call_args_from(self, node, params, n):
        defaults_all = [a.arg for a in node.args.args if a.arg != "self"]
        defaults = dict(zip(defaults_all[len(defaults_all) - len(node.args.defaults):], node.args.defaults))
        given = dict(zip(params, n.args))
        for kw in n.keywords:
            given[kw.arg] = kw.value
        out = []
        for p in params:
            if p in given:
                out.append(self.e(given[p]))
            elif p in defaults:
                out.append(self.e(defaults[p]))
            else:
                raise TranslateError(f"missing argument {p}")
        return out

    def invoke_init(self, cls, args):
        declared = PARAMS[(cls, "__init__")]
        texts, types = [], []
        for (p, want), (v, t) in zip(declared.items(), args):
            texts.append(self.coerce(v, t, want))
            types.append(want)
        info = self.gen.variant(cls, "__init__", types)
        call = "(" + " ".join([info["lean"], PRE] + texts) + ")"
        return self.effect(call, info["ret"]) if info["partial"] else (call, info["ret"])

    def invoke_init_lit(self, cls, rest, lit):
        declared = [(p, t) for p, t in PARAMS[(cls, "__init__")].items() if p != "operator"]
        texts = [self.coerce(v, t, want) for (p, want), (v, t) in zip(declared, rest)]
        info = self.gen.variant(cls, "__init__", ["«lit»"] + [t for _, t in declared], lit)
        call = "(" + " ".join([info["lean"], PRE] + texts) + ")"
        return self.effect(call, info["ret"]) if info["partial"] else (call, info["ret"])

    def subscript(self, n):
        if isinstance(n.slice, ast.Slice):
            raise TranslateError("slice")
        a, ta = self.e(n.value)
        i, ti = self.e(n.slice)
        if ta in CLS_OF:
            return self.invoke(CLS_OF[ta], "__getitem__", [(a, ta), (i, ti)])
        if is_dict(ta):
            kk, vv = dict_kv(ta)
            i = self.coerce(i, ti, kk)
            if kk == FITEMS:
                return self.effect(f"(OQ.Py.dictGetByE OQ.Py.frozenItemsEq {a} {i})", vv)
            return self.effect(f"(OQ.Py.dictGetE {a} {i})", vv)
        if is_list(ta):
            return self.effect(f"(OQ.Py.indexE {a} {self.coerce(i, ti, INT)})", elem(ta))
        raise TranslateError(f"subscript of {ta}")

    def iter_of(self, n):
        """(lean list, element type) of an iterable expression"""
        v, t = self.e(n)
        if t in CLS_OF:
            v, t = self.invoke(CLS_OF[t], "__iter__", [(v, t)])
        if t == SETNAT:
            return f"(x.set_iter {v})", NAT
        if is_dict(t):
            return f"(OQ.Py.dictKeys {v})", dict_kv(t)[0]
        if is_list(t):
            return v, elem(t)
        raise TranslateError(f"iteration over {t}")

    def comprehension(self, n):
        if len(n.generators) != 1:
            raise TranslateError("comprehension with several generators")
        g = n.generators[0]
        it, te = self.iter_of(g.iter)
        var = g.target.id if isinstance(g.target, ast.Name) else "p0"
        env, lets, _ = self._bind_target(g.target, te, var)
        inner = self.sub(env)
        src = it
        for cond in g.ifs:
            c, tc = inner.pure_only(cond, "a comprehension filter")
            if tc != BOOL:
                raise TranslateError("comprehension filter")
            src = f"({src}.filter (fun ({var} : {te}) => {lets}{c}))"
        (el, tel), binds = inner.scoped(lambda: inner.unlit(*inner.e(n.elt)))
        if binds:
            body = self.wrap_binds(binds, ok(el))
            return self.effect(f"(OQ.Py.mapE (fun ({var} : {te}) => {lets}\n  {body}) {src})", list_of(tel))
        return f"({src}.map (fun ({var} : {te}) => {lets}{el}))", list_of(tel)

    # ------------------------------------------------------------------ statements
    def wrap(self, v):
        return ok(v) if self.partial else v

    def init_result(self):
        attrs = ATTRS[self.cls]
        for a in attrs:
            if self.env.get("self." + a) != attrs[a]:
                raise TranslateError(f"self.{a} is not assigned (or not at its declared type) when __init__ returns")
        if self.cls == "PauliSum":
            return self.wrap("self_terms")
        return self.wrap("{ " + ", ".join(f"{a} := self_{a}" for a in attrs) + " }")

    def generator(self, node):
        """a generator function `for i in it: yield e` = the list of what it yields"""
        body = [s for s in node.body if not (isinstance(s, ast.Expr) and isinstance(s.value, ast.Constant))]
        if len(body) == 1 and isinstance(body[0], ast.For) and len(body[0].body) == 1 and isinstance(body[0].body[0], ast.Expr) \
                and isinstance(body[0].body[0].value, ast.Yield) and not body[0].orelse:
            comp = ast.ListComp(elt=body[0].body[0].value.value, generators=[ast.comprehension(
                target=body[0].target, iter=body[0].iter, ifs=[], is_async=0)])
            (v, t), binds = self.scoped(lambda: self.e(comp))
            return self.wrap_binds(binds, self.wrap(v)), t
        raise TranslateError("generator function of another shape than `for … : yield …`")

    def stmt_expr(self, node, cont):
        """render `node`, then `cont(text, type)` (which renders the rest), inside the binds the expression needs"""
        (v, t), binds = self.scoped(lambda: self.e(node))
        return self.wrap_binds(binds, cont(v, t))

    def narrow_test(self, test):
        """(name, lean pattern, narrowed type, positive-first?) for isinstance on a VAL name / `is None` on an Option name"""
        r = self.isinstance_test(test) if isinstance(test, ast.Call) else None
        if r and r[0] is None:
            name, kind = r[1]
            return name, f"PVal.{KIND[kind]} {name}", kind, True
        if isinstance(test, ast.Compare) and len(test.ops) == 1 and isinstance(test.ops[0], (ast.Is, ast.IsNot)) \
                and _name(test.left) and isinstance(test.comparators[0], ast.Constant) and test.comparators[0].value is None:
            t = self.env.get(test.left.id, "")
            if t.startswith("Option "):
                return test.left.id, f"some {test.left.id}", t[len("Option "):], isinstance(test.ops[0], ast.IsNot)
        return None

    def static_test(self, test):
        """'true' / 'false' when the test is decided by the declared kinds, else None"""
        if isinstance(test, ast.Call) and _name(test.func, "isinstance"):
            r = self.isinstance_test(test)
            if r and r[0] is not None:
                return r[0]
        if isinstance(test, ast.UnaryOp) and isinstance(test.op, ast.Not):
            r = self.static_test(test.operand)
            if r:
                return "false" if r == "true" else "true"
        if isinstance(test, ast.Compare) and len(test.ops) == 1 and isinstance(test.ops[0], (ast.Is, ast.IsNot)) \
                and isinstance(test.comparators[0], ast.Constant) and test.comparators[0].value is None and _name(test.left):
            t = self.env.get(test.left.id)
            if t == "«none»":
                return "true" if isinstance(test.ops[0], ast.Is) else "false"
            if t is not None and not t.startswith("Option "):
                return "false" if isinstance(test.ops[0], ast.Is) else "true"
        if isinstance(test, ast.BoolOp):
            rs = [self.static_test(v) for v in test.values]
            if isinstance(test.op, ast.And) and "false" in rs and all(r is not None for r in rs[:rs.index("false")]):
                return "false"
            if isinstance(test.op, ast.Or) and "true" in rs and all(r is not None for r in rs[:rs.index("true")]):
                return "true"
            if all(r is not None for r in rs):
                return ("true" if all(r == "true" for r in rs) else "false") if isinstance(test.op, ast.And) else \
                    ("true" if any(r == "true" for r in rs) else "false")
        return None

    def empties(self):
        if self.sh["empties"] is None:
            node = self.gen.method_node(self.cls, self.meth)
            lits = sorted((x_.value.lineno, x_.value.col_offset) for x_ in ast.walk(node)
                          if isinstance(x_, (ast.Assign, ast.AnnAssign)) and x_.value is not None and self.is_empty(x_.value))
            decl = EMPTIES.get((self.cls, self.meth), [])
            if len(lits) != len(decl):
                raise TranslateError(f"{len(lits)} empty containers in the source, {len(decl)} types declared")
            self.sh["empties"] = dict(zip(lits, decl))
        return self.sh["empties"]

    @staticmethod
    def is_empty(v):
        return (isinstance(v, (ast.List, ast.Tuple)) and not v.elts) or (isinstance(v, ast.Dict) and not v.keys) or \
            (isinstance(v, ast.Call) and _name(v.func, "OrderedDict") and not v.args and not v.keywords)

    def ret_value(self, v, t):
        if t == INTLIT:
            v, t = self.lit(v, self.ret if self.ret in (NAT, INT, NUM) else self.default_lit_type()), \
                (self.ret if self.ret in (NAT, INT, NUM) else self.default_lit_type())
        self.rets.append(t)
        if self.ret is not None and t != self.ret:
            v = self.coerce(v, t, self.ret)
        return self.wrap(v)

    def default_lit_type(self):
        return NAT if self.meth == "n_qubits" else INT

    def block(self, stmts, tail=None):
        if not stmts:
            if tail is None:
                self.rets.append(UNIT)
                return self.wrap("()")
            return tail(self)
        s, rest = stmts[0], stmts[1:]
        if isinstance(s, ast.Expr) and isinstance(s.value, ast.Constant) and isinstance(s.value.value, str):
            return self.block(rest, tail)
        if isinstance(s, ast.Expr) and isinstance(s.value, ast.Call) and _dotted(s.value.func) == "warnings.warn":
            return self.block(rest, tail)
        if isinstance(s, ast.AnnAssign) and s.value is not None:
            s = ast.Assign(targets=[s.target], value=s.value, lineno=s.lineno)
        if isinstance(s, ast.Return):
            if tail is not None and self.meth != "__init__":
                raise TranslateError("return inside a loop body")
            if s.value is None:
                return self.block([], tail)
            if isinstance(s.value, ast.IfExp):
                low = ast.If(test=s.value.test, body=[ast.Return(value=s.value.body)], orelse=[ast.Return(value=s.value.orelse)])
                return self.block([low] + rest, tail)
            return self.stmt_expr(s.value, lambda v, t: self.ret_value(v, t))
        if isinstance(s, ast.Raise):
            if not self.partial:
                raise NeedPartial()
            exc = s.exc.func if isinstance(s.exc, ast.Call) else s.exc
            if not _name(exc) or exc.id not in EXC:
                raise TranslateError("raise of an unknown exception class")
            return err(EXC[exc.id])
        if isinstance(s, ast.Assert):
            st = self.static_test(s.test)
            if st == "true":
                return self.block(rest, tail)
            raise TranslateError("assert that is not decided by the declared kinds")
        if isinstance(s, ast.Delete) and len(s.targets) == 1 and isinstance(s.targets[0], ast.Subscript) \
                and _name(s.targets[0].value) and is_dict(self.env.get(s.targets[0].value.id, "")):
            name = s.targets[0].value.id
            td = self.env[name]

            def cont(v, t):
                kk, _ = dict_kv(td)
                if not self.partial:
                    raise NeedPartial()
                return (f"Except.bind (OQ.Py.dictDelE {name} {self.coerce(v, t, kk)}) (fun ({name} : {td}) =>\n  "
                        f"{self.block(rest, tail)})")
            return self.stmt_expr(s.targets[0].slice, cont)
        if isinstance(s, ast.Assign) and len(s.targets) == 1:
            tgt = s.targets[0]
            if isinstance(tgt, ast.Attribute) and _name(tgt.value, "self"):
                if self.meth != "__init__":
                    raise TranslateError("assignment to an attribute outside __init__ (objects are values)")
                a = tgt.attr

                def cont(v, t):
                    want = ATTRS[self.cls].get(a)
                    if want is None:
                        raise TranslateError(f"undeclared attribute {a}")
                    v = self.coerce(v, t, want)
                    return f"let self_{a} : {want} := {v}\n  {self.sub({'self.' + a: want}).block(rest, tail)}"
                return self.stmt_expr(s.value, cont)
            if isinstance(tgt, ast.Tuple) and self.slit is not None and isinstance(s.value, ast.Call) \
                    and _name(s.value.func, "_parse_operators_and_coefficient") and len(s.value.args) == 1 \
                    and _name(s.value.args[0], "operator") and self.env.get("operator") == "«lit»" and len(tgt.elts) == 2 \
                    and all(_name(x_) for x_ in tgt.elts):
                # constant folding: RUN the current parser on the literal
                try:
                    coef, ops = self.gen.mod._parse_operators_and_coefficient(self.slit)
                except Exception as e:  # noqa: BLE001
                    raise TranslateError(f"the parser raises {type(e).__name__} on the literal {self.slit!r}")
                if coef is not None:
                    raise TranslateError("a literal with a coefficient")
                for q, l in ops.items():
                    if not (isinstance(q, int) and q >= 0 and l in LET):
                        raise TranslateError(f"parsed literal {ops!r}")
                dtxt = "[" + ", ".join(f"(({q} : Nat), ({LET[l]} : Letter))" for q, l in ops.items()) + "]"
                n0, n1 = tgt.elts[0].id, tgt.elts[1].id
                return (f"let {n1} : {OPSD} := {dtxt}\n  "
                        f"{self.sub({n0: '«none»', n1: OPSD}).block(rest, tail)}")
            if isinstance(tgt, ast.Name) and isinstance(s.value, ast.IfExp):
                low = ast.If(test=s.value.test, body=[ast.Assign(targets=[tgt], value=s.value.body, lineno=s.lineno)],
                             orelse=[ast.Assign(targets=[tgt], value=s.value.orelse, lineno=s.lineno)])
                return self.block([low] + rest, tail)
            if isinstance(tgt, ast.Name):
                name = tgt.id
                if self.is_empty(s.value):
                    t = self.empties()[(s.value.lineno, s.value.col_offset)]
                    return f"let {name} : {t} := []\n  {self.sub({name: t}).block(rest, tail)}"

                def cont(v, t):
                    if t == "«none»":
                        return self.sub({name: t}).block(rest, tail)
                    if t == INTLIT:
                        old = self.env.get(name)
                        t2 = old if old in (NUM, NAT, INT) else INT
                        v, t = self.lit(v, t2), t2
                    return f"let {name} : {t} := {v}\n  {self.sub({name: t}).block(rest, tail)}"
                return self.stmt_expr(s.value, cont)
            if isinstance(tgt, ast.Subscript) and _name(tgt.value) and is_dict(self.env.get(tgt.value.id, "")):
                name = tgt.value.id
                td = self.env[name]
                kk, vv = dict_kv(td)

                def both():
                    val = self.e(s.value)   # Python evaluates the right-hand side first, then the subscript
                    key = self.e(tgt.slice)
                    return val, key
                ((v, tv), (k_, tk)), binds = self.scoped(both)
                v = self.coerce(v, tv, vv)
                k_ = self.coerce(k_, tk, kk)
                setter = "OQ.Py.dictSetBy OQ.Py.frozenItemsEq" if kk == FITEMS else "OQ.Py.dictSet"
                return self.wrap_binds(binds, f"let {name} : {td} := {setter} {name} {k_} {v}\n  {self.block(rest, tail)}")
        if isinstance(s, ast.AugAssign) and isinstance(s.target, ast.Name):
            name = s.target.id
            if name not in self.env:
                raise TranslateError(f"augmented assignment to the unknown name {name}")
            new = ast.BinOp(left=ast.Name(id=name, ctx=ast.Load()), op=s.op, right=s.value)

            def cont(v, t):
                if t != self.env[name]:
                    raise TranslateError("augmented assignment changes type")
                return f"let {name} : {t} := {v}\n  {self.block(rest, tail)}"
            return self.stmt_expr(new, cont)
        if isinstance(s, ast.Expr) and isinstance(s.value, ast.Call):
            c = s.value
            if isinstance(c.func, ast.Attribute) and c.func.attr == "append" and len(c.args) == 1:
                recv = c.func.value
                if _name(recv) and is_list(self.env.get(recv.id, "")):
                    name = recv.id

                    def cont(v, t):
                        if self.env[name] != list_of(t):
                            raise TranslateError("append type")
                        return f"let {name} : {self.env[name]} := {name} ++ [{v}]\n  {self.block(rest, tail)}"
                    return self.stmt_expr(c.args[0], cont)
                if isinstance(recv, ast.Subscript) and _name(recv.value) and is_dict(self.env.get(recv.value.id, "")):
                    # d[k].append(v): the list is referenced from the dict only (value semantics)
                    new = ast.Assign(targets=[ast.Subscript(value=recv.value, slice=recv.slice, ctx=ast.Store())],
                                     value=ast.BinOp(left=ast.Subscript(value=recv.value, slice=recv.slice, ctx=ast.Load()),
                                                     op=ast.Add(), right=ast.List(elts=[c.args[0]], ctx=ast.Load())))
                    return self.block([new] + rest, tail)
            if _name(c.func) and c.func.id in self.gen.funcs:
                return self.stmt_expr(c, lambda v, t: self.block(rest, tail))
        if isinstance(s, ast.If):
            a_stmts = s.body + ([] if tr._ends(s.body) else rest)
            b_stmts = (s.orelse or []) + ([] if (s.orelse and tr._ends(s.orelse)) else rest)
            st = self.static_test(s.test)
            if st == "true":
                return self.block(a_stmts, tail)
            if st == "false":
                return self.block(b_stmts, tail)
            nar = self.narrow_test(s.test)
            if nar:
                x_, pat, tpos, pos_first = nar
                pos, neg = (a_stmts, b_stmts) if pos_first else (b_stmts, a_stmts)
                a = self.sub({x_: tpos}).block(pos, tail)
                if self.env[x_] == VAL:
                    # the other kinds: the negative branch once per kind (the name is then of that kind)
                    arms = "".join(f"\n  | PVal.{KIND[kd]} {x_} =>\n  {self.sub({x_: kd}).block(neg, tail)}"
                                   for kd in (NUM, TERM, SUM) if kd != tpos)
                    return f"(match {x_} with\n  | {pat} =>\n  {a}{arms})"
                b = self.block(neg, tail)
                return f"(match {x_} with\n  | {pat} =>\n  {a}\n  | _ =>\n  {b})"
            # `if a not in d: warnings.warn(...)` and other ifs without effect on the result
            if not s.orelse and all(isinstance(y, ast.Expr) and isinstance(y.value, ast.Call)
                                    and _dotted(y.value.func) == "warnings.warn" for y in s.body):
                self.pure_only(s.test, "the test of an if whose body is skipped")
                return self.block(rest, tail)

            def cont(c, tc):
                if tc != BOOL:
                    raise TranslateError("if test")
                return f"if {c} then\n  {self.block(a_stmts, tail)}\n  else\n  {self.block(b_stmts, tail)}"
            return self.stmt_expr(s.test, cont)
        if isinstance(s, ast.For) and not s.orelse:
            return self._for7(s, rest, tail)
        raise TranslateError(f"statement {type(s).__name__}")

    def _for7(self, s, rest, tail):
        (it, te), binds0 = self.scoped(lambda: self.iter_of(s.iter))
        var = s.target.id if isinstance(s.target, ast.Name) else "p0"
        env_t, lets, _ = self._bind_target(s.target, te, var)
        from .translate_t4 import _assigned4
        names = _assigned4(s.body)
        for x_ in env_t:
            if x_ in names:
                raise TranslateError("loop variable reassigned")
        state = [x_ for x_ in names if x_ in self.env]
        if not state:
            raise TranslateError("loop without effect")
        tys = [self.env[x_] for x_ in state]
        st_ty = " × ".join(f"({t})" for t in tys)

        def proj(i):
            if len(state) == 1:
                return "st"
            return "st" + ".2" * i + ("" if i == len(state) - 1 else ".1")

        def tup(t):
            for x_, ty in zip(state, tys):
                if t.env.get(x_) != ty:
                    raise TranslateError(f"loop changes the type of {x_}")
            return "(" + ", ".join(state) + ")" if len(state) > 1 else state[0]
        binds = "".join(f"let {x_} : {t} := {proj(i)}\n    " for i, (x_, t) in enumerate(zip(state, tys)))
        lets_nl = lets.replace("; ", "\n    ")
        inner = self.sub(env_t)
        after = binds.replace("\n    ", "\n  ")
        init = "(" + ", ".join(state) + ")" if len(state) > 1 else state[0]
        # first try the body as a pure fold; if it needs binds, as a raising fold
        body = None
        if True:
            save_partial = inner.partial
            try:
                inner.partial = False
                n_before = len(self.rets)
                body = inner.block(s.body, tail=tup)
                effectful = False
            except NeedPartial:
                del self.rets[n_before:]
                if not self.partial:
                    raise
                inner.partial = True
                body = inner.block(s.body, tail=lambda t: ok(tup(t)))
                effectful = True
            finally:
                inner.partial = save_partial
        cont = self.block(rest, tail)
        if effectful:
            text = (f"Except.bind (OQ.Py.foldlE (fun (st : {st_ty}) ({var} : {te}) =>\n    {binds}{lets_nl}{body}) "
                    f"{init} {it}) (fun (st : {st_ty}) =>\n  {after}{cont})")
        else:
            text = (f"let st : {st_ty} := {it}.foldl (fun (st : {st_ty}) ({var} : {te}) =>\n    {binds}{lets_nl}{body}) "
                    f"{init}\n  {after}{cont}")
        return self.wrap_binds(binds0, text)


HEADER = '''-- generated by harness/translate_t7.py from /repo's current source (operators/_pauli_operators.py) — do not edit
import OQ.Exec.Py
import OQ.Model.Pauli
set_option linter.unusedVariables false
namespace OQ.Generated.TranslatedPauli
open OQ.Pauli

/-- a Python str that is one of ALLOWED_OPERATORS: `some X | some Y | some Z`, `none` = "I" -/
abbrev Letter := Option P

/-- `ord(letter)` (CPython's values, computed at generation time) -/
def ordL : Letter → Int
  | some P.X => {ordX} | some P.Y => {ordY} | some P.Z => {ordZ} | none => {ordI}

/-- the state of a `PauliTerm` object: the attributes `PauliTerm.__init__` assigns, in source order -/
structure PTerm (R : Type) where
  _ops : OQ.Py.Dict Nat Letter
  coefficient : R

/-- the state of a `PauliSum` object: its single attribute `terms` -/
abbrev PSum (R : Type) := List (PTerm R)

/-- `Union[PauliTerm, PauliSum, int, float, complex]` (what `_validate_type` accepts) -/
inductive PVal (R : Type) where
  | num (x : R)
  | term (t : PTerm R)
  | sum (s : PSum R)

/-- what the code takes from numpy / float arithmetic / CPython's set implementation -/
structure Ext (R : Type) where
  /-- `np.isclose(a, b)` -/
  isclose : R → R → Bool
  /-- `np.allclose(a, b)` -/
  allclose : R → R → Bool
  /-- `a / b` on numbers (`none` = ZeroDivisionError) -/
  truediv : R → R → Option R
  /-- `a == b` on two numbers -/
  num_eq : R → R → Bool
  /-- the order in which `for i in s` yields a set of ints (argument: its distinct elements in insertion order) -/
  set_iter : List Nat → List Nat

variable {R : Type} [Zero R] [One R] [Add R] [Mul R] [Neg R]

def natTo : Nat → R
  | 0 => 0
  | n + 1 => natTo n + 1
def intTo : Int → R
  | .ofNat n => natTo n
  | .negSucc n => -(natTo (n + 1))
/-- the complex constant `re + im·j` with integer parts -/
def cplx (k : OQ.Scal R) (re im : Int) : R := intTo re + k.i * intTo im

'''


def _const_text(mod, name):
    from fractions import Fraction
    if name == "ALLOWED_OPERATORS":
        vals = list(mod.ALLOWED_OPERATORS)
        if not all(v in LET for v in vals):
            raise TranslateError(f"ALLOWED_OPERATORS = {vals!r}")
        return ("/-- `ALLOWED_OPERATORS` (current value) -/\ndef ALLOWED_OPERATORS : List Letter := ["
                + ", ".join(LET[v] for v in vals) + "]\n")
    if name == "OPERATOR_MAP":
        items = list(mod.OPERATOR_MAP.items())
        if not all(isinstance(q, int) and v in LET for q, v in items):
            raise TranslateError(f"OPERATOR_MAP = {mod.OPERATOR_MAP!r}")
        return ("/-- `OPERATOR_MAP` (current value, insertion order) -/\ndef OPERATOR_MAP : OQ.Py.Dict Int Letter := ["
                + ", ".join(f"(({q} : Int), ({LET[v]} : Letter))" for q, v in items) + "]\n")
    if name == "COEFF_MAP":
        out = []
        for key, v in mod.COEFF_MAP.items():
            z = complex(v)
            re, im = Fraction(z.real), Fraction(z.imag)
            if not (isinstance(key, str) and all(c in LET for c in key) and re.denominator == 1 and im.denominator == 1):
                raise TranslateError(f"COEFF_MAP[{key!r}] = {v!r}")
            out.append("([" + ", ".join(LET[c] for c in key) + f"], cplx k ({int(re)}) ({int(im)}))")
        return ("/-- `COEFF_MAP` (current value, insertion order) -/\ndef COEFF_MAP (k : OQ.Scal R) : OQ.Py.Dict (List Letter) R := ["
                + ", ".join(out) + "]\n")
    raise TranslateError(name)


# the variants requested (the roots; everything they call is generated on demand)
ROOTS = [
    ("PauliTerm", "__init__", [OPSD, OPTNUM]),
    ("PauliTerm", "identity", []),
    ("PauliTerm", "copy", [OPTNUM]),
    ("PauliTerm", "qubits", []),
    ("PauliTerm", "operations", []),
    ("PauliTerm", "__len__", []),
    ("PauliTerm", "__getitem__", [NAT]),
    ("PauliTerm", "__iter__", []),
    ("PauliTerm", "is_constant", []),
    ("PauliTerm", "n_qubits", []),
    ("PauliTerm", "is_ising", []),
    ("PauliTerm", "_multiply_by_operator", [LETTER, NAT]),
    ("PauliTerm", "__mul__", [NUM]), ("PauliTerm", "__mul__", [TERM]),
    ("PauliTerm", "__rmul__", [NUM]), ("PauliTerm", "__truediv__", [NUM]),
    (None, "_efficient_exponentiation", [TERM, INT]),
    ("PauliTerm", "__pow__", [INT]),
    ("PauliSum", "__init__", [LTERMS]),
    ("PauliSum", "__len__", []),
    ("PauliSum", "simplify", []),
    ("PauliSum", "identity", []),
    ("PauliSum", "is_constant", []),
    ("PauliSum", "qubits", []),
    ("PauliSum", "n_qubits", []),
    ("PauliSum", "__mul__", [SUM]), ("PauliSum", "__mul__", [TERM]), ("PauliSum", "__mul__", [NUM]),
    ("PauliTerm", "__mul__", [SUM]), ("PauliTerm", "__mul__", [VAL]), ("PauliSum", "__mul__", [VAL]),
    ("PauliSum", "__rmul__", [NUM]), ("PauliSum", "__truediv__", [NUM]),
    (None, "_efficient_exponentiation", [SUM, INT]),
    ("PauliSum", "__pow__", [INT]),
    ("PauliSum", "__add__", [SUM]), ("PauliSum", "__add__", [TERM]), ("PauliSum", "__add__", [NUM]), ("PauliSum", "__add__", [VAL]),
    ("PauliSum", "__radd__", [NUM]),
    ("PauliTerm", "__add__", [SUM]), ("PauliTerm", "__add__", [TERM]), ("PauliTerm", "__add__", [NUM]), ("PauliTerm", "__add__", [VAL]),
    ("PauliTerm", "__radd__", [NUM]),
    ("PauliTerm", "__sub__", [VAL]), ("PauliSum", "__sub__", [VAL]),
    ("PauliTerm", "__rsub__", [NUM]), ("PauliSum", "__rsub__", [NUM]),
    ("PauliTerm", "__eq__", [TERM]), ("PauliTerm", "__eq__", [NUM]),
    (None, "_validate_type", [VAL]),
]


def translate(module=None):
    """-> (lean text of OQ/Generated/TranslatedC03.lean, {lean name: info}, {root description: error})"""
    if module is None:
        import orquestra.quantum.operators._pauli_operators as module
    gen = Gen(module)
    gen.constants = set()
    notes = {}
    for cls, meth, args in ROOTS:
        try:
            gen.variant(cls, meth, args)
        except TranslateError as e:
            notes[f"{cls + '.' if cls else ''}{meth}({', '.join(KIND.get(a, a) for a in args)})"] = str(e)
    head = HEADER
    for c in "XYZI":
        head = head.replace("{ord" + c + "}", str(ord(c)))
    consts = ""
    for name in ("ALLOWED_OPERATORS", "OPERATOR_MAP", "COEFF_MAP"):
        if name in gen.constants:
            try:
                consts += _const_text(module, name) + "\n"
            except TranslateError as e:
                consts += f"-- {name}: NOT TRANSLATABLE ({e})\n\n"
    body = "\n".join(gen.order)
    tail = "".join(f"-- {k}: NOT TRANSLATABLE ({v}) — the current source left the supported subset\n" for k, v in notes.items())
    text = head + consts + body + "\n" + tail + "end OQ.Generated.TranslatedPauli\n"
    return text, {i["lean"]: i for i in gen.done.values()}, notes
