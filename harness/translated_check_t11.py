"""Validation of harness/translate_t11.py (work package T11) on its own translated definitions.

As in harness/translated_check_opaque.py: for every function `GLUE[name]` gives
  * `lean`: the body of a driver handler (generated into lean/OQ/Generated/TranslatedDriverT11.lean, compiled into `oqdriver`, prop tag
    "TRT11") that instantiates the opaque types with JSON terms and the externals with table look-ups / free constructors – RAISING
    externals with functions into `Option` that raise exactly where the Python stand-ins do – and runs the TRANSLATED definition;
  * `gen`: rng -> (payload, thunk); the thunk calls the PYTHON FUNCTION ITSELF (from the tree under test; module globals such as
    `EstimationTask`, `ExpectationValues`, `Circuit`, `H`, `RZ`, `ControlledGate` replaced by stand-ins through a copy of the function
    object) on stand-in objects with the same behaviour and returns the same JSON value; `None` = the Python raises one of the
    exceptions the translation renders as `none` (ValueError, RuntimeError, IndexError, UnboundLocalError, or the stand-ins' own
    `Raised` for a raising external).
A disagreement means the translator misrenders the code: INTERNAL-ERROR (exit 2), never a verdict about /repo."""
import json
import random
import signal
import warnings

from . import common
from .translated_check_opaque import Term, Gate, Op, patched, _HEADER

PROP_TAG = "TRT11"


def J(x):
    """JSON value of a stand-in (any object with a term `.t`) / container of stand-ins"""
    if isinstance(x, (list, tuple)):
        return [J(v) for v in x]
    if hasattr(x, "tolist"):
        return J(x.tolist())
    if hasattr(x, "t") and not isinstance(x, (str, int, float, dict)):
        return J(x.t)
    return x


class Raised(Exception):
    """raised by the stand-ins of raising externals"""


# ------------------------------------------------------------------ stand-ins
class PTerm:
    def __init__(self, c):
        self.coefficient = c


class POp:
    def __init__(self, j):
        self.j = j
        self.is_constant = j["const"]
        self.terms = [PTerm(c) for c in j["terms"]]


class PCirc:
    def __init__(self, t):
        self.t = t

    def bind(self, m):
        return PCirc(["bind", self.t, m])


class PTask:
    def __init__(self, j=None, operator=None, circuit=None, number_of_shots=None):
        if j is not None:
            operator, circuit, number_of_shots = POp(j["op"]), PCirc(j["circ"]), j["shots"]
        self.operator, self.circuit, self.number_of_shots = operator, circuit, number_of_shots

    def json(self):
        return {"op": self.operator.j, "circ": self.circuit.t, "shots": self.number_of_shots}


class PMeas:
    def __init__(self, t):
        self.t = t

    def get_expectation_values(self, op):
        if not op.j["ising"]:
            raise Raised()
        return Term(["ev", self.t, op.j["id"]])


class PRunner:
    def __init__(self, fail, drop):
        self.fail, self.drop = fail, drop

    def run_batch_and_measure(self, circuits, shots):
        circuits, shots = list(circuits), list(shots)
        if self.fail or any(n is None or n <= 0 for n in shots):
            raise Raised()
        out = [PMeas(["m", c.t, n]) for c, n in zip(circuits, shots)]
        return out[:max(len(out) - self.drop, 0)]

    def get_exact_expectation_values(self, circuit, operator):
        if (circuit.t + operator.j["id"]) % 5 == 0:
            raise Raised()
        return circuit.t * 10 + operator.j["id"]


def _ev(values, correlations=None, estimator_covariances=None):
    return Term(["EV", J(values), J(correlations), J(estimator_covariances)])


class Circ11:
    """circuit with VALUE semantics (no __iadd__) and `inverse()`"""

    def __init__(self, ops=None):
        self.ops = list(ops or [])

    def __add__(self, other):
        if isinstance(other, Circ11):
            return Circ11(self.ops + other.ops)
        return Circ11(self.ops + [other])

    def inverse(self):
        return Circ11([Term(["inv", J(self.ops)])])


class Time11:
    def __init__(self, t):
        self.t = t

    def __rmul__(self, k):
        return Time11(["mul", k, self.t])

    def __mul__(self, x):
        return Time11(["mulr", self.t, x])

    def __truediv__(self, k):
        return Time11(["div", self.t, k])


class PPauli:
    def __init__(self, j):
        self.j = j
        self.qubits = set(j["qubits"])
        self.is_constant = j["const"]
        self.coefficient = complex(j["coeff"]["re"], 1.0 if j["coeff"]["big"] else 1e-12)
        self.operations = frozenset(range(j["nops"]))

    def __getitem__(self, q):
        return dict((a, b) for a, b in self.j["letters"]).get(q, "I")


class CGate(Gate):
    """gate whose `.controlled(k)` raises for k < 1 (as ControlledGate.__post_init__ does)"""

    def __init__(self, t, k=0):
        super().__init__(t)
        self.num_control_qubits = k

    def controlled(self, k):
        if k < 1:
            raise ValueError("k < 1")
        return CGate(["ctl", self.t, k])


class CtlGate(CGate):
    pass


# ------------------------------------------------------------------ generators
def _op_json(r, k):
    return {"id": k, "const": r.random() < 0.3, "ising": r.random() < 0.85, "terms": [r.randrange(-4, 5) for _ in range(r.randrange(0, 4))]}


def _tasks(r, lo=0, hi=6):
    return [{"op": _op_json(r, k), "circ": r.randrange(0, 50), "shots": r.choice([None, 0, 0, 3, 7, 20, -1] if r.random() < 0.5 else [0, 5, 9])}
            for k in range(r.randrange(lo, hi))]


def _gen_eec(fn, r):
    tasks = _tasks(r)
    k = r.choice([0, 1, 1, len(tasks), len(tasks), len(tasks) + 1, 2])
    maps = [f"m{i}" for i in range(k)]
    f = patched(fn, EstimationTask=lambda operator, circuit, number_of_shots: PTask(None, operator, circuit, number_of_shots))
    coll = maps if r.random() < 0.5 else tuple(maps)
    return {"tasks": tasks, "maps": maps}, lambda: [t.json() for t in f([PTask(t) for t in tasks], coll)]


def _gen_nm(fn, r):
    tasks = _tasks(r)
    f = patched(fn, ExpectationValues=_ev)
    return {"tasks": tasks}, lambda: J(f([PTask(t) for t in tasks]))


def _gen_avg(fn, r, split=None, nm=None):
    tasks = _tasks(r)
    run = {"fail": r.random() < 0.1, "drop": r.choice([0, 0, 0, 0, 1])}
    g = dict(ExpectationValues=_ev, expectation_values_to_real=lambda x: Term(["real", J(x)]))
    from orquestra.quantum.estimation import _estimation as est
    g["evaluate_non_measured_estimation_tasks"] = patched(est.evaluate_non_measured_estimation_tasks, ExpectationValues=_ev)
    f = patched(fn, **g)
    return {"tasks": tasks, "runner": run}, lambda: J(f(PRunner(run["fail"], run["drop"]), [PTask(t) for t in tasks]))


def _gen_exact(fn, r):
    tasks = _tasks(r)
    f = patched(fn, ExpectationValues=_ev)
    return {"tasks": tasks}, lambda: J(f(PRunner(False, 0), [PTask(t) for t in tasks]))


def _gen_term(fn, r):
    import types
    n = r.randrange(0, 5)
    qs = r.sample(range(9), n)
    letters = [[q, r.choice("XYZ")] for q in qs]
    j = {"qubits": qs, "order": None, "const": (n == 0) if r.random() < 0.9 else r.random() < 0.5,
         "coeff": {"re": r.randrange(-5, 6), "big": r.random() < 0.15}, "nops": n if r.random() < 0.8 else r.randrange(0, 6),
         "letters": letters if r.random() < 0.9 else letters[:-1]}
    term = PPauli(j)
    j["order"] = list(term.qubits)  # the iteration order of THIS set object
    f = patched(fn, Circuit=lambda: Circ11(), H=lambda q: Term(["H", q]), CNOT=lambda a, b: Term(["CNOT", a, b]),
                RX=lambda a: Gate(["RX", J(a)]), RZ=lambda a: Gate(["RZ", J(a)]),
                np=types.SimpleNamespace(pi=Time11("pi")))  # `np.pi / 2` stays symbolic: ["div", "pi", 2]
    return {"term": j, "time": "t"}, lambda: J(f(term, Time11("t")).ops)


def _gen_u3(fn, r):
    params = [r.randrange(1, 9) for _ in range(r.choice([3, 3, 3, 3, 2, 4, 0]))]
    ctrl = r.random() < 0.5
    k = r.choice([1, 2, 3, 0]) if ctrl else r.randrange(0, 3)
    qs = [r.randrange(0, 9) for _ in range(r.randrange(1, 4))]
    op = Op(None, (CtlGate if ctrl else CGate)("g", k), qs)
    op.params = tuple(params)
    f = patched(fn, RZ=lambda p: CGate(["RZ", p]), RY=lambda p: CGate(["RY", p]), ControlledGate=CtlGate)
    return {"params": params, "gate": {"ctrl": ctrl, "k": k}, "qs": qs}, lambda: J(list(f(None, op)))


# ------------------------------------------------------------------ Lean handler bodies
_TASKS = 'let tasks ← arrOfJson (← field j "tasks"); '
_SHOTS = '(fun (t : Json) => ((getF t "shots").getInt?).toOption)'
_NM = ('(fun (t : Json) => getF t "op") ' + _SHOTS + ' (fun (o : Json) => getB o "const") (fun (o : Json) => getInts o "terms") '
       '(fun (c : Int) => c) (fun (a b : Int) => a + b) (fun (n : Int) => n) (0 : Int) jis (fun (m : List (List Int)) => jarr (m.map jis)) '
       '(fun (v : Json) (c e : List Json) => tag "EV" [v, jarr c, jarr e])')
_RUNNER = ('(fun (rn : Json) (cs : List Json) (ns : List (Option Int)) => '
           'if getB rn "fail" || ns.any (fun n => match n with | none => true | some k => decide (k ≤ 0)) then none else '
           'let out := (List.zip cs ns).map (fun p => tag "m" [p.1, optJ ji p.2]); '
           'some (out.take (out.length - (((getF rn "drop").getInt?).toOption.getD 0).toNat)))')

GLUE = {
    "evaluate_estimation_circuits": {
        "gen": _gen_eec,
        "lean": _TASKS + 'let maps ← arrOfJson (← field j "maps"); '
        'pure (optJ jarr (Translated.evaluate_estimation_circuits (fun (t : Json) => getF t "op") (fun (t : Json) => getF t "circ") '
        + _SHOTS + ' (fun (c m : Json) => tag "bind" [c, m]) '
        '(fun (o c : Json) (s : Option Int) => Json.mkObj [("op", o), ("circ", c), ("shots", optJ ji s)]) tasks maps))'},
    "evaluate_non_measured_estimation_tasks": {
        "gen": _gen_nm,
        "lean": _TASKS + f'pure (optJ jarr (Translated.evaluate_non_measured_estimation_tasks {_NM} tasks))'},
    "estimate_expectation_values_by_averaging": {
        "gen": _gen_avg,
        # `full[i] = v` is rendered as `List.set` (documented index domain 0 <= i < len, as in translate.py): an IndexError of the item
        # assignment is OUTSIDE the domain of the translated definition – such cases are not compared
        "outside": (IndexError,),
        "lean": _TASKS + 'let rn ← field j "runner"; '
        'pure (optJ (fun (l : List (Option Json)) => jarr (l.map (optJ id))) (Translated.estimate_expectation_values_by_averaging '
        f'(fun (t : Json) => getB (getF t "op") "const") {_NM} (fun (t : Json) => getF t "circ") {_RUNNER} '
        '(fun (m o : Json) => if getB o "ising" then some (tag "ev" [m, getF o "id"]) else none) (fun (x : Json) => tag "real" [x]) '
        'rn tasks))'},
    "calculate_exact_expectation_values": {
        "gen": _gen_exact,
        "lean": _TASKS + 'pure (optJ jarr (Translated.calculate_exact_expectation_values '
        '(fun (t : Json) => ((getF t "circ").getInt?).toOption.getD 0) (fun (t : Json) => ((getF (getF t "op") "id").getInt?).toOption.getD 0) '
        '(fun (_ : Unit) (c o : Int) => if Int.fmod (c + o) 5 == 0 then none else some (c * 10 + o)) jis '
        '(fun (v : Json) => tag "EV" [v, Json.null, Json.null]) () tasks))'},
    "time_evolution_for_term": {
        "gen": _gen_term,
        "lean": 'let term ← field j "term"; let time ← field j "time"; '
        'pure (optJ jarr (Translated.time_evolution_for_term ([] : List Json) (fun (t : Json) => getInts t "order") '
        '(fun (t : Json) => getB t "const") (fun (t : Json) => getF t "coeff") (fun (c : Json) => c) (fun (c : Json) => getF c "re") '
        '(fun (x : Json) => x) Json.null (fun (a _b : Json) => getB a "big") '
        '(fun (t : Json) (q : Int) => (match (((getF t "letters").getArr?).toOption.getD #[]).toList.find? '
        '(fun (p : Json) => ((p.getArrVal? 0).toOption.bind (fun x => (x.getInt?).toOption)) == some q) with '
        '| some p => (((p.getArrVal? 1).toOption.bind (fun x => (x.getStr?).toOption)).getD "I").toList | none => ("I").toList)) '
        '(fun (q : Int) => tag "H" [ji q]) (fun (c : List Json) (o : Json) => c ++ [o]) (Json.str "pi") '
        '(fun (x : Json) (m : Int) => tag "div" [x, ji m]) (fun (a : Json) => tag "RX" [a]) (fun (g : Json) (q : Int) => tag "op" [g, jis [q]]) '
        '(fun (t : Json) => getF t "nops") (fun (n : Json) => (n.getInt?).toOption.getD 0) (fun (m : Int) (x : Json) => tag "mul" [ji m, x]) '
        '(fun (x q : Json) => tag "mulr" [x, q]) (fun (a : Json) => tag "RZ" [a]) (fun (a b : Int) => tag "CNOT" [ji a, ji b]) '
        '(fun (c : List Json) => [tag "inv" [jarr c]]) (fun (a b : List Json) => a ++ b) term time))'},
    "u3_production": {
        "gen": _gen_u3,
        "lean": 'let ps ← listOfJson intOfJson (← field j "params"); let g ← field j "gate"; let qs ← listOfJson intOfJson (← field j "qs"); '
        'pure (optJ jarr (Translated.u3_production (fun (_ : Json) => ps) (fun (p : Int) => tag "RZ" [ji p]) (fun (p : Int) => tag "RY" [ji p]) '
        '(fun (x : Json) => getB x "ctrl") (fun (_ : Json) => g) (fun (x : Json) => ((getF x "k").getInt?).toOption.getD 0) '
        '(fun (x : Json) (k : Int) => if k < 1 then none else some (tag "ctl" [x, ji k])) (fun (_ : Json) => qs) '
        '(fun (x : Json) (l : List Int) => tag "op" [x, jis l]) () Json.null))'},
}


def t11_specs():
    from . import tables
    out = []
    for prop, lst in sorted(tables._specs().items()):
        for spec in lst:
            if len(spec) > 5 and "t11" in spec[5] and spec[1] in GLUE:
                out.append((prop, spec))
    return out


def _translatable(spec):
    from . import tables
    fn, name, args, ret, partial, opt = spec
    try:
        tables._translate(fn, name, args, ret, partial, opt)
        return True
    except Exception:
        return False


def driver_text():
    """lean/OQ/Generated/TranslatedDriverT11.lean: handlers for the T11 definitions that are translatable now"""
    good = [(prop, spec) for prop, spec in t11_specs() if _translatable(spec)]
    out = ["-- generated by harness/translated_check_t11.py — do not edit", "import OQ.Exec.Proto"]
    out += [f"import OQ.Generated.Translated{p}" for p in sorted({p for p, _ in good})]
    out += [_HEADER.replace("OQ.TRT3.Driver", "OQ.TRT11.Driver"), "def handle (op : String) (j : Json) : Except String Json := do",
            "  match op with"]
    for _, spec in good:
        out.append(f'  | "{spec[1]}" => {GLUE[spec[1]]["lean"]}')
    out += ['  | _ => throw s!"no translated definition {op}"', "", "end OQ.TRT11.Driver"]
    return "\n".join(out) + "\n"


class _CpuTimeout(Exception):
    pass


def _guarded(thunk, seconds=2.0, outside=()):
    def onalarm(signum, frame):
        raise _CpuTimeout()
    old = signal.signal(signal.SIGVTALRM, onalarm)
    signal.setitimer(signal.ITIMER_VIRTUAL, seconds)
    try:
        with warnings.catch_warnings():
            warnings.simplefilter("ignore")
            return True, thunk()
    except (ValueError, RuntimeError, IndexError, UnboundLocalError, Raised) as e:
        if isinstance(e, RecursionError):
            return False, "recursion limit"
        if outside and isinstance(e, outside):
            return False, "outside the documented index domain"
        return True, None  # the exceptions the translation renders as `none`
    except _CpuTimeout:
        return False, "cpu-time limit"
    except Exception as e:  # outside the domain of the stand-ins (e.g. a mutated function touching other attributes)
        return False, repr(e)[:100]
    finally:
        signal.setitimer(signal.ITIMER_VIRTUAL, 0)
        signal.signal(signal.SIGVTALRM, old)


def run(seed=0, per_fn=60, only=None):
    """returns (comparisons, disagreements, untranslatable names, not-compared count)"""
    common.use_repo()
    rng = random.Random(f"translated-t11:{seed}")
    reqs, want, skipped, dropped = [], [], [], 0
    for prop, spec in t11_specs():
        if only and prop != only:
            continue
        fn, name = spec[0], spec[1]
        if not _translatable(spec):
            skipped.append(name)
            continue
        for _ in range(per_fn):
            payload, thunk = GLUE[name]["gen"](fn, rng)
            ok, val = _guarded(thunk, outside=GLUE[name].get("outside", ()))
            if not ok:
                dropped += 1
                continue
            reqs.append((name, payload))
            want.append(val)
    drv = common.Driver(PROP_TAG)
    if not drv.available():
        return 0, ["model driver not built"], skipped, dropped
    got = drv.run(reqs) if reqs else []
    bad = []
    for (name, payload), w, g in zip(reqs, want, got):
        if json.loads(json.dumps(w)) != g:
            bad.append(f"{name} {json.dumps(payload)[:400]}: python {json.dumps(w)[:300]}, translated definition {json.dumps(g)[:300]}")
    return len(reqs), bad, skipped, dropped


if __name__ == "__main__":
    n, bad, sk, dr = run()
    print(n, "comparisons;", len(bad), "disagreements; untranslatable:", sk, "; not compared:", dr)
    for b in bad[:20]:
        print("  ", b)
