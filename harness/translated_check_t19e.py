"""T19 self-check, C03 part (used by harness/translated_check_t19.py): the definitions of lean/OQ/Generated/TranslatedC03Eq.lean against the
REAL methods on real `PauliTerm` / `PauliSum` objects (operands and encodings are those of T7's self-check: coefficients k/8 + (l/8)i and
neighbours at 2^-16 … 2^-30, so float arithmetic is exact and no coefficient sits on a tolerance / rounding boundary):

  * `PauliSum.__eq__(PauliSum)`: the real `==` (CPython's own set of the real hashes); the Lean side runs the explicit hash-bucket set
    with a stand-in for `hash` (the hashed tuple in canonical text form, its two ints through CPython's `hash(int)`: `hash(-1) == -2`
    makes (-1, …) and (-2, …) collide, which decides the answer for coefficients near -1.5e-6) – the two agree unless CPython's 61-bit
    tuple hash collides on tuples whose component hashes differ;
  * `PauliTerm.__hash__`, `PauliSum.__hash__`: the real methods with the module-level name `hash` bound to that same canonical text form
    for the duration of the call (so what is compared is the tuple that is hashed / the tuple of term hashes);
  * `PauliSum.constant_term`: the real property, exact value."""
from fractions import Fraction

from . import translated_check_t7 as c7
from .tables_t7 import SUM, TERM

PER_FUNCTION = 60


def _hash_text(x, mod):
    """the stand-in `hash` of the glue (harness/tables_t19e.py: hashText / hashTupleText)"""
    import json
    if isinstance(x, tuple) and len(x) == 3 and isinstance(x[2], frozenset):
        a, b, ops = x
        if not (isinstance(a, int) and isinstance(b, int)):
            raise c7.Unexpected("round() did not return an int")
        return json.dumps([int.__hash__(a), int.__hash__(b), [[q, p] for q, p in sorted(ops)]], separators=(",", ":"))
    if isinstance(x, tuple) and all(type(t) is mod.PauliTerm for t in x):
        return "[" + ",".join(t.__hash__() for t in x) + "]"
    raise c7.Unexpected(f"hash() of a {type(x).__name__}")


class _PatchedHash:
    def __init__(self, mod):
        self.mod = mod

    def __enter__(self):
        self.mod.hash = lambda x: _hash_text(x, self.mod)

    def __exit__(self, *a):
        del self.mod.hash


def cases_c03(rng):
    from orquestra.quantum.operators import _pauli_operators as po
    out = {k: [] for k in ("term_hash", "sum_eq_sum", "sum_hash", "sum_constant_term")}

    class Info(dict):
        pass
    eq_info = {"meth": "__eq__"}
    for _ in range(PER_FUNCTION):
        t = c7._term(rng, tiny=True)
        if rng.random() < 0.3:      # a coefficient whose scaled parts are half-integers: `round` half to even
            t = (t[0], (Fraction(rng.choice([1, 3, 5, -1, -3, 25]), 2 * 10 ** 6), Fraction(rng.choice([0, 1, 3, -5]), 2 * 10 ** 6), "complex"))

        def th(t=t):
            with _PatchedHash(po):
                return c7._py(po, TERM, t).__hash__()
        out["term_hash"].append(({"a0": c7._json(TERM, t)}, th))
        s = c7._sum(rng, tiny=True)

        def sh(s=s):
            with _PatchedHash(po):
                return c7._py(po, SUM, s).__hash__()
        out["sum_hash"].append(({"a0": c7._json(SUM, s)}, sh))
        out["sum_constant_term"].append(({"a0": c7._json(SUM, s)}, lambda s=s: c7._coef(c7._py(po, SUM, s).constant_term)))
    for _ in range(2 * PER_FUNCTION):
        s1 = c7._sum(rng, tiny=True)
        u = rng.random()
        if u < 0.3:       # a permutation, every dict rebuilt in another order
            s2 = [(rng.sample(ops, len(ops)), c) for ops, c in rng.sample(s1, len(s1))]
        elif u < 0.45:    # … with one coefficient moved by a tiny amount (inside / outside the tolerance)
            s2 = [(rng.sample(ops, len(ops)), c) for ops, c in rng.sample(s1, len(s1))]
            if s2:
                i = rng.randrange(len(s2))
                s2[i] = (s2[i][0], c7._near(rng, s2[i][1]))
        elif u < 0.6:     # duplicates: same length, different sets
            s2 = [rng.choice(s1) for _ in s1] if s1 else []
        elif u < 0.7:     # a term dropped / added
            s2 = s1[:-1] if s1 and rng.random() < 0.5 else s1 + [c7._term(rng)]
        elif u < 0.8:     # zero coefficients with different letters: equal as terms, different hashes
            s1 = s1 + [(c7._ops(rng, 1, 2), c7._zeroish(rng))]
            s2 = s1[:-1] + [(c7._ops(rng, 1, 2), c7._zeroish(rng))]
        else:
            s2 = c7._sum(rng, tiny=True)

        def eq(s1=s1, s2=s2):
            r = c7._py(po, SUM, s1) == c7._py(po, SUM, s2)
            if not isinstance(r, (bool,)) and type(r).__name__ != "bool_":
                raise c7.Unexpected(f"== returned a {type(r).__name__}")
            return bool(r)
        out["sum_eq_sum"].append(({"a0": c7._json(SUM, s1), "a1": c7._json(SUM, s2)}, eq))
    return out
