"""T8: validation of the `_serde.py` translator (harness/translate_t8.py).  Every definition of lean/OQ/Generated/TranslatedC05.lean that
translates now is run in the compiled driver (tag "TRT8", generated glue TranslatedDriverT8.lean) and compared with the PYTHON FUNCTION
IT WAS TRANSLATED FROM (imported from the tree under test) on seeded inputs:
  * writers: seeded REAL gate objects (built-in gates / prototypes with int and `sympy.Symbol` parameters, custom definitions, every
    wrapper, built with the real constructors), operations, definitions, circuits, circuit lists -> `to_dict` vs the translated
    overload, compared as JSON INCLUDING key order; `gate.name` vs `gate_name`;
  * readers: the dictionaries the writers wrote and single-site damaged copies (key dropped, name replaced, control count / width
    rejected, parameters added or removed, definition dropped or non-square) -> `_gate_from_dict`, `_builtin_gate_from_dict`,
    `_special_gate_from_dict`, `_custom_gate_instance_from_dict`, `_gate_operation_from_dict`, `custom_gate_def_from_dict`,
    `circuit_from_dict`, `circuitset_from_dict` vs the translated definitions: the structure of the object returned, or the class of the
    exception (`NotAGate`: the Python function returned an object that is no gate).
The Lean side runs under the instantiation of the tie theorems (`TS.X genEnv C0`) at the stand-in codec "a parameter is a decimal
numeral or a symbol name"; the Python side keeps the real sympy / `_builtin_gates` / `Circuit` / `CustomGateDefinition`.
The prelude functions standing for CPython built-ins (`sorted`, `str.endswith`, `in`, `<` on str) are compared with CPython as well.
A disagreement is a fault of the translator / prelude (INTERNAL-ERROR, exit 2, in run.py), never a verdict about /repo."""
import ast
import copy
import json
import random

from . import common

SYMS = ["a", "b", "c", "theta", "x1"]
FUEL = 40


# ---------------------------------------------------------------------------------------------------------------- encodings
def _p(x):
    import sympy
    return x.name if isinstance(x, sympy.Symbol) else str(x)


def enc_def(d):
    return {"gate_name": d.gate_name, "matrix": [[_p(e) if not hasattr(e, "is_Integer") or not e.is_Integer else str(int(e))
                                                  for e in d.matrix.row(i)] for i in range(d.matrix.shape[0])],
            "ordering": [s.name for s in d.params_ordering]}


def enc_gate(g):
    from orquestra.quantum.circuits import _gates
    if isinstance(g, _gates.MatrixFactoryGate):
        f = enc_def(g.matrix_factory.gate_definition) if isinstance(g.matrix_factory, _gates.CustomGateMatrixFactory) else None
        return {"cls": "MatrixFactoryGate", "args": [g.name, f, [_p(x) for x in g.params], str(g.num_qubits), bool(g.is_hermitian)]}
    if isinstance(g, _gates.ControlledGate):
        return {"cls": "ControlledGate", "args": [enc_gate(g.wrapped_gate), str(g.num_control_qubits)]}
    if isinstance(g, _gates.Dagger):
        return {"cls": "Dagger", "args": [enc_gate(g.wrapped_gate)]}
    if isinstance(g, _gates.Exponential):
        return {"cls": "Exponential", "args": [enc_gate(g.wrapped_gate)]}
    if isinstance(g, _gates.Power):
        return {"cls": "Power", "args": [enc_gate(g.wrapped_gate), repr(g.exponent)]}
    raise TypeError("not a gate")


def enc_op(o):
    return {"gate": enc_gate(o.gate), "qubits": [int(q) for q in o.qubit_indices]}


def enc_circ(c):
    return {"n": str(c.n_qubits), "ops": [enc_op(o) for o in c.operations]}


def jv(o, key=None):
    """a Python JSON value in the driver's tagged form (key order kept; an exponent is its repr)"""
    if isinstance(o, str):
        return o
    if isinstance(o, bool):
        raise TypeError("bool in a serialised circuit")
    if key == "exponent" and isinstance(o, (int, float)):
        return {"E": repr(o)}
    if isinstance(o, int):
        return {"I": str(o)}
    if isinstance(o, (list, tuple)):
        return [jv(x) for x in o]
    if isinstance(o, dict):
        return {"D": [[k, jv(v, k)] for k, v in o.items()]}
    raise TypeError(f"no JSON value: {o!r}")


def unjv(j):
    if isinstance(j, str):
        return j
    if isinstance(j, list):
        return [unjv(x) for x in j]
    if "I" in j:
        return int(j["I"])
    if "E" in j:
        return ast.literal_eval(j["E"])
    return {k: unjv(v) for k, v in j["D"]}


def _outcome(f, enc):
    try:
        r = f()
    except (KeyError, ValueError, TypeError, NotImplementedError) as e:
        return {"exc": type(e).__name__}
    except AttributeError:
        return {"exc": "NotAGate"}      # a constructor went on with an object that is no gate
    try:
        return {"ok": enc(r)}
    except (TypeError, AttributeError):
        return {"exc": "NotAGate"}


# ---------------------------------------------------------------------------------------------------------------- generators
def _param(r, p_sym):
    import sympy
    return sympy.Symbol(r.choice(SYMS)) if r.random() < p_sym else r.randrange(-3, 30)


def _defs(r):
    """a few real custom gate definitions (2x2 / 4x4, entries: ints and the formal parameters)"""
    import sympy
    from orquestra.quantum.circuits import _gates
    out = []
    for name in r.sample(["U", "V", "W", "Kx"], r.choice([0, 1, 2, 3])):
        ordering = [sympy.Symbol(s) for s in r.sample(["p", "q", "theta"], r.choice([0, 1, 2]))]
        n = r.choice([2, 2, 4])
        m = [[(r.choice(ordering) if ordering and r.random() < 0.3 else r.randrange(-2, 3)) for _ in range(n)] for _ in range(n)]
        out.append(_gates.CustomGateDefinition(name, sympy.Matrix(m), tuple(ordering)))
    return out


def _gate(r, defs, depth, p_sym):
    from orquestra.quantum.circuits import _builtin_gates as bg, _gates
    if depth <= 0 or r.random() < 0.3:
        k = r.random()
        if defs and k < 0.35:
            d = r.choice(defs)
            return d(*[_param(r, p_sym) for _ in d.params_ordering])
        if k < 0.65:
            return getattr(bg, r.choice(["X", "Y", "H", "S", "T", "CNOT", "SWAP", "ISWAP", "I"]))
        name, n = r.choice([("RX", 1), ("RY", 1), ("PHASE", 1), ("U3", 3), ("CPHASE", 1), ("XX", 1), ("GPi", 1), ("Delay", 1)])
        return getattr(bg, name)(*[_param(r, p_sym) for _ in range(n)])
    inner = _gate(r, defs, depth - 1, p_sym)
    for _ in range(4):
        try:
            w = r.choice(["c", "c", "d", "d", "e", "p"])
            if w == "c":
                return _gates.ControlledGate(inner, r.choice([1, 1, 2, 3]))
            if w == "d":
                return _gates.Dagger(inner)
            if w == "e":
                return _gates.Exponential(inner)
            return _gates.Power(inner, r.choice([2, 3, -1, 0.5, 0.25, 1.5]))
        except ValueError:
            continue
    return inner


def _circuit(r):
    from orquestra.quantum.circuits import _circuit, _gates
    defs = _defs(r)
    ops = []
    for _ in range(r.choice([0, 1, 2, 3, 5])):
        g = _gate(r, defs, r.choice([0, 1, 2, 3]), r.choice([0.0, 0.4]))
        ops.append(_gates.GateOperation(g, tuple(r.sample(range(6), min(6, max(1, g.num_qubits))))))
    n = r.choice([None, None, 6, 9]) if ops else r.choice([None, 0, 3])
    return _circuit.Circuit(ops, n), defs


def _damage(r, d):
    """one single-site change of a serialised dictionary (deep copy)"""
    d = copy.deepcopy(d)
    dicts = []

    def walk(x):
        if isinstance(x, dict):
            dicts.append(x)
            for v in x.values():
                walk(v)
        elif isinstance(x, list):
            for v in x:
                walk(v)
    walk(d)
    t = r.choice(dicts)
    k = r.random()
    if k < 0.35 and t:
        del t[r.choice(list(t))]
    elif k < 0.6 and "name" in t:
        t["name"] = r.choice(["Control", "X_Dagger", "Dagger", "Exponential", "X^2", "^", "FOO", "RX", "H", "U", "V", "_gates", "Callable",
                              "make_parametric_gate_prototype", "CNOT", "U_Dagger"])
    elif k < 0.7 and "num_control_qubits" in t:
        t["num_control_qubits"] = r.choice([0, -1, 1, 4])
    elif k < 0.8 and "n_qubits" in t:
        t["n_qubits"] = r.choice([0, -2, 1, 12])
    elif k < 0.9 and "name" in t:
        if "params" in t:
            r.choice([lambda: t.pop("params"), lambda: t["params"].append("a"), lambda: t.pop("free_symbols", None)])()
        else:
            t["params"] = ["2"]
    elif "matrix" in t:
        t["matrix"] = [row + ["0"] for row in t["matrix"]] if r.random() < 0.5 else t["matrix"] + [t["matrix"][0]] * 1
    elif "wrapped_gate" in t:
        t["exponent"] = 2
    return d


# ---------------------------------------------------------------------------------------------------------------- the comparison
def run(seed, only="C05"):
    """-> (number of comparisons, disagreements, functions not translatable now, listing for the evidence)"""
    from . import tables_t8, translate_t8 as t8
    from orquestra.quantum.circuits import _gates, _serde
    t, ops = tables_t8.available_ops()
    untranslatable = [f"{(t8.FUNCS[f][1] if f in t8.FUNCS else f)}: {why}"[:200] for f, why in t.failed.items()
                      if f in t8.FUNCS or f in (t8.FAMILY, "name")]
    listed = [f"circuits._serde.{f} -> TranslatedC05.{u['lean']}" for f, u in t.units.items()]
    driver = common.Driver("TRT8")
    r = random.Random(f"T8:{seed}")
    reqs, expect, what = [], [], []

    def add(op, payload, exp, desc):
        if op in ops or op.startswith("py_"):
            reqs.append((op, payload))
            expect.append(exp)
            what.append(desc)

    if not ops:
        return 0, [], untranslatable, listed
    # ---- prelude vs CPython
    words = ["", "a", "b", "ab", "ba", "x[3]", "x", "Dagger", "X_Dagger", "Dagger_", "^", "X^2", "a^", "theta", "Theta", "_", "é", "zz", "z"]
    for _ in range(40):
        l = [r.choice(words) for _ in range(r.randrange(0, 7))]
        add("py_sorted", {"l": l}, sorted(l), f"sorted({l})")
        s, u = r.choice(words), r.choice(words)
        add("py_endswith", {"s": s, "t": u}, s.endswith(u), f"{s!r}.endswith({u!r})")
        add("py_in", {"s": s, "t": u}, u in s, f"{u!r} in {s!r}")
        add("py_lt", {"s": s, "t": u}, s < u, f"{s!r} < {u!r}")
    # ---- gates
    for i in range(45):
        defs = _defs(r)
        g = _gate(r, defs, r.choice([0, 1, 2, 3, 4]), r.choice([0.0, 0.3, 0.6]))
        eg = enc_gate(g)
        add("gate_name", {"gate": eg}, g.name, f"name of {eg}")
        d = _serde.to_dict(g)
        add("to_dict_gate", {"gate": eg}, {"ok": jv(d)}, f"to_dict of {eg}")
        for k, dd in enumerate([d] + [_damage(r, d) for _ in range(4)]):
            use = defs if r.random() < 0.85 else defs[:-1]
            eu = [enc_def(x) for x in use]
            for op, fn in [("gate_from_dict", lambda: _serde._gate_from_dict(dd, use)),
                           ("special_gate_from_dict", lambda: _serde._special_gate_from_dict(dd, use)),
                           ("custom_gate_instance_from_dict", lambda: _serde._custom_gate_instance_from_dict(dd, use)),
                           ("builtin_gate_from_dict", lambda: _serde._builtin_gate_from_dict(dd))]:
                if op != "gate_from_dict" and k > 2:
                    continue
                add(op, {"dict": jv(dd), "defs": eu, "fuel": FUEL}, _outcome(fn, enc_gate), f"{op}({dd}, defs={[x['gate_name'] for x in eu]})")
    # ---- operations, definitions, circuits, circuit sets
    circuits = []
    for i in range(25):
        c, defs = _circuit(r)
        circuits.append(c)
        add("circuit_to_dict", {"circuit": enc_circ(c)}, _outcome(lambda: _serde.to_dict(c), jv), f"to_dict(circuit {enc_circ(c)})")
        for o in c.operations[:2]:
            od = _serde.to_dict(o)
            add("gate_operation_to_dict", {"op": enc_op(o)}, {"ok": jv(od)}, f"to_dict(op {enc_op(o)})")
            for dd in [od, _damage(r, od)]:
                add("gate_operation_from_dict", {"dict": jv(dd), "defs": [enc_def(x) for x in defs], "fuel": FUEL},
                    _outcome(lambda: _serde._gate_operation_from_dict(dd, defs), enc_op), f"_gate_operation_from_dict({dd})")
        for df in defs[:2]:
            fd = _serde.to_dict(df)
            add("custom_gate_def_to_dict", {"def": enc_def(df)}, {"ok": jv(fd)}, f"to_dict(def {enc_def(df)})")
            for dd in [fd, _damage(r, fd)]:
                add("custom_gate_def_from_dict", {"dict": jv(dd)}, _outcome(lambda: _serde.custom_gate_def_from_dict(dd), enc_def),
                    f"custom_gate_def_from_dict({dd})")
        try:
            cd = _serde.to_dict(c)
        except ValueError:
            continue
        for dd in [cd] + [_damage(r, cd) for _ in range(3)]:
            add("circuit_from_dict", {"dict": jv(dd), "fuel": FUEL}, _outcome(lambda: _serde.circuit_from_dict(dd), enc_circ),
                f"circuit_from_dict({dd})")
    # two definitions with one name and different matrices in one circuit: the ValueError of collect_custom_gate_definitions
    import sympy
    from orquestra.quantum.circuits import _circuit as _cm
    u1 = _gates.CustomGateDefinition("U", sympy.Matrix([[1, 0], [0, 1]]), ())
    u2 = _gates.CustomGateDefinition("U", sympy.Matrix([[0, 1], [1, 0]]), ())
    clash = _cm.Circuit([_gates.GateOperation(u1(), (0,)), _gates.GateOperation(_gates.Dagger(u2()), (1,))])
    add("circuit_to_dict", {"circuit": enc_circ(clash)}, _outcome(lambda: _serde.to_dict(clash), jv), "to_dict(two definitions named U)")
    for i in range(6):
        cs = [r.choice(circuits) for _ in range(r.randrange(0, 4))]
        add("circuitset_to_dict", {"circuits": [enc_circ(c) for c in cs]}, _outcome(lambda: _serde.to_dict(cs), jv), f"to_dict(list of {len(cs)})")
        try:
            sd = _serde.to_dict(cs)
        except ValueError:
            continue
        for dd in [sd, _damage(r, sd)]:
            add("circuitset_from_dict", {"dict": jv(dd), "fuel": FUEL},
                _outcome(lambda: _serde.circuitset_from_dict(dd), lambda l: [enc_circ(c) for c in l]), f"circuitset_from_dict({dd})")
    got = driver.run(reqs)
    bad = []
    for g, e, w, (op, _) in zip(got, expect, what, reqs):
        if g == {"exc": "NotAGate"} and op != "builtin_gate_from_dict":
            # `NotAGate` is no Python exception: the real function goes on with the object that is no gate (it may wrap it, or fail
            # later in some other way); only the non-recursive reader is compared on this outcome
            continue
        if g == {"exc": "NotAGate"} and e == {"exc": "TypeError"}:
            continue   # "calling" a looked-up object that is neither a gate nor a factory (a module, `typing.Callable`) with parameters
        # (the key order of the serialised dictionaries is part of what is compared: they travel as lists of pairs, `"D"`)
        if json.dumps(g, sort_keys=True) != json.dumps(e, sort_keys=True):
            bad.append(f"{w[:300]}: python {json.dumps(e)[:300]} / translated {json.dumps(g)[:300]}")
    return len(reqs), bad, untranslatable, listed
