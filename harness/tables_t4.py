"""T4: generated driver glue for the translated dictionary-valued definitions (see harness/translated_check_t4.py)."""
from .extract import table


@table("TranslatedDriverT4.lean")
def translated_driver_t4():
    from . import translated_check_t4
    return translated_check_t4.driver_text()
