"""Work package T15: measurement statistics written with numpy (C10) – `measurements._convert_bitstrings_to_vector`,
`get_expectation_value_from_frequencies`, `Measurements.get_expectation_values`, `parities.check_parity_of_vector`, translated by harness/translate_t15.py (numpy operations through the prelude `OQ.Py.np…`, which
is compared with numpy on every run; opaque operator / term objects with their attributes as parameters; `np.integer` test, `int(·)` and
`set.symmetric_difference` as external parameters).  The module is named `specs_t4_t15` so that its definitions are generated AFTER those
of specs_t4 (`measurements_get_counts`, which `get_expectation_values` calls) in OQ/Generated/TranslatedC10.lean.  Every definition is run
through the JSON driver (generated glue OQ/Generated/TranslatedDriverT15.lean, values at `Rat`) and compared with the Python function /
the real method by harness/translated_check_t15.py."""
PROPS = ["C10"]

NU = "ν"
LI = "List Int"
LLI = "List (List Int)"
LSTR = "List (List Char)"
CNT = "OQ.Py.Dict (List Char) Int"
A1I = "OQ.Py.Arr1 Int"
A2I = "OQ.Py.Arr2 Int"
A1N = "OQ.Py.Arr1 ν"
A2N = "OQ.Py.Arr2 ν"
A2O = "OQ.Py.Arr2 (Option ν)"
EV = f"({A1N}) × (List ({A2N})) × (List ({A2O}))"
X_ISNPINT = ("isinstance:np.integer", "ext_isinstance_np_integer", "ν → Bool")
X_INT = ("int", "ext_int", "ν → Int")
X_SYMM = ("set.symmetric_difference", "ext_symmetric_difference", "List Int → List Int → List Int")
OPAQUE = {"Ω": {"is_ising": "Bool", "terms": "List Τ"}, "Τ": {"coefficient": NU, "qubits": LI}}


def _all():
    from . import translate_t15 as t15
    from . import specs_t4
    from .tables import _resolve
    from orquestra.quantum.measurements import measurements as meas, parities as par
    tf = t15.translate_function
    K = specs_t4.K
    s4 = specs_t4._all()
    M = _resolve(meas, "Measurements")
    s = {}
    s["conv"] = (_resolve(meas, "_convert_bitstrings_to_vector"), "convert_bitstrings_to_vector", [LSTR], A2I, True,
                 {"translator": tf})
    s["cpv"] = (_resolve(par, "check_parity_of_vector"), "check_parity_of_vector", [A2I, LI], A1I, True, {"translator": tf})
    s["evff"] = (_resolve(meas, "get_expectation_value_from_frequencies"), "get_expectation_value_from_frequencies", [LI, CNT], NU, True,
                 {"translator": tf, "known": {"check_parity_of_vector": K(s["cpv"]), "_convert_bitstrings_to_vector": K(s["conv"])}})
    s["gev"] = (getattr(M, "get_expectation_values", None) or _resolve(meas, "Measurements.get_expectation_values"),
                "measurements_get_expectation_values", ["Ω", "Bool"], EV, True,
                {"translator": tf, "self_in": {"bitstrings": LLI}, "ext": [X_ISNPINT, X_INT, X_SYMM], "opaque_attrs": OPAQUE,
                 "records": {"ExpectationValues": [A1N, f"List ({A2N})", f"List ({A2O})"]},
                 "known": {"self.get_counts": K(s4["counts"]), "get_expectation_value_from_frequencies": K(s["evff"])}})
    return s


ORDER = ["conv", "cpv", "evff", "gev"]


def SPECS():
    s = _all()
    return {"C10": [s[k] for k in ORDER]}


def GENS():
    return {}
