"""T19 self-check: every definition of lean/OQ/Generated/TranslatedC11Text.lean (text forms of Pauli operators, C11) and of
lean/OQ/Generated/TranslatedC03Eq.lean (equality / hashing of Pauli operators, C03) that translates now is run in the compiled driver
(tags "TRT19" / "TRT19E", generated glue) on seeded inputs and compared with the REAL methods of the REAL classes:

  * `PauliTerm.__getitem__`, `__repr__`, `PauliSum.__len__`, `__repr__`: real objects; the Lean side gets the items of `_ops` in insertion
    order and the coefficient, and `str(number)` as a table recorded from CPython for exactly the numbers of the case;
  * `PauliTerm(text[, coefficient])`, `PauliSum(text)`: the real constructors with the module-level name `complex` bound to a recorder
    around the built-in for the duration of the call; the recorded table text -> value / ValueError is the Lean side's `ext_complex`
    (a text CPython was not asked about answers TypeError there, so the two sides disagree).

A disagreement means the regenerated definitions do not behave like the Python code they were translated from: harness/run.py reports it
through `tie_broken` (a broken tie; the run goes on to the failing-input search)."""
import random
import re
import warnings
from fractions import Fraction

from . import common
from .translated_check_t9 import R, enc_num

PER_FUNCTION = 40
DROPPED = []


def _num_key(z):
    return ("c", z.real, z.imag) if isinstance(z, complex) else ("r", Fraction(z))


def str_table(numbers):
    """`str(number)` for the numbers of a case; None when two numbers the Lean side cannot tell apart (an int and a float of equal
    value) print differently (such a case is not compared)"""
    tbl = {}
    for z in numbers:
        k = _num_key(z)
        if k in tbl and tbl[k][1] != str(z):
            return None
        tbl[k] = (enc_num(z), str(z))
    return [[e, s] for e, s in tbl.values()]


def enc_term(t):
    return {"ops": [[str(i), p] for i, p in t._ops.items()], "c": enc_num(t.coefficient)}


class _Recorder:
    """binds the module-level name `complex` of operators/_pauli_operators.py to a recorder for the duration of a call"""

    def __init__(self, po):
        self.po, self.table = po, {}

    def __enter__(self):
        def rec(s):
            try:
                v = complex(s)
            except ValueError:
                self.table[s] = None
                raise
            self.table[s] = v
            return v
        self.po.complex = rec
        return self

    def __exit__(self, *a):
        del self.po.complex

    def payload(self):
        return [[k, None if v is None else enc_num(v)] for k, v in self.table.items()]


def exc_or(thunk, conv):
    try:
        return {"ok": conv(thunk())}
    except (ValueError, IndexError, TypeError, KeyError) as e:
        return {"exc": type(e).__name__}


def cases_c11(rng):
    from orquestra.quantum.operators import _pauli_operators as po

    def dy():
        return Fraction(rng.randrange(-24, 25), 2 ** rng.randrange(0, 4))

    def coef():
        c = rng.random()
        if c < 0.15:
            return int(rng.randrange(-4, 5))
        if c < 0.55:
            return float(rng.choice([dy(), dy(), Fraction(1, 1000), Fraction(5, 2) * 10 ** 15]))
        return complex(float(dy()), float(rng.choice([Fraction(0), dy(), dy()])))

    def term():
        qs = rng.sample([0, 1, 2, 3, 5, 8, 12, 13, 107], rng.randrange(0, 5))
        return po.PauliTerm({q: rng.choice("XYZ") for q in qs}, coef())

    out = {k: [] for k in ("term_getitem", "term_init_str", "term_repr", "sum_len", "sum_repr", "sum_init_str")}
    for _ in range(PER_FUNCTION):
        t = term()
        i = rng.choice(list(t._ops) + [0, 4, 12]) if rng.random() < 0.7 else rng.randrange(0, 15)

        def getitem(t=t, i=i):
            with warnings.catch_warnings():
                warnings.simplefilter("ignore")
                return t[i]
        out["term_getitem"].append(({"t": enc_term(t), "i": str(i)}, getitem))
        tbl = str_table([t.coefficient])
        out["term_repr"].append(({"t": enc_term(t), "str": tbl}, lambda t=t: repr(t)))
        s = po.PauliSum([term() for _ in range(rng.choice([0, 0, 1, 2, 3, 4]))])
        out["sum_len"].append(({"terms": [enc_term(x) for x in s.terms]}, lambda s=s: str(len(s))))
        tbl = str_table([x.coefficient for x in s.terms] if s.terms else [0])
        if tbl is not None:
            def srepr(s=s):
                with _Recorder(po):
                    return {"ok": repr(s)}
            out["sum_repr"].append(({"terms": [enc_term(x) for x in s.terms], "str": tbl, "complex": [["I0", None]]}, srepr))

    coefs = ["2.0", "-0.5", "(1+2j)", "1+2j", "2j", "0", "1e-3", "(0.5-0.25j)", "( 1 + 2j )", "3", "abc", "", "1e+16", "(1e+16+1j)", "j",
             "(1+0j)", " 2.5 ", "(", "()", "1_0", "2.5e+15"]
    ops = ["Z0", "X12", "y3", "I", "I0", "i", "Z", "Z-1", "A1", "X1 ", "z007", "X0\n", "Z1a", "", "XX", "1", "Y5", "I7", "i2", "X107"]
    texts = ["2.0*I", "(1+2j)*Z0*X12", "Z0 * X1", "X0*X0", "1+2j*Z0", "", "abc*Z0", "Z0*2.0", " 0.5 * Y3 ", "I", "I*I", "2*I0", "*", "Z0*",
             "I0", "I0*I0", "I0*Z0", "I3*X3", "-1*Z3*Z4 ", "1e-3*X0 * I * Y2", "2j*Z1", "(2j)*Z1", "0*I", "x1*I1"]
    for _ in range(2 * PER_FUNCTION):
        parts = ([rng.choice(coefs)] if rng.random() < 0.6 else []) + [rng.choice(ops) for _ in range(rng.randrange(0, 4))]
        texts.append(rng.choice(["", " "]) + rng.choice(["*", " * ", "* ", " *"]).join(parts) + rng.choice(["", " "]))

    def term_case(s, c):
        with _Recorder(po) as r:
            want = exc_or(lambda: po.PauliTerm(s) if c is None else po.PauliTerm(s, c), enc_term)
        payload = {"s": s, "complex": r.payload()}
        if c is not None:
            payload["c"] = enc_num(c)
        return payload, (lambda want=want: want)
    for s in texts:
        out["term_init_str"].append(term_case(s, rng.choice([None, None, None, 2.5, 0, 1j])))

    sums = ["", "Z0", "Z0 + X1", "(1+2j)*Z0*X12 + -0.5*I + 1e-12*Y3", "0*I", "2.0*X0 +  3*Y1", "Z0+", "+Z0", "1e+16*Z0", "(1+2j)*Z0+(3-1j)*X1",
            "(1+2j*Z0 + X1", "Z0 + (X1", "2*X0 +\x1c 3*Y1\x1f", "\n2*X0\t+ \x0b3*Y1", "Z0 + Z0", "Z0 + X0*X0", "1+2j*Z0 + X1", "(1 + 2j)*Z0"]
    for _ in range(2 * PER_FUNCTION):
        sums.append(rng.choice(["", " "]) + rng.choice([" + ", "+", " +", " + ", "  +  "]).join(
            rng.choice(texts + [repr(term()) for _ in range(6)]) for _ in range(rng.randrange(1, 4))))

    def sum_case(s):
        with _Recorder(po) as r:
            want = exc_or(lambda: po.PauliSum(s), lambda x: [enc_term(t) for t in x.terms])
        return {"s": s, "complex": r.payload()}, (lambda want=want: want)
    for s in sums:
        out["sum_init_str"].append(sum_case(s))
    return out


def props():
    """the properties this self-check covers now"""
    import importlib.util
    return ("C11", "C03") if importlib.util.find_spec("harness.tables_t19e") is not None else ("C11",)


def _run(tag, prop, gen_mod, cases_fn, seed):
    _text, good, bad_units = gen_mod.generate()
    untranslatable = [f"{k}: {v}" for k, v in bad_units.items()]
    listed = [f"{prop} {n} -> Translated.{n}" for n in good]
    drv = common.Driver(tag)
    if not drv.available():
        return 0, ["model driver not built"], untranslatable, listed
    rng = random.Random(f"t19:{tag}:{seed}")
    cs = cases_fn(rng)
    reqs, wants, bad = [], [], []
    for unit in good:
        for payload, thunk in cs.get(unit, []):
            if payload.get("str", 0) is None:
                DROPPED.append(f"{unit}: an int and a float of equal value in one case")
                continue
            try:
                want = thunk()
            except Exception as e:  # noqa: BLE001
                # the real code raised something the translated subset does not model on this tree: not compared (the tie theorems and
                # the property oracle judge the change, not this self-check); never happens on the unchanged /repo
                DROPPED.append(f"{unit}: {type(e).__name__}: {str(e)[:80]}")
                continue
            reqs.append((unit, payload))
            wants.append(want)
    got = drv.run(reqs)
    for (unit, payload), w, g in zip(reqs, wants, got):
        if g != w:
            bad.append(f"{unit} {common.canon(payload)[:300]}: python {common.canon(w)[:300]}, translated {common.canon(g)[:300]}")
    return len(reqs), bad, untranslatable, listed


def run(seed=0, only=None):
    """(number of comparisons, disagreements, units that are not translatable now, listing for the evidence)"""
    del DROPPED[:]
    n, bad, untr, listed = 0, [], [], []
    if only in (None, "C11"):
        from . import tables_t19
        a = _run("TRT19", "C11", tables_t19, cases_c11, seed)
        n, bad, untr, listed = n + a[0], bad + a[1], untr + a[2], listed + a[3]
    # --- C03 part
    if only in (None, "C03"):
        try:
            from . import tables_t19e, translated_check_t19e
        except ImportError:
            tables_t19e = None
        if tables_t19e is not None:
            a = _run("TRT19E", "C03", tables_t19e, translated_check_t19e.cases_c03, seed)
            n, bad, untr, listed = n + a[0], bad + a[1], untr + a[2], listed + a[3]
    return n, bad, untr, listed


if __name__ == "__main__":
    common.use_repo()
    n, bad, untr, listed = run()
    print(n, "comparisons;", len(bad), "disagreements;", untr, "; dropped", len(DROPPED), DROPPED[:5])
    for b in bad[:20]:
        print("  ", b)
