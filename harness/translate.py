"""A small Python -> Lean translator for the pure integer/list functions of /repo.

It re-reads the function's source with `ast` on every run and writes a Lean definition into
lean/OQ/Generated/Translated.lean; theorems in OQ/Props state that the translated definition equals the
hand-written model (so an edit to the Python function changes the generated definition and breaks that
theorem at build time – a proof obligation tied to what the code says now).

Supported subset (anything else raises TranslateError and the table is written as an error marker):
  statements : `x = e` (single Name target), `return e`, `if c: … else: …` whose branches end in `return`
  expressions: int constants, names, unary -, + - * // % ** on ints (Python floor semantics: Int.fdiv / Int.fmod),
               comparisons, and/or/not, conditional expressions, tuples (heterogeneous result tuples become Lean
               pairs, homogeneous int tuples/lists become `List Int`), `k * (x,)` / `(x,) * k` repetition,
               list/tuple `+`, `len`, `list`, `tuple`, `range(n)`, `min`, `max`, list comprehensions with an optional
               `if`, `x in xs` / `x not in xs`, `xs[i]` (documented domain: 0 <= i < len(xs)).
Types are given per function in SPECS (Python is untyped); the translator checks them structurally.
"""
import ast
import inspect
import textwrap

INT, BOOL, LIST = "Int", "Bool", "List Int"


class TranslateError(Exception):
    pass


class T:
    def __init__(self, env, ret):
        self.env = dict(env)
        self.ret = ret

    # ---- expressions: returns (lean_text, type)
    def e(self, n):
        if isinstance(n, ast.Constant):
            if isinstance(n.value, bool):
                return ("true" if n.value else "false"), BOOL
            if isinstance(n.value, int):
                return f"({n.value} : Int)", INT
            raise TranslateError(f"constant {n.value!r}")
        if isinstance(n, ast.Name):
            if n.id not in self.env:
                raise TranslateError(f"unknown name {n.id}")
            return n.id, self.env[n.id]
        if isinstance(n, ast.UnaryOp):
            v, t = self.e(n.operand)
            if isinstance(n.op, ast.USub) and t == INT:
                return f"(-{v})", INT
            if isinstance(n.op, ast.Not) and t == BOOL:
                return f"(!{v})", BOOL
            raise TranslateError("unary op")
        if isinstance(n, ast.BinOp):
            a, ta = self.e(n.left)
            b, tb = self.e(n.right)
            op = n.op
            if ta == INT and tb == INT:
                if isinstance(op, ast.Add):
                    return f"({a} + {b})", INT
                if isinstance(op, ast.Sub):
                    return f"({a} - {b})", INT
                if isinstance(op, ast.Mult):
                    return f"({a} * {b})", INT
                if isinstance(op, ast.FloorDiv):
                    return f"(Int.fdiv {a} {b})", INT
                if isinstance(op, ast.Mod):
                    return f"(Int.fmod {a} {b})", INT
                if isinstance(op, ast.Pow):
                    return f"({a} ^ (Int.toNat {b}))", INT
            if isinstance(op, ast.Add) and ta == LIST and tb == LIST:
                return f"({a} ++ {b})", LIST
            if isinstance(op, ast.Mult) and {ta, tb} == {INT, LIST}:
                k, l = (a, b) if ta == INT else (b, a)
                return f"((List.replicate (Int.toNat {k}) {l}).flatten)", LIST
            raise TranslateError(f"binop {ast.dump(op)} on {ta},{tb}")
        if isinstance(n, ast.Compare):
            if len(n.ops) != 1:
                raise TranslateError("chained comparison")
            a, ta = self.e(n.left)
            b, tb = self.e(n.comparators[0])
            op = n.ops[0]
            if ta == INT and tb == INT:
                sym = {ast.Eq: "==", ast.NotEq: "!=", ast.Lt: "<", ast.LtE: "≤", ast.Gt: ">", ast.GtE: "≥"}.get(type(op))
                if sym in ("==", "!="):
                    return f"({a} {sym} {b})", BOOL
                if sym:
                    return f"(decide ({a} {sym} {b}))", BOOL
            if ta == INT and tb == LIST and isinstance(op, ast.In):
                return f"({b}.contains {a})", BOOL
            if ta == INT and tb == LIST and isinstance(op, ast.NotIn):
                return f"(!({b}.contains {a}))", BOOL
            if ta == LIST and tb == LIST and isinstance(op, (ast.Eq, ast.NotEq)):
                return f"({a} {'==' if isinstance(op, ast.Eq) else '!='} {b})", BOOL
            raise TranslateError("comparison")
        if isinstance(n, ast.BoolOp):
            parts = [self.e(v) for v in n.values]
            if any(t != BOOL for _, t in parts):
                raise TranslateError("boolop on non-bool")
            j = " && " if isinstance(n.op, ast.And) else " || "
            return "(" + j.join(p for p, _ in parts) + ")", BOOL
        if isinstance(n, ast.IfExp):
            c, tc = self.e(n.test)
            a, ta = self.e(n.body)
            b, tb = self.e(n.orelse)
            if tc != BOOL or ta != tb:
                raise TranslateError("ifexp types")
            return f"(if {c} then {a} else {b})", ta
        if isinstance(n, (ast.Tuple, ast.List)):
            parts = [self.e(v) for v in n.elts]
            if all(t == INT for _, t in parts):
                return "[" + ", ".join(p for p, _ in parts) + "]", LIST
            return "(" + ", ".join(p for p, _ in parts) + ")", " × ".join(t for _, t in parts)
        if isinstance(n, ast.Call) and isinstance(n.func, ast.Name):
            f = n.func.id
            args = [self.e(a) for a in n.args]
            if f == "len" and args[0][1] == LIST:
                return f"(({args[0][0]}.length : Nat) : Int)", INT
            if f in ("list", "tuple") and args[0][1] == LIST:
                return args[0]
            if f == "range" and len(args) == 1 and args[0][1] == INT:
                return f"((List.range (Int.toNat {args[0][0]})).map Int.ofNat)", LIST
            if f in ("min", "max") and len(args) == 2 and all(t == INT for _, t in args):
                return f"({f} {args[0][0]} {args[1][0]})", INT
            if f == "int" and args[0][1] == INT:
                return args[0]
            raise TranslateError(f"call {f}")
        if isinstance(n, ast.ListComp) or isinstance(n, ast.GeneratorExp):
            if len(n.generators) != 1 or not isinstance(n.generators[0].target, ast.Name):
                raise TranslateError("comprehension shape")
            g = n.generators[0]
            it, tit = self.e(g.iter)
            if tit != LIST:
                raise TranslateError("comprehension over non-list")
            v = g.target.id
            sub = T({**self.env, v: INT}, self.ret)
            src = it
            for cond in g.ifs:
                c, tc = sub.e(cond)
                if tc != BOOL:
                    raise TranslateError("comprehension filter")
                src = f"({src}.filter (fun {v} => {c}))"
            elt, te = sub.e(n.elt)
            if te != INT:
                raise TranslateError("comprehension element")
            return f"({src}.map (fun {v} => {elt}))", LIST
        if isinstance(n, ast.Subscript):
            a, ta = self.e(n.value)
            i, ti = self.e(n.slice)
            if ta == LIST and ti == INT:
                return f"({a}.getD (Int.toNat {i}) 0)", INT
            raise TranslateError("subscript")
        raise TranslateError(f"expression {type(n).__name__}")

    # ---- statements: returns lean text of an expression of type self.ret
    def block(self, stmts):
        if not stmts:
            raise TranslateError("block falls off without return")
        s, rest = stmts[0], stmts[1:]
        if isinstance(s, ast.Expr) and isinstance(s.value, ast.Constant) and isinstance(s.value.value, str):
            return self.block(rest)  # docstring
        if isinstance(s, ast.Return):
            v, t = self.e(s.value)
            if t != self.ret:
                raise TranslateError(f"return type {t}, declared {self.ret}")
            return v
        if isinstance(s, ast.Assign) and len(s.targets) == 1 and isinstance(s.targets[0], ast.Name):
            v, t = self.e(s.value)
            name = s.targets[0].id
            sub = T({**self.env, name: t}, self.ret)
            return f"let {name} : {t} := {v}\n  {sub.block(rest)}"
        if isinstance(s, ast.If):
            c, tc = self.e(s.test)
            if tc != BOOL:
                raise TranslateError("if test")
            a = self.block(s.body + ([] if _returns(s.body) else rest))
            b = self.block((s.orelse or []) + ([] if (s.orelse and _returns(s.orelse)) else rest))
            return f"if {c} then\n  {a}\n  else\n  {b}"
        raise TranslateError(f"statement {type(s).__name__}")


def _returns(stmts):
    return bool(stmts) and isinstance(stmts[-1], ast.Return)


def translate_function(fn, lean_name, arg_types, ret):
    src = textwrap.dedent(inspect.getsource(fn))
    node = ast.parse(src).body[0]
    if not isinstance(node, ast.FunctionDef):
        raise TranslateError("not a function")
    names = [a.arg for a in node.args.args]
    if len(names) != len(arg_types):
        raise TranslateError("arity")
    env = dict(zip(names, arg_types))
    body = T(env, ret).block(node.body)
    binders = " ".join(f"({n} : {t})" for n, t in zip(names, arg_types))
    where = f"{inspect.getsourcefile(fn).split('/src/')[-1]}:{fn.__name__}"
    return f"/-- translated from `{where}` -/\ndef {lean_name} {binders} : {ret} :=\n  {body}\n"
