"""A small Python -> Lean translator for the pure integer / list / string functions of /repo.

It re-reads the function's source with `ast` on every run and writes a Lean definition into
lean/OQ/Generated/Translated.lean; theorems in OQ/Props state that the translated definition equals the
hand-written model (so an edit to the Python function changes the generated definition and breaks that
theorem at build time – a proof obligation tied to what the code says now).

Supported subset (anything else raises TranslateError and the table is written as an error marker):
  statements : `x = e`, `x += e` (single Name target), `xs[i] = e`, `xs[i] += e`, `xs.append(e)`, `return e`,
               `if c: … [else: …]` (branches may `return` or fall through),
               `for v in <list expr>: body` where the body only (re)assigns variables that already exist before the
               loop (no return / break / continue inside) – translated to `List.foldl` over the tuple of those
               variables, `raise …` / `sys.exit(…)` (only with partial=True: the function then returns `Option`,
               `none` standing for "the Python raises / exits"), docstrings and bare string expressions.
  expressions: int / bool / str constants, names, unary - and not, + - * // % ** on ints (Python floor semantics:
               Int.fdiv / Int.fmod), `&`, `|`, `>>` on ints (documented domain: non-negative operands, except the
               idiom `x & -x`, translated to `Py.lowbit x`, domain x > 0), comparisons (a comparison between a str
               and an int is `False`, as in Python), and/or/not, conditional expressions, tuples (heterogeneous
               result tuples become Lean pairs, homogeneous int tuples/lists become `List Int`), `k * (x,)` /
               `(x,) * k` repetition, list/tuple/str `+`, `len`, `list`, `tuple`, `range(n)`, `range(a, b)`, `min`,
               `max`, `sum`, `pow`, `int(char)`, `int(str, 2)`, `str(int)`, `bin`, `map(str, xs)`, `np.zeros(k)` (a list
               of k zeros; only ever converted with `int(x)`), `s.zfill(n)`, `sep.join(xs)`, list comprehensions and
               generator expressions with an optional `if`, `x in xs` / `x not in xs`, `xs[i]` (documented domain:
               0 <= i < len(xs)), slices `xs[a:]`, `xs[:b]`, `xs[a:b]` (documented domain: non-negative bounds) and
               `xs[::-1]`.
Objects the function only passes around or reads declared attributes of are OPAQUE (`α`): `task.operator.is_constant`
becomes a parameter `attr_operator_is_constant : α → Bool` of the translated definition (the external behaviour is a
parameter, as for Aeneas-style translations); an attribute that is an int or None has type `Option Int` and `x == 0` is
`x == some 0`.  Further forms: `for i, x in enumerate(xs)` (fold over `xs.zipIdx`), `zip(a, b)`, empty list literals whose
type is declared per function, comprehensions with several generators (→ `flatMap`) and tuple targets (`for a, _ in pairs`),
calls of functions that are themselves translated (declared per function in `known`).  The loop-carried tuple lists the
variables in order of first assignment, so renaming a variable does not change the translated definition's shape.
Python built-ins are rendered through the prelude `OQ/Exec/Py.lean`, which is itself compared with CPython on every
run (harness/prelude_check.py).  Types are given per function in SPECS (Python is untyped); the translator checks
them structurally.  A python `str` is a Lean `List Char`; iterating over it yields `Char`.
"""
import ast
import inspect
import textwrap

INT, BOOL, CHAR = "Int", "Bool", "Char"
LIST = "List Int"
STR = "List Char"
LSTR = "List (List Char)"
OPAQUE = "α"          # an object the function only passes around or reads declared attributes of
LOPAQUE = "List α"
OPTINT = "Option Int"  # an attribute that is an int or None


def is_list(t):
    return t.startswith("List ")


def elem(t):
    e = t[len("List "):]
    if e.startswith("(") and e.endswith(")") and _balanced(e[1:-1]):
        e = e[1:-1]
    return e


def list_of(t):
    return f"List ({t})" if " " in t else f"List {t}"


DEFAULTS = {INT: "0", CHAR: "'0'", BOOL: "false"}


def prod_parts(t):
    """components of a product type written `A × B × C` (top level only)"""
    parts, depth, cur = [], 0, ""
    i = 0
    while i < len(t):
        c = t[i]
        if c == "(":
            depth += 1
        elif c == ")":
            depth -= 1
        if depth == 0 and t.startswith(" × ", i):
            parts.append(cur)
            cur = ""
            i += 3
            continue
        cur += c
        i += 1
    parts.append(cur)
    out = []
    for q in parts:
        q = q.strip()
        if q.startswith("(") and q.endswith(")") and _balanced(q[1:-1]):
            q = q[1:-1]
        out.append(q)
    return out


def _balanced(x):
    d = 0
    for c in x:
        d += c == "("
        d -= c == ")"
        if d < 0:
            return False
    return d == 0


def paren(t):
    return f"({t})" if " " in t and not (t.startswith("(") and t.endswith(")") and _balanced(t[1:-1])) else t


class TranslateError(Exception):
    pass


def char_lit(c):
    if c == "'":
        return "'\\''"
    if c == "\\":
        return "'\\\\'"
    return f"'{c}'"


class T:
    KNOWN = {}  # python name of an already translated function -> (lean name, argument types, result type)

    def __init__(self, env, ret, partial=False, attrs=None, local_types=None):
        self.env = dict(env)
        self.ret = ret
        self.partial = partial
        self.attrs = attrs or {}              # "a.b" -> type: attribute chains of opaque objects (function parameters)
        self.local_types = local_types or {}  # declared types of locals initialised with an empty literal

    def sub(self, extra):
        return T({**self.env, **extra}, self.ret, self.partial, self.attrs, self.local_types)

    # ---- expressions: returns (lean_text, type)
    def e(self, n):
        if isinstance(n, ast.Constant):
            if isinstance(n.value, bool):
                return ("true" if n.value else "false"), BOOL
            if isinstance(n.value, int):
                return f"({n.value} : Int)", INT
            if isinstance(n.value, str):
                return "([" + ", ".join(char_lit(c) for c in n.value) + "] : List Char)", STR
            raise TranslateError(f"constant {n.value!r}")
        if isinstance(n, ast.Name):
            if n.id not in self.env:
                raise TranslateError(f"unknown name {n.id}")
            return n.id, self.env[n.id]
        if isinstance(n, ast.UnaryOp):
            v, t = self.e(n.operand)
            if isinstance(n.op, ast.USub) and t == INT:
                return f"(-{v})", INT
            if isinstance(n.op, ast.Not) and t == BOOL:
                return f"(!{v})", BOOL
            raise TranslateError("unary op")
        if isinstance(n, ast.BinOp):
            return self.binop(n)
        if isinstance(n, ast.Compare):
            return self.compare(n)
        if isinstance(n, ast.BoolOp):
            parts = [self.e(v) for v in n.values]
            if any(t != BOOL for _, t in parts):
                raise TranslateError("boolop on non-bool")
            j = " && " if isinstance(n.op, ast.And) else " || "
            return "(" + j.join(p for p, _ in parts) + ")", BOOL
        if isinstance(n, ast.IfExp):
            c, tc = self.e(n.test)
            a, ta = self.e(n.body)
            b, tb = self.e(n.orelse)
            if tc != BOOL or ta != tb:
                raise TranslateError("ifexp types")
            return f"(if {c} then {a} else {b})", ta
        if isinstance(n, (ast.Tuple, ast.List)):
            parts = [self.e(v) for v in n.elts]
            if not parts:
                raise TranslateError("empty literal (type unknown)")
            if all(t == parts[0][1] for _, t in parts) and parts[0][1] in (INT, CHAR, STR):
                return "[" + ", ".join(p for p, _ in parts) + "]", list_of(parts[0][1])
            return "(" + ", ".join(p for p, _ in parts) + ")", " × ".join(
                (f"({t})" if " " in t and not t.startswith("(") else t) for _, t in parts)
        if isinstance(n, ast.Call):
            return self.call(n)
        if isinstance(n, (ast.ListComp, ast.GeneratorExp)):
            return self.comprehension(n)
        if isinstance(n, ast.Subscript):
            return self.subscript(n)
        if isinstance(n, ast.Attribute):
            chain, cur = [], n
            while isinstance(cur, ast.Attribute):
                chain.append(cur.attr)
                cur = cur.value
            key = ".".join(reversed(chain))
            if isinstance(cur, ast.Name) and self.env.get(cur.id) == OPAQUE and key in self.attrs:
                return f"(attr_{key.replace('.', '_')} {cur.id})", self.attrs[key]
            raise TranslateError(f"attribute {key}")
        raise TranslateError(f"expression {type(n).__name__}")

    def binop(self, n):
        op = n.op
        # the idiom  x & -x  (lowest set bit of a positive int)
        if isinstance(op, ast.BitAnd) and isinstance(n.right, ast.UnaryOp) and isinstance(n.right.op, ast.USub) \
                and ast.dump(n.right.operand) == ast.dump(n.left):
            a, ta = self.e(n.left)
            if ta == INT:
                return f"(OQ.Py.lowbit {a})", INT
        a, ta = self.e(n.left)
        b, tb = self.e(n.right)
        if ta == INT and tb == INT:
            if isinstance(op, ast.Add):
                return f"({a} + {b})", INT
            if isinstance(op, ast.Sub):
                return f"({a} - {b})", INT
            if isinstance(op, ast.Mult):
                return f"({a} * {b})", INT
            if isinstance(op, ast.FloorDiv):
                return f"(Int.fdiv {a} {b})", INT
            if isinstance(op, ast.Mod):
                return f"(Int.fmod {a} {b})", INT
            if isinstance(op, ast.Pow):
                return f"({a} ^ (Int.toNat {b}))", INT
            if isinstance(op, ast.BitAnd):
                return f"(OQ.Py.land {a} {b})", INT
            if isinstance(op, ast.BitOr):
                return f"(OQ.Py.lor {a} {b})", INT
            if isinstance(op, ast.RShift):
                return f"(OQ.Py.shr {a} {b})", INT
        if isinstance(op, ast.Add) and ta == tb and is_list(ta):
            return f"({a} ++ {b})", ta
        if isinstance(op, ast.Mult) and {ta, tb} == {INT, LIST}:
            k, l = (a, b) if ta == INT else (b, a)
            return f"((List.replicate (Int.toNat {k}) {l}).flatten)", LIST
        raise TranslateError(f"binop {type(op).__name__} on {ta},{tb}")

    def compare(self, n):
        if len(n.ops) != 1:
            raise TranslateError("chained comparison")
        a, ta = self.e(n.left)
        b, tb = self.e(n.comparators[0])
        op = n.ops[0]
        if ta == INT and tb == INT:
            sym = {ast.Eq: "==", ast.NotEq: "!=", ast.Lt: "<", ast.LtE: "≤", ast.Gt: ">", ast.GtE: "≥"}.get(type(op))
            if sym in ("==", "!="):
                return f"({a} {sym} {b})", BOOL
            if sym:
                return f"(decide ({a} {sym} {b}))", BOOL
        if isinstance(op, (ast.Eq, ast.NotEq)) and {ta, tb} == {OPTINT, INT}:
            o, i = (a, b) if ta == OPTINT else (b, a)
            c = f"({o} == some {i})"
            return (f"(!{c})" if isinstance(op, ast.NotEq) else c), BOOL
        if isinstance(op, (ast.Eq, ast.NotEq)):
            neg = isinstance(op, ast.NotEq)
            # a one-character str compared with a str constant
            if ta == CHAR and tb == STR:
                a, ta = f"[{a}]", STR
            if tb == CHAR and ta == STR:
                b, tb = f"[{b}]", STR
            if ta == tb and (ta in (CHAR, BOOL) or is_list(ta)):
                return f"({a} {'!=' if neg else '=='} {b})", BOOL
            strs, nums = (CHAR, STR), (INT,)
            if (ta in strs and tb in nums) or (ta in nums and tb in strs):
                return ("true" if neg else "false"), BOOL  # Python: a str never equals an int
        if isinstance(op, (ast.In, ast.NotIn)) and is_list(tb) and elem(tb) == ta:
            c = f"({b}.contains {a})"
            return (f"(!{c})" if isinstance(op, ast.NotIn) else c), BOOL
        raise TranslateError(f"comparison {type(op).__name__} on {ta},{tb}")

    def call(self, n):
        if n.keywords:
            raise TranslateError("keyword arguments")
        if isinstance(n.func, ast.Attribute):
            recv, meth = n.func.value, n.func.attr
            # np.zeros(k)
            if isinstance(recv, ast.Name) and recv.id == "np" and meth == "zeros" and len(n.args) == 1:
                k, tk = self.e(n.args[0])
                if tk == INT:
                    return f"(List.replicate (Int.toNat {k}) (0 : Int))", LIST
            r, tr_ = self.e(recv)
            args = [self.e(a) for a in n.args]
            if meth == "zfill" and tr_ == STR and len(args) == 1 and args[0][1] == INT:
                return f"(OQ.Py.zfill {r} {args[0][0]})", STR
            if meth == "join" and tr_ == STR and len(args) == 1:
                x, tx = args[0]
                if tx == LSTR:
                    return f"(OQ.Py.join {r} {x})", STR
                if tx == STR:  # joining the characters of a string
                    return f"(OQ.Py.join {r} ({x}.map (fun c => [c])))", STR
            raise TranslateError(f"method {meth} on {tr_}")
        if not isinstance(n.func, ast.Name):
            raise TranslateError("call of a non-name")
        f = n.func.id
        if f in self.KNOWN:
            lean, ats, rt = self.KNOWN[f]
            args = [self.e(a) for a in n.args]
            if [t for _, t in args] != list(ats):
                raise TranslateError(f"call of {f} with {[t for _, t in args]}")
            return "(" + lean + " " + " ".join(a for a, _ in args) + ")", rt
        if f == "zip" and len(n.args) == 2:
            a, ta = self.e(n.args[0])
            b, tb = self.e(n.args[1])
            if is_list(ta) and is_list(tb):
                return f"(List.zip {a} {b})", list_of(f"{paren(elem(ta))} × {paren(elem(tb))}")
            raise TranslateError("zip of non-lists")
        if f == "map" and len(n.args) == 2 and isinstance(n.args[0], ast.Name) and n.args[0].id == "str":
            x, tx = self.e(n.args[1])
            if tx == LIST:
                return f"({x}.map OQ.Py.strOfInt)", LSTR
            raise TranslateError("map(str, non-int-list)")
        args = [self.e(a) for a in n.args]
        ts = [t for _, t in args]
        if f == "len" and len(args) == 1 and is_list(ts[0]):
            return f"(({args[0][0]}.length : Nat) : Int)", INT
        if f in ("list", "tuple") and len(args) == 1 and is_list(ts[0]):
            return args[0]
        if f == "range" and ts == [INT]:
            return f"((List.range (Int.toNat {args[0][0]})).map Int.ofNat)", LIST
        if f == "range" and ts == [INT, INT]:
            a, b = args[0][0], args[1][0]
            return f"((List.range (Int.toNat ({b} - {a}))).map (fun k => {a} + Int.ofNat k))", LIST
        if f in ("min", "max") and ts == [INT, INT]:
            return f"({f} {args[0][0]} {args[1][0]})", INT
        if f == "sum" and ts == [LIST]:
            return f"(OQ.Py.sum {args[0][0]})", INT
        if f == "pow" and ts == [INT, INT]:
            return f"({args[0][0]} ^ (Int.toNat {args[1][0]}))", INT
        if f == "int" and ts == [INT]:
            return args[0]
        if f == "int" and ts == [CHAR]:
            return f"(OQ.Py.charDigit {args[0][0]})", INT
        if f == "int" and ts == [STR, INT] and args[1][0] == "(2 : Int)":
            return f"(OQ.Py.intBase2 {args[0][0]})", INT
        if f == "str" and ts == [INT]:
            return f"(OQ.Py.strOfInt {args[0][0]})", STR
        if f == "bin" and ts == [INT]:
            return f"(OQ.Py.bin {args[0][0]})", STR
        raise TranslateError(f"call {f}({', '.join(ts)})")

    def comprehension(self, n):
        """[elt for t1 in it1 [if c] for t2 in it2 …]: nested generators become flatMap, the last one map; a target may be a
        name or a tuple of names (`_` allowed) destructuring an element of product type"""
        return self._gen(n.generators, n.elt)

    def _bind_target(self, target, te, var):
        """returns (extra environment, lean let-bindings text) for a comprehension target bound to `var : te`"""
        if isinstance(target, ast.Name):
            return {target.id: te}, "", target.id
        if isinstance(target, ast.Tuple) and all(isinstance(x, ast.Name) for x in target.elts):
            parts = prod_parts(te)
            if len(parts) != len(target.elts):
                raise TranslateError("tuple target arity")
            env, lets = {}, ""
            for k, (x, t) in enumerate(zip(target.elts, parts)):
                proj = var + ".2" * k + ("" if k == len(parts) - 1 else ".1")
                if x.id != "_":
                    env[x.id] = t
                    lets += f"let {x.id} : {t} := {proj}; "
            return env, lets, var
        raise TranslateError("comprehension target")

    def _gen(self, gens, elt_node, depth=0):
        g = gens[0]
        it, tit = self.e(g.iter)
        if not is_list(tit):
            raise TranslateError("comprehension over non-list")
        te = elem(tit)
        var = g.target.id if isinstance(g.target, ast.Name) else f"p{depth}"
        if var == "_":
            var = f"_u{depth}"
        env, lets, _ = self._bind_target(g.target, te, var)
        if isinstance(g.target, ast.Name) and g.target.id == "_":
            env = {}
        sub = self.sub(env)
        src = it
        for cond in g.ifs:
            c, tc = sub.e(cond)
            if tc != BOOL:
                raise TranslateError("comprehension filter")
            src = f"({src}.filter (fun ({var} : {te}) => {lets}{c}))"
        if len(gens) == 1:
            elt, tel = sub.e(elt_node)
            return f"({src}.map (fun ({var} : {te}) => {lets}{elt}))", list_of(tel)
        inner, tin = sub._gen(gens[1:], elt_node, depth + 1)
        return f"({src}.flatMap (fun ({var} : {te}) => {lets}{inner}))", tin

    def subscript(self, n):
        a, ta = self.e(n.value)
        if not is_list(ta):
            raise TranslateError("subscript of non-list")
        s = n.slice
        if isinstance(s, ast.Slice):
            if s.step is not None:
                st = s.step
                if (s.lower is None and s.upper is None and isinstance(st, ast.UnaryOp) and isinstance(st.op, ast.USub)
                        and isinstance(st.operand, ast.Constant) and st.operand.value == 1):
                    return f"({a}.reverse)", ta
                raise TranslateError("slice step")
            lo = self.e(s.lower) if s.lower is not None else None
            hi = self.e(s.upper) if s.upper is not None else None
            if any(x is not None and x[1] != INT for x in (lo, hi)):
                raise TranslateError("slice bound type")
            if lo and hi:
                return f"(OQ.Py.slice {a} {lo[0]} {hi[0]})", ta
            if lo:
                return f"(OQ.Py.sliceFrom {a} {lo[0]})", ta
            if hi:
                return f"(OQ.Py.sliceTo {a} {hi[0]})", ta
            return a, ta
        i, ti = self.e(s)
        te = elem(ta)
        if ti == INT and te in DEFAULTS:
            return f"({a}.getD (Int.toNat {i}) {DEFAULTS[te]})", te
        raise TranslateError("subscript")

    # ---- statements: returns lean text of an expression of type self.ret (or of `tail`'s type when falling through)
    def wrap(self, v):
        return f"(some {v})" if self.partial else v

    def block(self, stmts, tail=None):
        """tail: None (falling off the end is an error) or a function env -> lean text used when the block ends"""
        if not stmts:
            if tail is None:
                raise TranslateError("block falls off without return")
            return tail(self)
        s, rest = stmts[0], stmts[1:]
        if isinstance(s, ast.Expr) and isinstance(s.value, ast.Constant) and isinstance(s.value.value, str):
            return self.block(rest, tail)  # docstring
        if isinstance(s, ast.Return):
            if tail is not None:
                raise TranslateError("return inside a loop body")
            v, t = self.e(s.value)
            if t != self.ret:
                raise TranslateError(f"return type {t}, declared {self.ret}")
            return self.wrap(v)
        if isinstance(s, ast.Raise) or _is_sys_exit(s):
            if not self.partial:
                raise TranslateError("raise / sys.exit in a function not declared partial")
            if tail is not None:
                raise TranslateError("raise inside a loop body")
            return "none"
        if isinstance(s, ast.Assign) and len(s.targets) == 1 and isinstance(s.targets[0], ast.Name) \
                and isinstance(s.value, (ast.List, ast.Tuple)) and not s.value.elts:
            name = s.targets[0].id
            if name not in self.local_types:
                raise TranslateError(f"empty literal for {name} (no declared type)")
            t = self.local_types[name]
            return f"let {name} : {t} := []\n  {self.sub({name: t}).block(rest, tail)}"
        if isinstance(s, ast.Assign) and len(s.targets) == 1 and isinstance(s.targets[0], ast.Name):
            v, t = self.e(s.value)
            name = s.targets[0].id
            return f"let {name} : {t} := {v}\n  {self.sub({name: t}).block(rest, tail)}"
        if isinstance(s, ast.AugAssign) and isinstance(s.target, ast.Name):
            name = s.target.id
            v, t = self.binop(ast.BinOp(left=ast.Name(id=name, ctx=ast.Load()), op=s.op, right=s.value))
            if name not in self.env or self.env[name] != t:
                raise TranslateError("augmented assignment changes type")
            return f"let {name} : {t} := {v}\n  {self.block(rest, tail)}"
        if isinstance(s, (ast.Assign, ast.AugAssign)):
            tgt = s.targets[0] if isinstance(s, ast.Assign) else s.target
            if isinstance(tgt, ast.Subscript) and isinstance(tgt.value, ast.Name) and not isinstance(tgt.slice, ast.Slice):
                name = tgt.value.id
                if name not in self.env or not is_list(self.env[name]):
                    raise TranslateError("item assignment to a non-list")
                i, ti = self.e(tgt.slice)
                if isinstance(s, ast.Assign):
                    v, t = self.e(s.value)
                else:
                    v, t = self.binop(ast.BinOp(left=ast.Subscript(value=tgt.value, slice=tgt.slice, ctx=ast.Load()),
                                                op=s.op, right=s.value))
                if ti != INT or t != elem(self.env[name]):
                    raise TranslateError("item assignment types")
                return (f"let {name} : {self.env[name]} := {name}.set (Int.toNat {i}) {v}\n  "
                        f"{self.block(rest, tail)}")
        if isinstance(s, ast.Expr) and isinstance(s.value, ast.Call) and isinstance(s.value.func, ast.Attribute) \
                and s.value.func.attr == "append" and isinstance(s.value.func.value, ast.Name):
            name = s.value.func.value.id
            v, t = self.e(s.value.args[0])
            if name not in self.env or self.env[name] != list_of(t):
                raise TranslateError("append type")
            return f"let {name} : {self.env[name]} := {name} ++ [{v}]\n  {self.block(rest, tail)}"
        if isinstance(s, ast.If):
            c, tc = self.e(s.test)
            if tc != BOOL:
                raise TranslateError("if test")
            a = self.block(s.body + ([] if _ends(s.body) else rest), tail)
            b = self.block((s.orelse or []) + ([] if (s.orelse and _ends(s.orelse)) else rest), tail)
            return f"if {c} then\n  {a}\n  else\n  {b}"
        enum = (isinstance(s, ast.For) and isinstance(s.target, ast.Tuple) and len(s.target.elts) == 2
                and all(isinstance(x, ast.Name) for x in s.target.elts) and isinstance(s.iter, ast.Call)
                and isinstance(s.iter.func, ast.Name) and s.iter.func.id == "enumerate" and len(s.iter.args) == 1
                and not s.iter.keywords and not s.orelse)
        if enum:
            # for i, x in enumerate(xs): body   ==>   fold over xs.zipIdx, i = position, x = element
            xs, txs = self.e(s.iter.args[0])
            if not is_list(txs):
                raise TranslateError("enumerate over non-list")
            iv, xv = s.target.elts[0].id, s.target.elts[1].id
            inner = ast.For(target=ast.Name(id="__p", ctx=ast.Store()), iter=ast.Name(id="__zipidx", ctx=ast.Load()),
                            body=s.body, orelse=[])
            return self.sub({"__zipidx": f"List ({elem(txs)} × Nat)"})._for(inner, rest, tail, f"({xs}.zipIdx)",
                                                                           pair=(iv, xv, elem(txs)))
        if isinstance(s, ast.For) and isinstance(s.target, ast.Name) and not s.orelse:
            return self._for(s, rest, tail)
        raise TranslateError(f"statement {type(s).__name__}")

    def _for(self, s, rest, tail, iter_text=None, pair=None):
        if True:
            if iter_text is None:
                it, tit = self.e(s.iter)
            else:
                it, tit = iter_text, self.env["__zipidx"]
            if not is_list(tit):
                raise TranslateError("for over non-list")
            v = s.target.id
            state = _assigned(s.body)
            if v in state:
                raise TranslateError("loop variable reassigned")
            for x in state:
                if x not in self.env:
                    raise TranslateError(f"loop assigns {x}, which does not exist before the loop")
            if not state:
                raise TranslateError("loop without effect")
            tys = [self.env[x] for x in state]
            st_ty = " × ".join(f"({t})" for t in tys)

            def proj(k):
                if len(state) == 1:
                    return "st"
                return "st" + ".2" * k + ("" if k == len(state) - 1 else ".1")

            def tup(env_t):
                for x, t in zip(state, tys):
                    if env_t.env.get(x) != t:
                        raise TranslateError(f"loop changes the type of {x}")
                return "(" + ", ".join(state) + ")"

            binds = "".join(f"let {x} : {t} := {proj(k)}\n    " for k, (x, t) in enumerate(zip(state, tys)))
            if pair is not None:
                iv, xv, tx = pair
                binds += f"let {xv} : {tx} := {v}.1\n    let {iv} : Int := (({v}.2 : Nat) : Int)\n    "
                body = self.sub({xv: tx, iv: INT}).block(s.body, tail=tup)
            else:
                body = self.sub({v: elem(tit)}).block(s.body, tail=tup)
            after = "".join(f"let {x} : {t} := {proj(k)}\n  " for k, (x, t) in enumerate(zip(state, tys)))
            return (f"let st : {st_ty} := {it}.foldl (fun (st : {st_ty}) ({v} : {elem(tit)}) =>\n    {binds}{body}) "
                    f"({', '.join(state)})\n  {after}{self.block(rest, tail)}")


def _is_sys_exit(s):
    return (isinstance(s, ast.Expr) and isinstance(s.value, ast.Call) and isinstance(s.value.func, ast.Attribute)
            and s.value.func.attr == "exit" and isinstance(s.value.func.value, ast.Name)
            and s.value.func.value.id == "sys")


def _ends(stmts):
    return bool(stmts) and (isinstance(stmts[-1], (ast.Return, ast.Raise)) or _is_sys_exit(stmts[-1]))


def _assigned(stmts):
    """names (re)assigned in a loop body, in order of first assignment (so that renaming a variable does not reorder
    the loop-carried tuple)"""
    out = []

    def add(x):
        if x not in out:
            out.append(x)

    class V(ast.NodeVisitor):
        def generic_visit(self, n):
            if isinstance(n, (ast.Return, ast.Break, ast.Continue, ast.While)):
                raise TranslateError(f"{type(n).__name__} inside a loop body")
            if isinstance(n, ast.For):
                raise TranslateError("nested loop")
            if isinstance(n, ast.Assign):
                for t in n.targets:
                    add(_target_name(t))
            elif isinstance(n, ast.AugAssign):
                add(_target_name(n.target))
            elif isinstance(n, ast.Call) and isinstance(n.func, ast.Attribute) and n.func.attr == "append" \
                    and isinstance(n.func.value, ast.Name):
                add(n.func.value.id)
            super().generic_visit(n)

    for s in stmts:
        V().visit(s)
    return out


def _target_name(t):
    if isinstance(t, ast.Name):
        return t.id
    if isinstance(t, ast.Subscript) and isinstance(t.value, ast.Name):
        return t.value.id
    raise TranslateError("assignment target")


def translate_function(fn, lean_name, arg_types, ret, partial=False, attrs=None, local_types=None, known=None, **more):
    # --- T3: specs with a "t3" option (several opaque types, methods / callables / operators as parameters, recursion on
    # lists) are rendered by harness/translate_t3.py (a subclass of T)
    if more:
        from . import translate_t3
        return translate_t3.translate_function(fn, lean_name, arg_types, ret, partial, attrs, local_types, known, **more)
    # --- T3 end
    fn = getattr(fn, "__wrapped__", fn)  # functools.lru_cache & co.
    src = textwrap.dedent(inspect.getsource(fn))
    node = ast.parse(src).body[0]
    if not isinstance(node, ast.FunctionDef):
        raise TranslateError("not a function")
    names = [a.arg for a in node.args.args]
    if len(names) != len(arg_types):
        raise TranslateError("arity")
    env = dict(zip(names, arg_types))
    T.KNOWN = dict(known or {})
    body = T(env, ret, partial, attrs, local_types).block(node.body)
    binders = " ".join(f"({n} : {t})" for n, t in zip(names, arg_types))
    if attrs or any(OPAQUE in t for t in arg_types) or OPAQUE in ret:
        binders = "{α : Type} " + "".join(f"(attr_{k.replace('.', '_')} : α → {t}) " for k, t in (attrs or {}).items()) \
            + binders
    where = f"{inspect.getsourcefile(fn).split('/src/')[-1]}:{fn.__name__}"
    rt = f"Option ({ret})" if partial else ret
    return f"/-- translated from `{where}` -/\ndef {lean_name} {binders} : {rt} :=\n  {body}\n"
