"""Validation of the gate-CLASS translator (harness/translate_cls.py): the regenerated Lean definitions
(lean/OQ/Generated/TranslatedGates.lean, compiled into the model driver through the generated glue TranslatedGatesDriver.lean,
property "TG") are run on seeded random gate trees and method call chains and compared with the REAL Python classes of the tree
under test (`MatrixFactoryGate(name, factory, params, n, herm)` … with ints and `sympy.Symbol`s as parameters): the structure of the
resulting gate and `params` / `num_qubits` / `free_symbols` of it, or the class of the exception and the step at which it is raised.
The externals keep their real Python implementation on the Python side (`get_free_symbols`, `sub_symbols`) and get the obvious
stand-in on the Lean side (symbol names sorted, dictionary lookup).  A disagreement means the translator misrenders the classes –
a fault of this machinery (INTERNAL-ERROR, exit 2 in run.py), never a verdict about /repo."""
import random
from fractions import Fraction

from . import common

SYMS = "abcde"


class _Factory:
    """stand-in of a matrix factory (never called: `.matrix` is not translated)"""

    def __init__(self, tag):
        self.tag = tag

    def __eq__(self, other):
        return isinstance(other, _Factory) and other.tag == self.tag

    def __hash__(self):
        return hash(self.tag)


def _rand_param(r, p_sym):
    return r.choice(SYMS) if r.random() < p_sym else str(r.randrange(-5, 40))


def _rand_tree(r, t, depth, p_sym):
    """a random constructor tree, as JSON for the driver"""
    # only classes whose constructor (`mk_<Class>`) is translated now can be built on the Lean side
    classes = [c.name for c in t.mod.classes if "mk_" + c.name in t.defs]
    leafs = [c for c in classes if not any(ft == "Gate" for _, ft, _ in t.mod.fields[c])]
    if not leafs:
        return None
    wraps = [c for c in classes if c not in leafs]
    cls = r.choice(leafs) if depth <= 0 or not wraps or r.random() < 0.25 else r.choice(wraps)
    args = []
    for fn, ft, _ in t.mod.fields[cls]:
        if ft == "Gate":
            args.append(_rand_tree(r, t, depth - 1, p_sym))
        elif ft == "List P":
            args.append([_rand_param(r, p_sym) for _ in range(r.choice([0, 1, 1, 2, 3]))])
        elif ft == "Int":
            args.append(str(r.choice([1, 1, 2, 3, r.randrange(-2, 6)])))
        elif ft == "Bool":
            args.append(r.random() < 0.5)
        elif ft == "E":
            args.append(r.choice(["2", "-1", "1/2", "3", "0", "-2/3"]))
        else:  # String, F
            args.append(r.choice(["X", "RX", "U", "f", "g"]))
    return {"cls": cls, "args": args}


def _rand_calls(r, t, p_sym):
    from . import translate_cls as tc
    names = [m for m, (k, a, ret) in tc.MEMBERS.items() if ret == tc.GATE and m in t.defs]
    calls = []
    for _ in range(r.choice([0, 1, 1, 2, 2, 3, 4, 6])):
        if not names:
            break
        m = r.choice(names)
        argts = tc.MEMBERS[m][1]
        if not argts:
            a = None
        elif argts[0] == "Int":
            a = str(r.choice([1, 1, 2, 3, r.randrange(-3, 5)]))
        elif argts[0] == "E":
            a = r.choice(["2", "-1", "1/2", "3", "0"])
        elif argts[0] == "List P":
            a = [_rand_param(r, p_sym) for _ in range(r.choice([0, 1, 2, 3]))]
        elif argts[0] == "M":
            keys = r.sample(SYMS, r.randrange(0, 4))
            a = [[k, _rand_param(r, 0.3)] for k in keys]
        else:
            raise ValueError(argts)
        calls.append([m, a])
    return calls


# ------------------------------------------------------------------ the Python side: the real classes
def _py_param(s):
    import sympy
    return sympy.Symbol(s) if s in SYMS else int(s)


def _py_value(ft, j, G, t):
    if ft == "Gate":
        return _py_build(j, G, t)
    if ft == "List P":
        return tuple(_py_param(s) for s in j)
    if ft == "Int":
        return int(j)
    if ft == "E":
        f = Fraction(j)
        return int(f) if f.denominator == 1 else f
    if ft == "F":
        return _Factory(j)
    if ft == "M":
        return {_py_param(k): _py_param(v) for k, v in j}
    return j


def _py_build(j, G, t):
    cls = getattr(G, j["cls"])
    fields = t.mod.fields[j["cls"]]
    return cls(*[_py_value(ft, a, G, t) for (fn, ft, _), a in zip(fields, j["args"])])


def _py_dump_val(ft, v, t):
    if ft == "Gate":
        return _py_dump(v, t)
    if ft in ("List P", "List S"):
        return [str(p) for p in v]
    if ft == "Int":
        if isinstance(v, bool) or not isinstance(v, int):
            raise TypeError(f"expected an int, got {v!r}")
        return str(v)
    if ft == "E":
        return str(v)
    if ft == "F":
        return v.tag
    if ft == "Bool":
        if not isinstance(v, bool):
            raise TypeError(f"expected a bool, got {v!r}")
        return v
    return v


def _py_dump(g, t):
    name = type(g).__name__
    if name not in t.mod.fields:
        raise TypeError(f"not a gate object: {g!r}")
    return {"cls": name, "args": [_py_dump_val(ft, getattr(g, fn), t) for fn, ft, _ in t.mod.fields[name]]}


def _py_run(case, t):
    from orquestra.quantum.circuits import _gates as G
    from . import translate_cls as tc
    try:
        g = _py_build(case["gate"], G, t)
    except Exception as e:
        return {"exc": type(e).__name__, "at": "build"}
    for i, (m, a) in enumerate(case["calls"]):
        kind, argts, ret = tc.MEMBERS[m]
        try:
            g = getattr(g, m) if kind == "property" else getattr(g, m)(_py_value(argts[0], a, G, t))
        except Exception as e:
            return {"exc": type(e).__name__, "at": i}
    q = {}
    for m, (kind, argts, ret) in tc.MEMBERS.items():
        if ret != tc.GATE and not argts and m in t.defs:
            try:
                q[m] = _py_dump_val(ret, getattr(g, m), t)
            except Exception as e:
                q[m] = {"exc": type(e).__name__}
    return {"gate": _py_dump(g, t), "q": q}


def run(seed=0, n=300):
    """returns (comparisons, disagreements, notes: untranslatable members / whole-module failure)"""
    common.use_repo()
    from . import translate_cls as tc
    try:
        t = tc.translate()
    except Exception as e:
        return 0, [], [f"gate classes not translatable: {e}"[:300]]
    notes = [f"{t.lean_name(f)}: {why}"[:300] for f, why in t.failed.items()]
    rng = random.Random(f"gates:{seed}")
    cases = []
    for k in range(n):
        p_sym = rng.choice([0.0, 0.0, 0.15, 0.5])
        tree = _rand_tree(rng, t, rng.randrange(0, 5), p_sym)
        if tree is None:
            return 0, [], notes + ["no constructor of a leaf gate class is translatable now: nothing to run"]
        cases.append({"gate": tree, "calls": _rand_calls(rng, t, p_sym)})
    drv = common.Driver("TG")
    if not drv.available():
        return 0, ["model driver not built"], notes
    got = drv.run([("run", c) for c in cases])
    bad = []
    for c, g in zip(cases, got):
        w = _py_run(c, t)
        if g != w:
            bad.append(f"gate classes on {common.canon(c)[:400]}: python {common.canon(w)[:300]}, translated definitions {common.canon(g)[:300]}")
    return len(cases), bad, notes


if __name__ == "__main__":
    import collections
    n, bad, notes = run()
    print(n, "comparisons;", len(bad), "disagreements; notes:", notes)
    for b in bad[:10]:
        print("  ", b)
