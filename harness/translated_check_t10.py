"""T10: validation of the symbolic-expression translator (harness/translate_t10.py).  Every definition of
lean/OQ/Generated/TranslatedC02.lean that translates now is evaluated in the compiled driver (tag "TRT10", generated glue
TranslatedDriverT10.lean) over ℚ(ζ₈) at seeded points – rational points (cos θ/2, sin θ/2) of the unit circle, the axis points and the
multiples of π/4 (exact in ℚ(ζ₈)) – and compared to 1e-9 with `np.array(factory(θ…), complex)` of the PYTHON FACTORY IT WAS TRANSLATED
FROM (imported from the tree under test, θ = 2·atan2(sin, cos) as a float); `tr_builtinMatrix` is compared with `<gate>(θ…).matrix` of
every built-in gate.  A disagreement is a fault of the translator (its mapping of sympy / numpy syntax to `Scal` / `Ang`), reported as
INTERNAL-ERROR (exit 2) by run.py – never a verdict about /repo."""
import inspect
import math
import random
import warnings
from fractions import Fraction

from . import common
from .common import rat

TOL = 1e-9
_R = [0, "1/2", 0, "-1/2"]
_MR = [0, "-1/2", 0, "1/2"]
K8 = [[1, 0], [_R, _R], [0, 1], [_MR, _R], [-1, 0], [_MR, _MR], [0, -1], [_R, _MR]]   # (cos, sin) of k·π/4: half-angle points of θ = k·π/2


def _pt(t):
    t = Fraction(t)
    return [rat((1 - t * t) / (1 + t * t)), rat(2 * t / (1 + t * t))]


def _point(rng):
    r = rng.random()
    if r < 0.7:
        t = Fraction(rng.randrange(-12, 13), rng.randrange(1, 13))
        if t == 0 or abs(t) == 1:
            t = Fraction(rng.randrange(2, 12), rng.randrange(13, 30))
        return _pt(t)
    if r < 0.85:
        return rng.choice(K8)
    n = rng.choice([10 ** 2, 10 ** 4, 10 ** 6])
    return _pt(Fraction(rng.choice([-1, 1]), n) if rng.random() < 0.5 else Fraction(rng.choice([-1, 1]) * n))


def _coord(x):
    return common.cyc_to_complex(x).real if isinstance(x, list) else float(Fraction(x))


def _theta(p):
    return 2.0 * math.atan2(_coord(p[1]), _coord(p[0]))


def _np(m):
    import numpy as np
    a = np.array(m.evalf().tolist(), dtype=complex)
    return a.reshape(m.shape)


def _model(j):
    import numpy as np
    return np.array([[common.cyc_to_complex(z) for z in row] for row in j], dtype=complex)


def run(seed=0, per_fn=5):
    """returns (comparisons, disagreements, factories that are not translatable now, translated function list)"""
    common.use_repo()
    from . import translate_t10 as t10
    import numpy as np
    rng = random.Random(f"translated-t10:{seed}")
    mt = t10.translate()
    reqs, want, labels = [], [], []
    listed = [f"circuits._matrices.{nm} -> TranslatedMatrices.tr_{nm}" for nm in mt.defs]
    skipped = [f"{nm}: {why}" for nm, why in mt.failed.items()]
    with warnings.catch_warnings():
        warnings.simplefilter("ignore")
        for nm, (_text, k) in mt.defs.items():
            fn = getattr(mt.module, nm)
            n = 1 if k == 0 else (3 if "simplify" in inspect.getsource(fn) else per_fn)   # sympy.simplify is slow
            for _ in range(n):
                pts = [_point(rng) for _ in range(k)]
                try:
                    w = _np(fn(*[_theta(p) for p in pts]))
                except Exception as e:  # noqa: BLE001  (the factory itself fails on plain floats: nothing to compare with)
                    skipped.append(f"{nm}: the Python factory raised {type(e).__name__} at floats")
                    break
                reqs.append(("factory", {"f": nm, "angles": pts}))
                want.append(w)
                labels.append(f"{nm}{pts}")
        # the binding gate name -> factory
        from orquestra.quantum.circuits import _builtin_gates as bg
        bound = {g for g, f, k in t10.gate_bindings() if f is not None and f.__name__ in mt.defs}
        for gname, f, k in t10.gate_bindings():
            if gname not in bound:
                continue
            pts = [_point(rng) for _ in range(k)]
            obj = getattr(bg, gname)
            try:
                w = _np((obj(*[_theta(p) for p in pts]) if k else obj).matrix)
            except Exception as e:  # noqa: BLE001
                skipped.append(f"gate {gname}: .matrix raised {type(e).__name__}")
                continue
            reqs.append(("gate", {"gate": gname, "angles": pts}))
            want.append(w)
            labels.append(f"gate {gname}{pts}")
    drv = common.Driver("TRT10")
    if not drv.available():
        return 0, ["model driver not built"], skipped, listed
    got = drv.run(reqs) if reqs else []
    bad = []
    for lab, w, g in zip(labels, want, got):
        if not isinstance(g, list):
            bad.append(f"{lab}: translated definition answered {g!r}")
            continue
        m = _model(g)
        if m.shape != w.shape or not np.allclose(m, w, atol=TOL, rtol=0):
            bad.append(f"{lab}: python {w.tolist()!r}, translated definition {m.tolist()!r}")
    return len(reqs), bad, skipped, listed


if __name__ == "__main__":
    import time
    t0 = time.time()
    n, bad, skipped, listed = run()
    print(n, "comparisons,", len(bad), "disagreements, skipped:", skipped, f"{time.time() - t0:.1f}s")
    for b in bad[:10]:
        print("  ", b)
