"""Run the axiom audit of every property in parallel (used by setup.sh after the build, so that the first
quick check of each property finds a warm audit cache; each check still re-audits whenever any Lean source changed)."""
import concurrent.futures
import os
import re
import sys

sys.path.insert(0, os.path.dirname(os.path.dirname(os.path.abspath(__file__))))
from harness import common  # noqa: E402


def main():
    d = os.path.join(common.LEAN, "OQ", "Props")
    props = sorted(f[:-5] for f in os.listdir(d) if re.fullmatch(r"C\d\d\.lean", f))
    bad = 0
    with concurrent.futures.ThreadPoolExecutor(max_workers=8) as ex:
        for prop, res in zip(props, ex.map(lambda p: common.audit(p, force=True, lock=False), props)):
            n = len(res["theorems"])
            problems = res["bad_axioms"] + res["forbidden"]
            print(f"audit {prop}: {n} theorems, {len(problems)} problems")
            bad += len(problems)
    return 1 if bad else 0


if __name__ == "__main__":
    sys.exit(main())
