"""T17: the `matrix` properties of the gate classes and the `GateOperation` dataclass of circuits/_gates.py (extension of the class
translator harness/translate_cls.py, work package T1).

On every run the module's source is re-read with `ast` and `lean/OQ/Generated/TranslatedGatesMatrix.lean` is rewritten (it imports the
file of the class translator, `TranslatedGates.lean`, and lives in the same namespace):

  * `structure MExt (P F E Mx X)`: the sympy / numpy operations the bodies rely on, as PARAMETERS (`Mx` matrices, `X` the exceptions
    those operations raise; every external may raise, the bodies are rendered in A-normal form and every external call is bound with
    `Except.bind` in Python's evaluation order – receiver, then arguments left to right):
        ext_factory  f ps        `self.matrix_factory(*self.params)`      (a call of a field of type F with ONE starred tuple)
        ext_eye      n           `sympy.eye(n)`
        ext_diag     a b         `sympy.Matrix.diag(a, b)`
        ext_adjoint  a           `a.adjoint()`
        ext_matexp   a           `a.exp()`
        ext_matpow   a e         `a ** e`   (a matrix, e of the exponent type E)
        ext_lift_sympy / ext_lift_numpy  m qs n     `_lift_matrix_sympy(m, qs, n)` / `_lift_matrix_numpy(m, qs, n)`
  * `Gate.matrix`: ONE function by pattern matching on the constructor of the generated inductive `Gate P F E` (= dynamic dispatch),
    the case of class C rendered from the body `C.matrix` resolves to (as translate_cls does for the other members); a read of
    `.matrix` inside a `matrix` body must be on `self.<gate field>` (structural recursion), anything else is a TranslateError.
  * `structure GateOperation (P F E)` (the frozen dataclass: fields in source order) and one definition per member in OP_MEMBERS:
    `params`, `free_symbols`, `bind`, `replace_params` (error type: the generated `Err`, like the gate members) and `lifted_matrix`
    (error type X).

Additional expression forms (everything else is the subset of translate_cls; anything outside raises TranslateError, the definition
is then missing and the tie theorems that mention it fail to build):
  `a ** b` on ints (→ `a ^ Int.toNat b`: the exponent is trusted to be ≥ 0, as in harness/translate.py), `-` `+` `*` on ints,
  truthiness of a tuple / list (`if xs` → `List.isEmpty xs = false`), `GateOperation(g, qs)`, the forms listed with `MExt`.
A definition whose error type is X must not call a definition that raises the generated `Err` (TranslateError: the two exception
types are not merged).
NOT translated: `GateOperation.apply` (np.log2 / float power / isinstance / `@`), `__str__`.
Trusted: the typing below (FIELD / MEMBER tables), `sympy` / `_lift_matrix_*` being the imported module-level names (checked on the
import statements), and what translate_cls trusts.  The rendering is CHECKED on every run (harness/translated_check_t17.py)."""
import ast
import inspect

from . import translate_cls as tc
from .translate import TranslateError

MX = "Mx"
OP = "Op"
OPCLASS = "GateOperation"
# external -> (argument types, result type); every external returns `Except X <result>`
MEXT = {
    "ext_factory": (["F", "List P"], MX),
    "ext_eye": (["Int"], MX),
    "ext_diag": ([MX, MX], MX),
    "ext_adjoint": ([MX], MX),
    "ext_matexp": ([MX], MX),
    "ext_matpow": ([MX, "E"], MX),
    "ext_lift_sympy": ([MX, "List Int", "Int"], MX),
    "ext_lift_numpy": ([MX, "List Int", "Int"], MX),
}
MEXT_DOC = {
    "ext_factory": "`self.matrix_factory(*self.params)`", "ext_eye": "`sympy.eye(n)`", "ext_diag": "`sympy.Matrix.diag(a, b)`",
    "ext_adjoint": "`a.adjoint()`", "ext_matexp": "`a.exp()`", "ext_matpow": "`a ** e`",
    "ext_lift_sympy": "`_lift_matrix_sympy(m, qubit_indices, n)`", "ext_lift_numpy": "`_lift_matrix_numpy(m, qubit_indices, n)`",
}
SYMPY_FUNCS = {"sympy.eye": "ext_eye", "sympy.Matrix.diag": "ext_diag"}
MX_METHODS = {"adjoint": "ext_adjoint", "exp": "ext_matexp"}
MODULE_FUNCS = {"_lift_matrix_sympy": "ext_lift_sympy", "_lift_matrix_numpy": "ext_lift_numpy"}
OP_FIELD_TYPES = {"gate": tc.GATE, "qubit_indices": "List Int"}
# member of GateOperation -> (kind, argument types, result type, error type: "Err" | "X")
OP_MEMBERS = {
    "params": ("property", [], "List P", "Err"),
    "free_symbols": ("property", [], "List S", "Err"),
    "bind": ("method", ["M"], OP, "Err"),
    "replace_params": ("method", ["List P"], OP, "Err"),
    "lifted_matrix": ("method", ["Int"], MX, "X"),
}


def ltype(t):
    return "GateOperation P F E" if t == OP else tc.ltype(t)


class MCtx(tc.Ctx):
    """translate_cls.Ctx + the expression forms of this package.  `xkind`: the definition's error type is X (externals)"""

    def __init__(self, *a, xkind=False, **k):
        super().__init__(*a, **k)
        self.xkind = xkind
        self.uses_y = False

    def child(self, extra_env=None):
        c = MCtx(self.tr, self.fname, self.cname, self.self_term, self.field_terms, {**self.env, **(extra_env or {})}, self.in_init,
                 xkind=self.xkind)
        c.parent = self
        return c

    def absorb(self, c):
        super().absorb(c)
        self.uses_y |= getattr(c, "uses_y", False)

    # ------------------------------------------------------------------ calls
    def call(self, n, fn, args, ret, recv=None):
        if self.xkind and self.tr.raises.get(fn):
            raise self.err(n, f"`{fn}` can raise a library exception inside a definition whose exceptions are the externals' "
                              "(the two exception types are not merged)")
        return super().call(n, fn, args, ret, recv=recv)

    def ext(self, n, name, args):
        """a call of an external of MExt: always bound (it may raise)"""
        if not self.xkind:
            raise self.err(n, f"sympy / numpy operation `{name}` in a definition whose exceptions are the library's")
        argts, ret = MEXT[name]
        if len(args) != len(argts) or any(a.typ != t for a, t in zip(args, argts)):
            raise self.err(n, f"`{name}` expects ({', '.join(argts)}), got ({', '.join(a.typ for a in args)})")
        self.uses_y = True
        v = self.tr.fresh()
        self.binds.append((v, " ".join([f"y.{name}"] + [tc.paren(a.term) for a in args])))
        return tc.Val(v, ret)

    # ------------------------------------------------------------------ expressions
    def e(self, n):
        tr = self.tr
        if isinstance(n, ast.Name) and n.id == "self" and self.cname == OPCLASS:
            return tc.Val(self.self_term, OP, cls=self.cname)
        if isinstance(n, ast.Attribute):
            k = len(self.binds)
            r = self.e(n.value)
            if r.typ == OP:
                return self.op_member(n, r, n.attr, None)
            if r.typ == tc.GATE:
                return self.member(n, r, n.attr, None)
            del self.binds[k:]
            raise self.err(n, f"attribute of a value of type {r.typ}")
        if isinstance(n, ast.BinOp) and isinstance(n.op, ast.Pow):
            a, b = self.e(n.left), self.e(n.right)
            if a.typ == "Int" and b.typ == "Int":
                return tc.Val(f"({a.term} ^ Int.toNat {tc.paren(b.term)})", "Int")
            if a.typ == MX and b.typ == "E":
                return self.ext(n, "ext_matpow", [a, b])
            raise self.err(n, f"`**` on values of type {a.typ} / {b.typ}")
        return super().e(n)

    def cond(self, n, v):
        if v.typ.startswith("List "):  # truthiness of a tuple / list
            return f"(List.isEmpty {tc.paren(v.term)} = false)"
        return super().cond(n, v)

    def member(self, n, r, attr, args):
        if attr == "matrix" and not (r.cls is not None and r.term == self.self_term and attr in self.field_terms):
            if args is not None:
                raise self.err(n, "call of the result of property `matrix`")
            tr = self.tr
            if "matrix" in tr.mfailed:
                raise self.err(n, f"uses `matrix`, which is not translatable ({tr.mfailed['matrix']})")
            if not self.xkind:
                raise self.err(n, "`.matrix` in a definition whose exceptions are the library's")
            if self.fname == "matrix" and not r.structural:
                raise self.err(n, "recursive read of `.matrix` on something other than self.<gate field>: not structurally recursive")
            self.uses_y = True
            if tr.matrix_uses_x:
                self.uses_ext = True
            v = tr.fresh()
            self.binds.append((v, f"Gate.matrix {'x ' if tr.matrix_uses_x else ''}y {tc.paren(r.term)}"))
            return tc.Val(v, MX)
        return super().member(n, r, attr, args)

    def op_member(self, n, r, attr, args):
        if r.term == self.self_term and attr in self.field_terms:
            if args is not None:
                raise self.err(n, f"call of the field `{attr}`")
            t, ty = self.field_terms[attr]
            return tc.Val(t, ty)
        raise self.err(n, f"`.{attr}` of a GateOperation is not translated here")

    def callexpr(self, n):
        tr = self.tr
        f = n.func
        src = ast.unparse(f)
        # self.<field of type F>(*<tuple>)
        if (isinstance(f, ast.Attribute) and len(n.args) == 1 and isinstance(n.args[0], ast.Starred) and not n.keywords):
            r = self.e(f)
            a = self.e(n.args[0].value)
            if r.typ != "F":
                raise self.err(n, f"call with a starred argument of a value of type {r.typ}")
            return self.ext(n, "ext_factory", [r, a])
        if src in SYMPY_FUNCS:
            if "sympy" not in tr.plain_imports or n.keywords or any(isinstance(a, ast.Starred) for a in n.args):
                raise self.err(n, "sympy function with keyword / starred arguments, or `sympy` is not the imported module")
            return self.ext(n, SYMPY_FUNCS[src], [self.e(a) for a in n.args])
        if isinstance(f, ast.Name) and f.id in MODULE_FUNCS:
            if f.id not in tr.mod.imported or f.id in tr.mod.module_defs or f.id in self.env or n.keywords or any(
                    isinstance(a, ast.Starred) for a in n.args):
                raise self.err(n, f"`{f.id}` is not the imported function / unsupported argument form")
            return self.ext(n, MODULE_FUNCS[f.id], [self.e(a) for a in n.args])
        if isinstance(f, ast.Name) and f.id == OPCLASS and f.id not in self.env:
            if n.keywords or any(isinstance(a, ast.Starred) for a in n.args):
                raise self.err(n, "GateOperation(...) with keyword / starred arguments")
            fields = tr.op_fields
            args = [self.e(a) for a in n.args]
            if len(args) != len(fields) or any(a.typ != t for a, (_, t) in zip(args, fields)):
                raise self.err(n, f"GateOperation expects ({', '.join(t for _, t in fields)}), got ({', '.join(a.typ for a in args)})")
            if tr.op_post_init:
                raise self.err(n, "GateOperation has a __post_init__ (not supported)")
            return tc.Val(" ".join(["GateOperation.mk"] + [tc.paren(a.term) for a in args]), OP)
        if isinstance(f, ast.Attribute) and f.attr in MX_METHODS and not n.keywords:
            k = len(self.binds)
            r = self.e(f.value)
            if r.typ == MX:
                if n.args:
                    raise self.err(n, f"`.{f.attr}(…)` of a matrix with arguments")
                return self.ext(n, MX_METHODS[f.attr], [r])
            del self.binds[k:]
        return super().callexpr(n)


class Translator(tc.Translator):
    """the class translator + `Gate.matrix` and the `GateOperation` members"""

    def run(self):
        super().run()
        self.mfailed, self.mdefs, self.matrix_uses_x = {}, {}, False
        self.mmeta = {}   # definition -> {"x": needs the record Ext, "y": needs the record MExt, "eff": returns Except}
        tree = ast.parse(self.source)
        self.plain_imports = {a.asname or a.name for s in tree.body if isinstance(s, ast.Import) for a in s.names}
        try:
            self.mdefs["matrix"] = self.translate_matrix()
        except TranslateError as e:
            self.mfailed["matrix"] = str(e)
        self.op_fields, self.op_post_init = None, False
        try:
            self.read_op_class()
        except TranslateError as e:
            for m in OP_MEMBERS:
                self.mfailed["op_" + m] = str(e)
            return self
        for m in OP_MEMBERS:
            try:
                self.mdefs["op_" + m] = self.translate_op_member(m)
            except TranslateError as e:
                self.mfailed["op_" + m] = str(e)
        return self

    def __init__(self, source):
        self.source = source
        super().__init__(source)

    # ------------------------------------------------------------------ Gate.matrix
    def translate_matrix(self):
        for attempt in range(2):
            self._n = 0
            cases, uses_x = [], False
            for c in self.mod.classes:
                fields = self.mod.fields[c.name]
                fterms = {f[0]: ("self_" + f[0], f[1]) for f in fields}
                self_term = self.ctor_term(c.name, ["self_" + f[0] for f in fields])
                pat = " ".join([f".{c.name}"] + ["self_" + f[0] for f in fields])
                r = self.mod.resolve(c.name, "matrix")
                if r is None:
                    raise TranslateError(f"{c.name} has no attribute `matrix` (Python would raise AttributeError)")
                if r[0] == "field":
                    raise TranslateError(f"{c.name}.matrix is a dataclass field")
                k, fd, owner = r
                if k != "property" or fd is None:
                    raise TranslateError(f"{owner}.matrix is a {k}, expected a property")
                a = fd.args
                if a.vararg or a.kwarg or a.kwonlyargs or a.posonlyargs or a.defaults or len(a.args) != 1 or a.args[0].arg != "self":
                    raise TranslateError(f"{owner}.matrix: unsupported signature")
                ctx = MCtx(self, "matrix", c.name, self_term, fterms, {}, xkind=True)
                term, e = ctx.block(fd.body, MX, None)
                if not e:
                    term = f"Except.ok {tc.paren(term)}"
                cases.append((pat, term, f"{c.name}: `{owner}.matrix`"))
                uses_x |= ctx.uses_ext
            if uses_x == self.matrix_uses_x:
                break
            self.matrix_uses_x = uses_x  # a recursive call has to pass `x` along: render once more
        x = "(x : Ext P S M) " if self.matrix_uses_x else ""
        self.mmeta["matrix"] = {"x": self.matrix_uses_x, "y": True, "eff": True}
        out = ["/-- `.matrix` — " + "; ".join(d for _, _, d in cases) + " -/",
               f"def Gate.matrix {x}(y : MExt P F E Mx X) : Gate P F E → Except X Mx"]
        out += [f"  | {pat} => {term}" for pat, term, _ in cases]
        return "\n".join(out) + "\n"

    # ------------------------------------------------------------------ GateOperation
    def read_op_class(self):
        c = self.mod.all.get(OPCLASS)
        if c is None or not tc._is_dataclass(c.node):
            raise TranslateError(f"dataclass {OPCLASS} not found in the module")
        if c.bases:
            raise TranslateError(f"{OPCLASS} has base classes (method resolution order not modelled)")
        fs = []
        for name, ann, default in c.fields:
            t = OP_FIELD_TYPES.get(name)
            if t is None:
                raise TranslateError(f"{OPCLASS}.{name}: no Lean type known for a field annotated `{ast.unparse(ann)}`")
            if default is not None:
                raise TranslateError(f"{OPCLASS}.{name}: default value (not supported)")
            fs.append((name, t))
        self.op_fields = fs
        self.op_post_init = "__post_init__" in c.defs
        self.op_class = c

    def translate_op_member(self, m):
        self._n = 0
        kind, argts, ret, errk = OP_MEMBERS[m]
        c = self.op_class
        if m not in c.defs:
            raise TranslateError(f"{OPCLASS} has no member `{m}`")
        k, fd = c.defs[m]
        if k != kind:
            raise TranslateError(f"{OPCLASS}.{m} is a {k}, expected a {kind}")
        a = fd.args
        if a.vararg or a.kwarg or a.kwonlyargs or a.posonlyargs or a.defaults or not a.args or a.args[0].arg != "self":
            raise TranslateError(f"{OPCLASS}.{m}: unsupported signature")
        params = [p.arg for p in a.args[1:]]
        if len(params) != len(argts):
            raise TranslateError(f"{OPCLASS}.{m} takes {len(params)} argument(s), declared {len(argts)}")
        fterms = {n: ("self_" + n, t) for n, t in self.op_fields}
        self_term = " ".join(["GateOperation.mk"] + ["self_" + n for n, _ in self.op_fields])
        env = {p: tc.Val(tc.lname(p), t) for p, t in zip(params, argts)}
        ctx = MCtx(self, "op_" + m, OPCLASS, self_term, fterms, env, xkind=(errk == "X"))
        term, e = ctx.block(fd.body, ret, None)
        if errk == "X" and not e:
            term, e = f"Except.ok {tc.paren(term)}", True
        rt = ltype(ret)
        if e:
            rt = f"Except {'X' if errk == 'X' else 'Err'} {tc.paren(rt)}"
        sig = ("(x : Ext P S M) " if ctx.uses_ext else "") + ("(y : MExt P F E Mx X) " if ctx.uses_y else "")
        sig += "(self : GateOperation P F E) " + " ".join(f"({tc.lname(p)} : {ltype(t)})" for p, t in zip(params, argts))
        pat = " ".join("self_" + n for n, _ in self.op_fields)
        self.mmeta["op_" + m] = {"x": ctx.uses_ext, "y": ctx.uses_y, "eff": e}
        return (f"/-- `GateOperation.{m}`" + ("" if kind == "property" else "(…)") + " -/\n"
                f"def GateOperation.{m} {sig.strip()} : {rt} :=\n  match self with\n  | ⟨{pat.replace(' ', ', ')}⟩ => {term}\n")

    # ------------------------------------------------------------------ rendering
    def render_matrix(self):
        out = ["-- generated by harness/translate_t17.py from the current source of orquestra/quantum/circuits/_gates.py — do not edit",
               "import OQ.Generated.TranslatedGates", "set_option linter.unusedVariables false",
               "namespace OQ.Generated.TranslatedGates", "",
               "/-- the sympy / numpy operations the `matrix` properties and `GateOperation.lifted_matrix` rely on: PARAMETERS.",
               "    `Mx` matrices, `X` the exceptions these operations raise -/",
               "structure MExt (P F E Mx X : Type) where"]
        for name, (argts, ret) in MEXT.items():
            out.append(f"  /-- {MEXT_DOC[name]} -/")
            out.append(f"  {name} : " + " → ".join(argts + [f"Except X {ret}"]))
        out += ["", "variable {P F E S M Mx X : Type}", ""]
        if "matrix" in self.mdefs:
            out.append(self.mdefs["matrix"])
        if self.op_fields is not None:
            out += ["/-- the frozen dataclass `GateOperation`: one field per dataclass field, in source order -/",
                    "structure GateOperation (P F E : Type) where"]
            out += [f"  {n} : {ltype(t)}" for n, t in self.op_fields] + [""]
            for m in OP_MEMBERS:
                if "op_" + m in self.mdefs:
                    out.append(self.mdefs["op_" + m])
        for f, why in self.mfailed.items():
            nm = "Gate.matrix" if f == "matrix" else "GateOperation." + f[3:]
            out.append(f"-- {nm}: NOT TRANSLATABLE — {why}")
        out += ["", "-- not translated: GateOperation.apply (np.log2 / float power / isinstance / `@`), __str__",
                "end OQ.Generated.TranslatedGates"]
        return "\n".join(out) + "\n"


def translate(source=None):
    """-> Translator (run), from the module of the tree under test"""
    return Translator(tc.load_source() if source is None else source).run()


if __name__ == "__main__":
    from . import common
    common.use_repo()
    t = translate()
    print(t.render_matrix())
    print("failed:", t.mfailed)
