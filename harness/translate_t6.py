"""T6: extensions of the Python -> Lean translator (harness/translate.py) for
  * functions that RAISE, rendered with the exception class as a value: the translated definition returns
    `Except OQ.Py.Exc τ`, `raise X(…)` is `.error .X` (mode "except"; X must be a constructor of `OQ.Py.Exc`).  Sub-expressions that
    can raise (`int(s)` on a str, `d[k]` on a dict, calls of translated functions that raise, calls of opaque callables declared
    as raising) are bound IN EVALUATION ORDER by `match … with | .error e => .error e | .ok _tK => …` before the statement that
    contains them; a raising sub-expression in a conditionally evaluated position (conditional expression, `and`/`or`,
    comprehension body) is outside the subset (TranslateError) – except the one comprehension form below;
  * `@singledispatch` FAMILIES (`translate_family`): the `.register` decorations and the first-parameter annotations are read
    from the module source on every run; the family becomes ONE Lean function by pattern matching on an inductive whose
    constructors are the classes declared in the spec (NamedTuple classes: their fields are read from the class source, in
    source order; `numbers.Number`: an opaque payload), each arm being the body of the overload singledispatch would select
    (exact class, else the most specific registered ancestor in the declared class order, else the undecorated base function);
    an overload registered for a class outside the declared universe is a TranslateError.  Functions that are mutually recursive
    with the family are emitted in the same `mutual` block; `return tuple(f(x, …) for x in xs)` over a parameter `xs`, with an
    element expression that can raise, is rendered as structural recursion on `xs` (first exception wins, left to right) so that
    Lean sees the recursion through the argument list (no `partial`, no fuel);
  * records of callables (`ExpressionDialect`): a generated `structure` (field names and order read from the class source, field
    types declared in the spec); a dict-valued field is seen through `in` / `[]` only and is a function `κ → Option ν`;
  * key factories / closures: `def outer(a): …; def inner(b): …; return inner` becomes a definition with the binders of `outer`
    followed by those of `inner` (`*args` is one list binder);
  * `while True:` loops with `break`: an auxiliary recursive definition over an explicit FUEL (`Nat`) carrying the tuple of the
    variables the body assigns (in order of first assignment); fuel exhausted = `.error .OutOfFuel`; the translated function gets
    a leading binder `(fuel : Nat)`;
  * a CUT: the first statement that mentions a name declared `outside` (numpy) ends the translation; the translated function
    returns the values the rest is computed from (the locals assigned so far that the remainder reads, in order of first
    assignment), `return e` before the cut becomes `.inl e`, the cut `.inr (…)`;
  * expressions: `re.split(r"(\\d+)", s)` (exactly this pattern), `s.isdigit()`, `int(s)` on a str (mode "total": documented
    domain `s.isdigit()`, rendered `OQ.Py.intOfDigits`; mode "except": `OQ.Py.intParse`, ValueError), `reversed(xs)`,
    `s.split("c")` (one-character constant), tuple-unpacking assignment from a list (ValueError unless the length matches),
    `enumerate(xs)` in comprehensions, dict comprehensions (`OQ.Py.Dict`, the list of pairs in generation order; `d[k]` finds the
    LAST pair, KeyError otherwise), `"s" * k`, `int(s, base=2)`, `isinstance(x, int)` for `x : Int` (true), `reduce(f, xs)`,
    conditional expressions whose branches are an int and a str (type `OQ.Py.IntOrStr`), `del x`, annotated assignments,
    calls of declared effect-only functions (`warn`) are skipped; `a and b` / `a or b` whose later operands can raise (rendered
    with Python's short-circuit order); on OPAQUE objects: `x.attr` of any opaque-valued expression (declared attributes),
    `xs[k]` for a constant `k ≥ 0` on a list of opaque values (IndexError when too short), and the externals
    `isinstance(x, C)` for a declared class `C` (`ext_isinstance_C : α → Bool`) and `x == k` against an int (`ext_eq_int`).
DOMAIN notes (as in translate.py): strings whose digit characters are ASCII; `\\d`, `str.isdigit` and `int` of CPython differ
from each other on non-ASCII digits (e.g. '²'.isdigit() is True, `\\d` does not match it and int('²') raises).
"""
import ast
import inspect
import textwrap

from . import translate as tr
from .translate import (BOOL, CHAR, INT, LSTR, OPAQUE, STR, TranslateError, char_lit, elem, is_list, list_of, paren)

IOS = "OQ.Py.IntOrStr"
LIOS = "List OQ.Py.IntOrStr"
EXC = "OQ.Py.Exc"
EXC_NAMES = ("ValueError", "TypeError", "KeyError", "NotImplementedError", "IndexError")


class Fn(str):
    """type of an opaque callable: args (list of types; with varargs: the single element type), ret, raises?"""
    def __new__(cls, args, ret, raises=False, varargs=False):
        r = f"Except {EXC} {paren(ret)}" if raises else ret
        if varargs:
            text = f"{paren(list_of(args[0]))} → {r}"
        else:
            text = " → ".join([paren(a) for a in args] + [r])
        o = super().__new__(cls, text)
        o.args, o.ret, o.raises, o.varargs = list(args), ret, raises, varargs
        return o


class DictFn(str):
    """a dict seen through `in` / `[]` only: κ → Option ν"""
    def __new__(cls, key, val):
        o = super().__new__(cls, f"{paren(key)} → Option ({val})")
        o.key, o.val = key, val
        return o


class DictL(str):
    """a dict built by a comprehension: OQ.Py.Dict κ ν (pairs in generation order)"""
    def __new__(cls, key, val):
        o = super().__new__(cls, f"OQ.Py.Dict {paren(key)} {paren(val)}")
        o.key, o.val = key, val
        return o


class Rec(str):
    """a record of declared fields (a generated structure)"""
    def __new__(cls, text, fields):
        o = super().__new__(cls, text)
        o.fields = dict(fields)
        return o


class Bound(str):
    """a NamedTuple value bound by a constructor pattern: field -> (lean variable, type)"""
    def __new__(cls, text, fields):
        o = super().__new__(cls, text)
        o.fields = dict(fields)
        return o


class Ctx:
    def __init__(self):
        self.pending = []        # (temp, Except-valued lean text, type) in evaluation order
        self.n = 0
        self.known = {}          # python callee text -> dict(lean=, args=[types], ret=, raises=bool)
        self.ignored = set()     # effect-only callees that are skipped (`warn`)
        self.outside = set()     # names whose first mention ends the translation (the CUT)
        self.ret_inl = None      # with a cut: the type of early `return e`
        self.cut_type = None     # the live tuple type found at the cut
        self.cut_live = None
        self.stores = []         # names assigned anywhere in the function, in source order
        self.inner_types = None  # closure pattern: types of the inner function's parameters
        self.extra_binders = []  # closure pattern: binders of the inner function
        self.aux = []            # auxiliary definitions (loops), emitted before the function
        self.fname = "f"
        self.params = []         # (name, type) of the current function
        self.needs_fuel = False
        self.self_call = None    # (lean name, [param names]) for the structural-recursion comprehension rule
        self.implicit = ""       # implicit binders text repeated on auxiliary definitions
        self.exts = {}           # external behaviour as parameters: name -> type (binders `ext_<name>`)

    def fresh(self, p="_t"):
        self.n += 1
        return f"{p}{self.n}"


def _names_read(nodes):
    out = set()
    for n in nodes:
        for x in ast.walk(n):
            if isinstance(x, ast.Name) and isinstance(x.ctx, ast.Load):
                out.add(x.id)
    return out


def _mentions(node, names):
    return any(isinstance(x, ast.Name) and x.id in names for x in ast.walk(node))


def _stores_in_order(fn_node):
    """names with a Store occurrence (assignment targets, incl. `xs.append` receivers), in source order"""
    found = []
    for x in ast.walk(fn_node):
        if isinstance(x, ast.Name) and isinstance(x.ctx, ast.Store):
            found.append((x.lineno, x.col_offset, x.id))
        if isinstance(x, ast.Call) and isinstance(x.func, ast.Attribute) and x.func.attr == "append" \
                and isinstance(x.func.value, ast.Name):
            found.append((x.lineno, x.col_offset, x.func.value.id))
    out = []
    for _, _, name in sorted(found):
        if name not in out:
            out.append(name)
    return out


def _assigned_in_loop(stmts):
    """names (re)assigned in a while body, in order of first assignment"""
    found = []
    for s in stmts:
        for x in ast.walk(s):
            if isinstance(x, (ast.Return, ast.Continue, ast.While, ast.For, ast.FunctionDef)):
                raise TranslateError(f"{type(x).__name__} inside a while body")
            if isinstance(x, ast.Name) and isinstance(x.ctx, ast.Store):
                found.append((x.lineno, x.col_offset, x.id))
            if isinstance(x, ast.Call) and isinstance(x.func, ast.Attribute) and x.func.attr == "append" \
                    and isinstance(x.func.value, ast.Name):
                found.append((x.lineno, x.col_offset, x.func.value.id))
    out = []
    for _, _, name in sorted(found):
        if name not in out:
            out.append(name)
    return out


def _dotted(n):
    if isinstance(n, ast.Name):
        return n.id
    if isinstance(n, ast.Attribute):
        b = _dotted(n.value)
        return None if b is None else b + "." + n.attr
    return None


def _tuple_type(ts):
    return " × ".join(paren(t) if (" " in t) else t for t in ts)


class T6(tr.T):
    KNOWN = {}  # the base class's table of translated callees is not used here (see Ctx.known)

    def __init__(self, env, ret, mode="total", attrs=None, local_types=None, ctx=None, loop=None):
        super().__init__(env, ret, False, attrs, local_types)
        self.mode = mode
        self.ctx = ctx or Ctx()
        self.loop = loop  # (state names, state types) while translating a `while` body

    def sub(self, extra):
        return T6({**self.env, **extra}, self.ret, self.mode, self.attrs, self.local_types, self.ctx, self.loop)

    def without(self, name):
        env = dict(self.env)
        env.pop(name, None)
        return T6(env, self.ret, self.mode, self.attrs, self.local_types, self.ctx, self.loop)

    # ------------------------------------------------------------------ raising sub-expressions
    def raising(self, rhs, typ):
        if self.mode != "except":
            raise TranslateError("an expression that can raise, in a function declared total")
        v = self.ctx.fresh()
        self.ctx.pending.append((v, f"({rhs} : Except {EXC} {paren(typ)})", typ))
        return v, typ

    def pure(self, node):
        """translate an expression that sits in a conditionally evaluated position: it must not bind anything"""
        k = len(self.ctx.pending)
        r = self.e(node)
        if len(self.ctx.pending) != k:
            raise TranslateError("an expression that can raise, in a conditionally evaluated position")
        return r

    def take(self):
        p, self.ctx.pending = self.ctx.pending, []
        return p

    @staticmethod
    def seq(pend, inner):
        for var, rhs, _typ in reversed(pend):
            inner = f"(match {rhs} with\n  | .error _e => .error _e\n  | .ok {var} =>\n  {inner})"
        return inner

    # ------------------------------------------------------------------ expressions
    def e(self, n):
        if isinstance(n, ast.Name) and isinstance(self.env.get(n.id), Bound):
            b = self.env[n.id]
            if len(b.fields) == 1:          # a one-field NamedTuple is passed around as its field
                (v, t), = b.fields.values()
                return v, t
            return "(" + ", ".join(v for v, _ in b.fields.values()) + ")", _tuple_type([t for _, t in b.fields.values()])
        if isinstance(n, ast.Attribute) and isinstance(n.value, ast.Name):
            t = self.env.get(n.value.id)
            if isinstance(t, Bound):
                if n.attr not in t.fields:
                    raise TranslateError(f"field {n.attr} of {t}")
                return t.fields[n.attr]
            if isinstance(t, Rec):
                if n.attr not in t.fields:
                    raise TranslateError(f"field {n.attr} of {t}")
                return f"{n.value.id}.{n.attr}", t.fields[n.attr]
        if isinstance(n, ast.IfExp):
            c, tc = self.e(n.test)
            a, ta = self.pure(n.body)
            b, tb = self.pure(n.orelse)
            if tc != BOOL:
                raise TranslateError("ifexp test")
            if ta != tb and {ta, tb} <= {INT, STR}:
                a, b = self.coerce(a, ta, IOS), self.coerce(b, tb, IOS)
                ta = tb = IOS
            if ta != tb:
                raise TranslateError("ifexp types")
            return f"(if {c} then {a} else {b})", ta
        if isinstance(n, ast.BoolOp):
            parts = []
            for v in n.values:
                k = len(self.ctx.pending)
                txt, t = self.e(v)
                pend = self.ctx.pending[k:]
                del self.ctx.pending[k:]
                if t != BOOL:
                    raise TranslateError("boolop on non-bool")
                parts.append((txt, pend))
            if not any(pend for _, pend in parts[1:]):
                self.ctx.pending += parts[0][1]
                j = " && " if isinstance(n.op, ast.And) else " || "
                return "(" + j.join(p for p, _ in parts) + ")", BOOL
            # an operand after the first can raise: it is evaluated only if the operands before it did not decide the result
            is_and = isinstance(n.op, ast.And)
            txt, pend = parts[-1]
            acc = self.seq(pend, f"(.ok {txt})")
            for txt, pend in reversed(parts[:-1]):
                acc = self.seq(pend, f"(if {txt} then {acc} else (.ok false))" if is_and else f"(if {txt} then (.ok true) else {acc})")
            return self.raising(acc, BOOL)
        if isinstance(n, ast.Attribute) and not isinstance(n.value, ast.Name) and n.attr in self.attrs:
            k = len(self.ctx.pending)
            v, t = self.e(n.value)
            if t == OPAQUE:
                return f"(attr_{n.attr} {v})", self.attrs[n.attr]
            del self.ctx.pending[k:]
        if isinstance(n, ast.DictComp):
            if len(n.generators) != 1 or n.generators[0].ifs:
                raise TranslateError("dict comprehension form")
            pair = ast.Tuple(elts=[n.key, n.value], ctx=ast.Load())
            k = len(self.ctx.pending)
            text, t = self._gen(n.generators, pair)
            if len(self.ctx.pending) != k:
                raise TranslateError("an expression that can raise, inside a comprehension")
            kt, vt = tr.prod_parts(elem(t))
            return text, DictL(kt, vt)
        if isinstance(n, (ast.ListComp, ast.GeneratorExp)):
            k = len(self.ctx.pending)
            r = super().e(n)
            if len(self.ctx.pending) != k:
                raise TranslateError("an expression that can raise, inside a comprehension")
            return r
        if isinstance(n, ast.UnaryOp) and isinstance(n.op, ast.Not):
            v, t = self.e(n.operand)
            if t != BOOL:
                raise TranslateError("not on non-bool")
            return f"(!{v})", BOOL
        return super().e(n)

    def coerce(self, v, t, want):
        if t == want:
            return v
        if want == IOS and t == INT:
            return f"(OQ.Py.IntOrStr.int {v})"
        if want == IOS and t == STR:
            return f"(OQ.Py.IntOrStr.str {v})"
        raise TranslateError(f"type {t}, wanted {want}")

    def binop(self, n):
        if isinstance(n.op, ast.Mult):
            k = len(self.ctx.pending)
            a, ta = self.e(n.left)
            b, tb = self.e(n.right)
            if {ta, tb} == {INT, STR} and ta != tb:
                cnt, s = (a, b) if ta == INT else (b, a)
                return f"((List.replicate (Int.toNat {cnt}) {s}).flatten)", STR
            del self.ctx.pending[k:]
        return super().binop(n)

    def compare(self, n):
        if len(n.ops) == 1 and isinstance(n.ops[0], (ast.Eq, ast.NotEq)) and "eq_int" in self.ctx.exts:
            # `x == k` between an opaque object and an int: the object's own `__eq__` – an external (`ext_eq_int`)
            k = len(self.ctx.pending)
            a, ta = self.e(n.left)
            b, tb = self.e(n.comparators[0])
            if ta == OPAQUE and tb == INT:
                c = f"(ext_eq_int {a} {b})"
                return (f"(!{c})" if isinstance(n.ops[0], ast.NotEq) else c), BOOL
            del self.ctx.pending[k:]
        if len(n.ops) == 1 and isinstance(n.ops[0], (ast.In, ast.NotIn)):
            k = len(self.ctx.pending)
            b, tb = self.e(n.comparators[0])
            if not isinstance(tb, DictFn):
                del self.ctx.pending[k:]
            else:
                a, ta = self.e(n.left)
                if ta != tb.key:
                    raise TranslateError("dict key type")
                c = f"(({b} {a}).isSome)"
                return (f"(!{c})" if isinstance(n.ops[0], ast.NotIn) else c), BOOL
        return super().compare(n)

    def subscript(self, n):
        if not isinstance(n.slice, ast.Slice):
            k = len(self.ctx.pending)
            a, ta = self.e(n.value)
            if is_list(ta) and elem(ta) not in tr.DEFAULTS and isinstance(n.slice, ast.Constant) \
                    and isinstance(n.slice.value, int) and not isinstance(n.slice.value, bool) and n.slice.value >= 0:
                # xs[k] for a constant k ≥ 0 on a list of opaque values: IndexError when the list is too short
                return self.raising(f"(match {a}[{n.slice.value}]? with | some _v => Except.ok _v | none => Except.error {EXC}.IndexError)",
                                    elem(ta))
            if isinstance(ta, DictFn):
                i, ti = self.e(n.slice)
                if ti != ta.key:
                    raise TranslateError("dict key type")
                return self.raising(f"(match {a} {i} with | some _v => Except.ok _v | none => Except.error {EXC}.KeyError)", ta.val)
            if isinstance(ta, DictL):
                i, ti = self.e(n.slice)
                if ti != ta.key:
                    raise TranslateError("dict key type")
                return self.raising(f"(OQ.Py.dictGet {a} {i})", ta.val)
            del self.ctx.pending[k:]
        return super().subscript(n)

    def _known_call(self, key, n):
        kn = self.ctx.known[key]
        args = []
        for a in n.args:
            args.append(self.e(a))
        if n.keywords or [t for _, t in args] != list(kn["args"]):
            raise TranslateError(f"call of {key} with {[str(t) for _, t in args]}")
        text = "(" + kn["lean"] + " " + " ".join(a for a, _ in args) + ")"
        if kn.get("raises"):
            return self.raising(text, kn["ret"])
        return text, kn["ret"]

    def call(self, n):
        f = n.func
        key = _dotted(f)
        if key is not None and key in self.ctx.known:
            return self._known_call(key, n)
        # ---- calls of opaque callables: a record field, a dict entry, a local holding a callable
        ft = None
        if isinstance(f, ast.Attribute) and isinstance(f.value, ast.Name) and isinstance(self.env.get(f.value.id), Rec):
            fv, ft = self.e(f)
        elif isinstance(f, ast.Subscript):
            fv, ft = self.e(f)
        elif isinstance(f, ast.Name) and isinstance(self.env.get(f.id), Fn):
            fv, ft = f.id, self.env[f.id]
        if ft is not None:
            if not isinstance(ft, Fn) or n.keywords:
                raise TranslateError("call of a non-callable")
            if ft.varargs:
                if len(n.args) == 1 and isinstance(n.args[0], ast.Starred):
                    a, ta = self.e(n.args[0].value)
                    if ta != list_of(ft.args[0]):
                        raise TranslateError("starred argument type")
                    text = f"({fv} {a})"
                else:
                    args = [self.e(a) for a in n.args]
                    if any(isinstance(a, ast.Starred) for a in n.args) or any(t != ft.args[0] for _, t in args):
                        raise TranslateError("varargs call")
                    text = f"({fv} [" + ", ".join(a for a, _ in args) + "])"
            else:
                args = [self.e(a) for a in n.args]
                if any(isinstance(a, ast.Starred) for a in n.args) or [t for _, t in args] != ft.args:
                    raise TranslateError(f"call of an opaque callable with {[str(t) for _, t in args]}")
                text = f"({fv} " + " ".join(a for a, _ in args) + ")"
            if ft.raises:
                return self.raising(text, ft.ret)
            return text, ft.ret
        # ---- methods
        if isinstance(f, ast.Attribute):
            recv, meth = f.value, f.attr
            if isinstance(recv, ast.Name) and recv.id == "re" and meth == "split" and len(n.args) == 2 and not n.keywords:
                pat = n.args[0]
                if not (isinstance(pat, ast.Constant) and pat.value == r"(\d+)"):
                    raise TranslateError("re.split with a pattern other than r\"(\\d+)\"")
                s, ts = self.e(n.args[1])
                if ts != STR:
                    raise TranslateError("re.split of a non-str")
                return f"(OQ.Py.reSplitDigits {s})", LSTR
            if not (isinstance(recv, ast.Name) and recv.id == "np") and not n.keywords:
                k = len(self.ctx.pending)
                r, tr_ = self.e(recv)
                if tr_ == STR and meth in ("isdigit", "isdecimal") and not n.args:  # (the same on the documented ASCII-digit domain)
                    return f"(OQ.Py.isdigit {r})", BOOL
                if tr_ == STR and meth == "split" and len(n.args) == 1 and isinstance(n.args[0], ast.Constant) \
                        and isinstance(n.args[0].value, str) and len(n.args[0].value) == 1:
                    return f"(OQ.Py.splitChar {r} {char_lit(n.args[0].value)})", LSTR
                del self.ctx.pending[k:]
            return super().call(n)
        if isinstance(f, ast.Name):
            name = f.id
            if name == "int" and len(n.args) == 1 and len(n.keywords) == 1 and n.keywords[0].arg == "base" \
                    and isinstance(n.keywords[0].value, ast.Constant) and n.keywords[0].value.value == 2:
                s, ts = self.e(n.args[0])
                if ts == STR:
                    return f"(OQ.Py.intBase2 {s})", INT
                raise TranslateError("int(non-str, base=2)")
            if n.keywords:
                raise TranslateError("keyword arguments")
            if name == "int" and len(n.args) == 1:
                s, ts = self.e(n.args[0])
                if ts == STR:
                    if self.mode == "except":
                        return self.raising(f"(OQ.Py.intParse {s})", INT)
                    return f"(OQ.Py.intOfDigits {s})", INT   # documented domain: s.isdigit()
                if ts == INT:
                    return s, INT
                if ts == CHAR:
                    return f"(OQ.Py.charDigit {s})", INT
                raise TranslateError(f"int({ts})")
            if name == "isinstance" and len(n.args) == 2 and ("isinstance_" + str(_dotted(n.args[1])).replace(".", "_")) in self.ctx.exts:
                # `isinstance(x, C)` for an opaque object and a declared class: an external predicate
                v, t = self.e(n.args[0])
                if t != OPAQUE:
                    raise TranslateError("isinstance on a non-opaque value")
                return f"(ext_isinstance_{_dotted(n.args[1]).replace('.', '_')} {v})", BOOL
            if name == "isinstance" and len(n.args) == 2 and isinstance(n.args[1], ast.Name) and n.args[1].id == "int":
                _v, t = self.e(n.args[0])
                if t == INT:
                    return "true", BOOL
                raise TranslateError("isinstance on a non-int")
            if name == "reversed" and len(n.args) == 1:
                v, t = self.e(n.args[0])
                if is_list(t):
                    return f"({v}.reverse)", t
                raise TranslateError("reversed of a non-list")
            if name == "reduce" and len(n.args) == 2:
                op, top = self.e(n.args[0])
                xs, txs = self.e(n.args[1])
                if isinstance(top, Fn) and not top.raises and not top.varargs and len(top.args) == 2 \
                        and top.args[0] == top.args[1] == top.ret and txs == list_of(top.ret):
                    return self.raising(f"(OQ.Py.reduce {op} {xs})", top.ret)
                raise TranslateError("reduce form")
            if name == "enumerate" and len(n.args) == 1:
                xs, txs = self.e(n.args[0])
                if not is_list(txs):
                    raise TranslateError("enumerate over non-list")
                te = elem(txs)
                return (f"({xs}.zipIdx.map (fun (_p : {paren(te)} × Nat) => (((_p.2 : Nat) : Int), _p.1)))",
                        list_of(f"Int × {paren(te)}"))
        return super().call(n)

    # ------------------------------------------------------------------ statements (mode "except")
    def ok(self, v):
        return f"(.ok {v})"

    def ret_text(self, v, t):
        """`return v` (before a cut: `.inl v`)"""
        c = self.ctx
        if c.outside:
            if c.ret_inl is None or t != c.ret_inl:
                raise TranslateError(f"early return of type {t}")
            return f"(.ok (.inl {v}))"
        return self.ok(self.coerce(v, t, self.ret))

    def state_tuple(self):
        names, tys = self.loop
        for x, t in zip(names, tys):
            if self.env.get(x) != t:
                raise TranslateError(f"loop changes the type of {x}")
        return "(" + ", ".join(names) + ")"

    def block(self, stmts, tail=None):
        if self.mode != "except":
            return super().block(stmts, tail)
        return self.block_x(stmts, tail)

    def block_x(self, stmts, tail):
        """tail: None (falling off the end is an error) or a function T6 -> lean text used when the block ends"""
        c = self.ctx
        assert not c.pending
        if not stmts:
            if tail is None:
                raise TranslateError("block falls off without return")
            return tail(self)
        s, rest = stmts[0], stmts[1:]
        # ---- the CUT: the first simple statement that mentions an outside name
        if c.outside and not isinstance(s, (ast.If, ast.While, ast.For)) and _mentions(s, c.outside):
            reads = _names_read([s] + list(rest))
            live = [x for x in c.stores if x in self.env and x in reads]
            tys = [self.env[x] for x in live]
            ct = _tuple_type(tys) if live else "Unit"
            if c.cut_type is not None and (c.cut_type != ct or c.cut_live != live):
                raise TranslateError("the cut is reached with different live variables on different paths")
            c.cut_live, c.cut_type = live, ct
            val = "(" + ", ".join(live) + ")" if live else "()"
            if len(live) == 1:
                val = live[0]
            return f"(.ok (.inr {val}))" if c.ret_inl is not None else f"(.ok {val})"
        if isinstance(s, ast.Expr) and isinstance(s.value, ast.Constant) and isinstance(s.value.value, str):
            return self.block_x(rest, tail)
        if isinstance(s, ast.Pass):
            return self.block_x(rest, tail)
        if isinstance(s, ast.Delete):
            cur = self
            for t in s.targets:
                if not isinstance(t, ast.Name):
                    raise TranslateError("del of a non-name")
                cur = cur.without(t.id)
            return cur.block_x(rest, tail)
        if isinstance(s, ast.Expr) and isinstance(s.value, ast.Call) and _dotted(s.value.func) in c.ignored:
            return self.block_x(rest, tail)
        if isinstance(s, ast.Break):
            if self.loop is None or rest:
                raise TranslateError("break outside a loop / followed by statements")
            return f"(.ok (true, {self.state_tuple()}))"
        if isinstance(s, ast.Return):
            if tail is not None or self.loop is not None:
                raise TranslateError("return inside a loop body")
            if s.value is None:
                raise TranslateError("bare return")
            special = self._comprehension_recursion(s.value)
            if special is not None:
                return special
            v, t = self.e(s.value)
            pend = self.take()
            if pend and v == pend[-1][0] and not c.outside and t == self.ret:
                return self.seq(pend[:-1], pend[-1][1])   # tail position: the raising call is the result
            return self.seq(pend, self.ret_text(v, t))
        if isinstance(s, ast.Raise):
            exc = s.exc
            name = _dotted(exc.func) if isinstance(exc, ast.Call) else _dotted(exc) if exc is not None else None
            if name not in EXC_NAMES:
                raise TranslateError(f"raise of {name}")
            return f"(.error {EXC}.{name})"
        if isinstance(s, ast.FunctionDef):
            # closure pattern: def inner(…): …; return inner
            if not (len(rest) == 1 and isinstance(rest[0], ast.Return) and isinstance(rest[0].value, ast.Name)
                    and rest[0].value.id == s.name) or tail is not None or c.inner_types is None or s.decorator_list:
                raise TranslateError("nested function that is not returned as a closure")
            a = s.args
            if a.kwonlyargs or a.kwarg or a.defaults or a.posonlyargs:
                raise TranslateError("inner function signature")
            names = [x.arg for x in a.args] + ([a.vararg.arg] if a.vararg else [])
            if len(names) != len(c.inner_types):
                raise TranslateError("inner function arity")
            for x in names:
                if x in self.env:
                    raise TranslateError("inner parameter shadows an outer name")
            c.extra_binders = list(zip(names, c.inner_types))
            c.stores += [x for x in _stores_in_order(s) if x not in c.stores]
            return self.sub(dict(zip(names, c.inner_types))).block_x(s.body, None)
        if isinstance(s, ast.AnnAssign) and isinstance(s.target, ast.Name) and s.value is not None:
            s = ast.Assign(targets=[s.target], value=s.value)
        if isinstance(s, ast.Assign) and len(s.targets) == 1 and isinstance(s.targets[0], ast.Name) \
                and isinstance(s.value, (ast.List, ast.Tuple)) and not s.value.elts:
            name = s.targets[0].id
            if name not in self.local_types:
                raise TranslateError(f"empty literal for {name} (no declared type)")
            t = self.local_types[name]
            return f"let {name} : {t} := []\n  {self.sub({name: t}).block_x(rest, tail)}"
        if isinstance(s, ast.Assign) and len(s.targets) == 1 and isinstance(s.targets[0], ast.Name):
            v, t = self.e(s.value)
            pend = self.take()
            name = s.targets[0].id
            return self.seq(pend, f"let {name} : {t} := {v}\n  {self.sub({name: t}).block_x(rest, tail)}")
        if isinstance(s, ast.Assign) and len(s.targets) == 1 and isinstance(s.targets[0], ast.Tuple) \
                and all(isinstance(x, ast.Name) for x in s.targets[0].elts):
            v, t = self.e(s.value)
            pend = self.take()
            if not is_list(t):
                raise TranslateError("tuple unpacking of a non-list")
            names = [x.id for x in s.targets[0].elts]
            body = self.sub({x: elem(t) for x in names}).block_x(rest, tail)
            return self.seq(pend, f"(match {v} with\n  | [{', '.join(names)}] =>\n  {body}\n  | _ => .error {EXC}.ValueError)")
        if isinstance(s, ast.AugAssign) and isinstance(s.target, ast.Name):
            name = s.target.id
            v, t = self.binop(ast.BinOp(left=ast.Name(id=name, ctx=ast.Load()), op=s.op, right=s.value))
            pend = self.take()
            if name not in self.env or self.env[name] != t:
                raise TranslateError("augmented assignment changes type")
            return self.seq(pend, f"let {name} : {t} := {v}\n  {self.block_x(rest, tail)}")
        if isinstance(s, ast.Expr) and isinstance(s.value, ast.Call) and isinstance(s.value.func, ast.Attribute) \
                and s.value.func.attr == "append" and isinstance(s.value.func.value, ast.Name) and len(s.value.args) == 1:
            name = s.value.func.value.id
            v, t = self.e(s.value.args[0])
            pend = self.take()
            if name not in self.env or self.env[name] != list_of(t):
                raise TranslateError("append type")
            return self.seq(pend, f"let {name} : {self.env[name]} := {name} ++ [{v}]\n  {self.block_x(rest, tail)}")
        if isinstance(s, ast.If):
            cnd, tc = self.e(s.test)
            pend = self.take()
            if tc != BOOL:
                raise TranslateError("if test")
            a = self.block_x(list(s.body) + ([] if _ends(s.body) else list(rest)), tail)
            b = self.block_x(list(s.orelse or []) + ([] if (s.orelse and _ends(s.orelse)) else list(rest)), tail)
            return self.seq(pend, f"(if {cnd} then\n  {a}\n  else\n  {b})")
        if isinstance(s, ast.While):
            return self._while(s, rest, tail)
        raise TranslateError(f"statement {type(s).__name__}")

    def _comprehension_recursion(self, value):
        """`return tuple(f(x, …) for x in xs)` with xs a parameter and a raising element: structural recursion on xs"""
        c = self.ctx
        g = value
        if isinstance(g, ast.Call) and isinstance(g.func, ast.Name) and g.func.id in ("tuple", "list") and len(g.args) == 1 \
                and not g.keywords:
            g = g.args[0]
        if not isinstance(g, (ast.GeneratorExp, ast.ListComp)) or len(g.generators) != 1:
            return None
        gen = g.generators[0]
        if gen.ifs or not isinstance(gen.target, ast.Name) or not isinstance(gen.iter, ast.Name) or c.self_call is None:
            return None
        lean, params = c.self_call
        xs = gen.iter.id
        if xs not in params or not is_list(self.env.get(xs, "")):
            return None
        x = gen.target.id
        sub = self.sub({x: elem(self.env[xs])})
        v, t = sub.e(g.elt)
        pend = self.take()
        if not pend:
            return None   # nothing raises: the ordinary rendering applies
        if self.ret != list_of(t):
            raise TranslateError(f"comprehension of {t}, declared {self.ret}")
        rec = "(" + lean + " " + " ".join("_rest" if p == xs else p for p in params) + ")"
        inner = f"(match {rec} with\n  | .error _e => .error _e\n  | .ok _tl => .ok ({v} :: _tl))"
        return f"(match {xs} with\n  | [] => .ok []\n  | {x} :: _rest =>\n  {self.seq(pend, inner)})"

    def _while(self, s, rest, tail):
        c = self.ctx
        if not (isinstance(s.test, ast.Constant) and s.test.value is True) or s.orelse:
            raise TranslateError("while loop other than `while True:`")
        if self.loop is not None:
            raise TranslateError("nested loop")
        state = _assigned_in_loop(s.body)
        for x in state:
            if x not in self.env:
                raise TranslateError(f"loop assigns {x}, which does not exist before the loop")
        if not state:
            raise TranslateError("loop without effect")
        tys = [self.env[x] for x in state]
        st_ty = _tuple_type(tys)
        reads = _names_read(s.body)
        params = [(x, t) for x, t in self.env.items() if x in reads and x not in state and not isinstance(t, Bound)]
        k = len(c.aux) + 1
        lname = f"{c.fname}_loop{k}"

        def proj(i):
            if len(state) == 1:
                return "st"
            return "st" + ".2" * i + ("" if i == len(state) - 1 else ".1")

        binds = "".join(f"let {x} : {t} := {proj(i)}\n    " for i, (x, t) in enumerate(zip(state, tys)))
        body_t = T6(dict(self.env), self.ret, self.mode, self.attrs, self.local_types, c, loop=(state, tys))
        body = body_t.block_x(list(s.body), tail=lambda t: f"(.ok (false, {t.state_tuple()}))")
        pb = " ".join(f"({x} : {t})" for x, t in params)
        pa = " ".join(x for x, _ in params)
        c.aux.append(
            f"/-- one iteration of the `while True:` loop no. {k} of `{c.fname}`: `(true, state)` = `break`, `(false, state)` = go round again -/\n"
            f"def {lname}_step {c.implicit}{pb} (st : {st_ty}) : Except {EXC} (Bool × ({st_ty})) :=\n    {binds}{body}\n\n"
            f"/-- the `while True:` loop no. {k} of `{c.fname}` with explicit fuel (`.error .OutOfFuel`: not finished after `fuel` iterations) -/\n"
            f"def {lname} {c.implicit}{pb} : Nat → ({st_ty}) → Except {EXC} ({st_ty})\n"
            f"  | 0, _ => .error {EXC}.OutOfFuel\n"
            f"  | fuel + 1, st =>\n"
            f"    match {lname}_step {pa} st with\n"
            f"    | .error e => .error e\n"
            f"    | .ok (true, st') => .ok st'\n"
            f"    | .ok (false, st') => {lname} {pa} fuel st'\n")
        c.needs_fuel = True
        after = "".join(f"let {x} : {t} := {proj(i)}\n  " for i, (x, t) in enumerate(zip(state, tys)))
        return (f"(match {lname} {pa} fuel ({', '.join(state)}) with\n  | .error _e => .error _e\n  | .ok st =>\n  "
                f"{after}{self.block_x(rest, tail)})")


def _ends(stmts):
    return bool(stmts) and isinstance(stmts[-1], (ast.Return, ast.Raise, ast.Break))


def _fn_node(fn):
    fn = getattr(fn, "__wrapped__", fn)
    src = textwrap.dedent(inspect.getsource(fn))
    node = ast.parse(src).body[0]
    if not isinstance(node, ast.FunctionDef):
        raise TranslateError("not a function")
    return fn, node


def _where(fn):
    return f"{inspect.getsourcefile(fn).split('/src/')[-1]}:{fn.__qualname__}"


def translate_function6(fn, lean_name, arg_types, ret, mode="total", attrs=None, local_types=None, known=None,
                        inner_types=None, ignored=(), outside=(), ret_inl=None, implicit=None, doc="", exts=None):
    """one plain function (possibly a key factory / closure, possibly with a `while True` loop, possibly cut).
    Returns (lean text, info) – info: binders, result type, live variables at the cut."""
    fn, node = _fn_node(fn)
    a = node.args
    if a.kwonlyargs or a.kwarg or a.defaults or a.posonlyargs or a.vararg:
        raise TranslateError("signature")
    names = [x.arg for x in a.args]
    if len(names) != len(arg_types):
        raise TranslateError("arity")
    c = Ctx()
    c.known = dict(known or {})
    c.inner_types = inner_types
    c.ignored = set(ignored)
    c.outside = set(outside)
    c.ret_inl = ret_inl
    c.stores = _stores_in_order(node)
    c.fname = lean_name
    c.params = list(zip(names, arg_types))
    attrs = attrs or {}
    tyvars = list(implicit) if implicit is not None else (
        ["α"] if (attrs or any(OPAQUE in str(t).replace("(", " ").replace(")", " ").split() for t in arg_types)) else [])
    c.exts = dict(exts or {})
    abinds = "".join(f"(attr_{k.replace('.', '_')} : α → {t}) " for k, t in attrs.items())
    abinds += "".join(f"(ext_{k} : {t}) " for k, t in c.exts.items())
    c.implicit = ("{" + " ".join(tyvars) + " : Type} " if tyvars else "") + abinds
    t = T6(dict(zip(names, arg_types)), ret, mode, attrs, local_types, c)
    body = t.block_x(list(node.body), None) if mode == "except" else t.block(list(node.body))
    if c.pending:
        raise TranslateError("unbound raising expression")
    binders = [f"({n} : {ty})" for n, ty in zip(names, arg_types)] + [f"({n} : {ty})" for n, ty in c.extra_binders]
    if c.needs_fuel:
        binders = ["(fuel : Nat)"] + binders
    if c.outside:
        if c.cut_type is None:
            raise TranslateError("no statement mentions an outside name: nothing to cut")
        res = f"Sum {paren(c.ret_inl)} {paren(c.cut_type)}" if c.ret_inl is not None else c.cut_type
        if ret is not None and ret != res:
            raise TranslateError(f"result type at the cut is {res}, declared {ret}")
    else:
        res = ret
    rt = f"Except {EXC} {paren(res)}" if mode == "except" else res
    text = "".join(x + "\n" for x in c.aux)
    text += (f"/-- translated from `{_where(fn)}`{doc} -/\ndef {lean_name} {c.implicit}{' '.join(binders)} : {rt} :=\n  {body}\n")
    return text, {"binders": binders, "result": rt, "live": c.cut_live}


# ---------------------------------------------------------------------- singledispatch families
def _module_tree(module):
    return ast.parse(inspect.getsource(module))


def namedtuple_fields(module, cls):
    """[(field, annotation source text)] of `class cls(NamedTuple)` read from the module source"""
    for n in _module_tree(module).body:
        if isinstance(n, ast.ClassDef) and n.name == cls:
            if not any(_dotted(b) in ("NamedTuple", "typing.NamedTuple") for b in n.bases):
                raise TranslateError(f"{cls} is not a NamedTuple")
            out = []
            for s in n.body:
                if isinstance(s, ast.AnnAssign) and isinstance(s.target, ast.Name):
                    if s.value is not None:
                        raise TranslateError("NamedTuple field with a default")
                    out.append((s.target.id, ast.unparse(s.annotation)))
                elif isinstance(s, ast.Expr) and isinstance(s.value, ast.Constant):
                    continue
                else:
                    raise TranslateError(f"statement in class {cls}")
            return out
    raise TranslateError(f"class {cls} not found")


def family_overloads(module, family):
    """(base FunctionDef, {registered class (dotted text): FunctionDef}) read from the module source; a later
    registration for the same class replaces an earlier one, as in functools.singledispatch"""
    base, reg = None, {}
    for n in _module_tree(module).body:
        if not isinstance(n, ast.FunctionDef):
            continue
        decos = [d for d in n.decorator_list]
        if n.name == family and any(_dotted(d) in ("singledispatch", "functools.singledispatch") for d in decos):
            base = n
            continue
        for d in decos:
            if isinstance(d, ast.Call) and _dotted(d.func) == family + ".register":
                if len(d.args) != 1 or _dotted(d.args[0]) is None:
                    raise TranslateError("register(…) form")
                reg[_dotted(d.args[0])] = n
            elif _dotted(d) == family + ".register":
                if not n.args.args or n.args.args[0].annotation is None or _dotted(n.args.args[0].annotation) is None:
                    raise TranslateError(f"{n.name}: registered without a class annotation")
                reg[_dotted(n.args.args[0].annotation)] = n
    if base is None:
        raise TranslateError(f"no @singledispatch function {family}")
    return base, reg


def select_overload(cls, reg, ancestors):
    """the overload singledispatch selects for an instance whose class is exactly `cls`: `cls` itself, else the first
    registered class in `ancestors[cls]` (the declared MRO of cls, most specific first); None = the base function"""
    if cls in reg:
        return reg[cls]
    for a in ancestors.get(cls, []):
        if a in reg:
            return reg[a]
    return None


def translate_family(module, family, lean_name, ctors, arg_types, ret, mode, members=(), records=None, known=None,
                     ancestors=None, universe=None, implicit=(), decls=""):
    """ctors: [(class text, lean constructor, payload)] – payload: ("fields", [(field, lean type)]) for a NamedTuple class
    (the field NAMES/ORDER are checked against the class source by the caller), ("opaque", type) for an opaque payload bound to
    the overload's first parameter, ("none",) for a constructor without data.
    arg_types: types of the family's parameters (the first one is the inductive).  members: [(python function name, lean name,
    arg types, ret, mode)] emitted in the same mutual block.  universe: class texts that may carry a registration.
    Returns the lean text of the mutual block."""
    base, reg = family_overloads(module, family)
    ancestors = ancestors or {}
    allowed = set(universe or []) | {c for c, _, _ in ctors}
    for cls in reg:
        if cls not in allowed:
            raise TranslateError(f"{family}: an overload is registered for {cls}, a class outside the declared universe")
    implicit_text = ("{" + " ".join(implicit) + " : Type} ") if implicit else ""
    fam_params = [x.arg for x in base.args.args]
    if len(fam_params) != len(arg_types):
        raise TranslateError("family arity")
    tree = {n.name: n for n in _module_tree(module).body if isinstance(n, ast.FunctionDef)}
    kn = dict(known or {})
    kn[family] = dict(lean=lean_name, args=list(arg_types), ret=ret, raises=(mode == "except"))
    for py, ln, ats, rt, md in members:
        kn[py] = dict(lean=ln, args=list(ats), ret=rt, raises=(md == "except"))
    out = []

    def new_ctx(fname, params):
        c = Ctx()
        c.known = kn
        c.fname = fname
        c.params = params
        c.implicit = implicit_text
        return c

    arms = []
    for cls, lean_ctor, payload in ctors:
        ov = select_overload(cls, reg, ancestors)
        node = ov if ov is not None else base
        ps = [x.arg for x in node.args.args]
        if len(ps) != len(fam_params) or node.args.vararg or node.args.kwarg or node.args.kwonlyargs:
            raise TranslateError(f"{node.name}: signature differs from the family's")
        c = new_ctx(lean_name, list(zip(fam_params, arg_types)))
        c.stores = _stores_in_order(node)
        env = {}
        if payload[0] == "fields":
            fields = {f: (f"{ps[0]}_{f}", t) for f, t in payload[1]}
            env[ps[0]] = Bound(cls, fields)
            pat = f".{lean_ctor} " + " ".join(v for v, _ in fields.values())
        elif payload[0] == "opaque":
            env[ps[0]] = payload[1]
            pat = f".{lean_ctor} {ps[0]}"
        else:
            env[ps[0]] = Bound(cls, {})
            pat = f".{lean_ctor}"
        lets = ""
        for p, fp, t in list(zip(ps, fam_params, arg_types))[1:]:
            env[p] = t
            if p != fp:
                lets += f"let {p} : {t} := {fp}\n  "
        t6 = T6(env, ret, mode, None, None, c)
        body = t6.block_x(list(node.body), None) if mode == "except" else t6.block(list(node.body))
        if c.aux or c.needs_fuel or c.extra_binders:
            raise TranslateError("loops / closures inside an overload")
        arms.append(f"  | {pat} =>  -- {node.name}\n  {lets}{body}")
    binders = " ".join(f"({n} : {t})" for n, t in zip(fam_params, arg_types))
    rt = f"Except {EXC} {paren(ret)}" if mode == "except" else ret
    regs = ", ".join(f"{k} ↦ {v.name}" for k, v in reg.items())
    out.append(f"/-- translated from the `@singledispatch` family `{inspect.getsourcefile(module).split('/src/')[-1]}:{family}`"
               f" (registrations read from the source: {regs}) -/\n"
               f"def {lean_name} {implicit_text}{binders} : {rt} :=\n  match {fam_params[0]} with\n" + "\n".join(arms) + "\n")
    for py, ln, ats, r2, md in members:
        node = tree.get(py)
        if node is None:
            raise TranslateError(f"function {py} not found")
        ps = [x.arg for x in node.args.args]
        if len(ps) != len(ats) or node.args.vararg or node.args.kwarg or node.args.kwonlyargs or node.decorator_list:
            raise TranslateError(f"{py}: signature")
        c = new_ctx(ln, list(zip(ps, ats)))
        c.stores = _stores_in_order(node)
        c.self_call = (ln, ps)
        t6 = T6(dict(zip(ps, ats)), r2, md, None, None, c)
        body = t6.block_x(list(node.body), None) if md == "except" else t6.block(list(node.body))
        if c.aux or c.needs_fuel or c.extra_binders:
            raise TranslateError("loops / closures inside a family member")
        b2 = " ".join(f"({n} : {t})" for n, t in zip(ps, ats))
        rt2 = f"Except {EXC} {paren(r2)}" if md == "except" else r2
        out.append(f"/-- translated from `{inspect.getsourcefile(module).split('/src/')[-1]}:{py}` -/\n"
                   f"def {ln} {implicit_text}{b2} : {rt2} :=\n  {body}\n")
    if len(out) == 1:
        return decls + out[0]
    return decls + "mutual\n" + "\n".join(out) + "end\n"


# ---------------------------------------------------------------------- the Python side of a CUT (used by the differential check)
def sliced_python(fn, outside, live):
    """the Python function `fn` cut like its translation: the first simple statement mentioning an `outside` name (and everything
    after it in its block) is replaced by `return ("inr", (live…))`, every `return e` before it by `return ("inl", e)`.
    Compiled in the function's own globals – the loop, the guards and the callees that run are the real ones."""
    fn, node = _fn_node(fn)
    node.decorator_list = []

    def cut(stmts):
        out = []
        for s in stmts:
            if not isinstance(s, (ast.If, ast.While, ast.For)) and _mentions(s, outside):
                val = ast.Tuple(elts=[ast.Name(id=x, ctx=ast.Load()) for x in live], ctx=ast.Load())
                out.append(ast.Return(value=ast.Tuple(elts=[ast.Constant("inr"), val], ctx=ast.Load())))
                return out
            if isinstance(s, ast.Return):
                out.append(ast.Return(value=ast.Tuple(elts=[ast.Constant("inl"), s.value], ctx=ast.Load())))
                return out
            if isinstance(s, (ast.If, ast.While, ast.For)):
                s.body = cut(s.body)
                s.orelse = cut(s.orelse) if s.orelse else []
            out.append(s)
        return out

    node.body = cut(node.body)
    node.name = "_sliced"
    mod = ast.fix_missing_locations(ast.Module(body=[node], type_ignores=[]))
    ns = {}
    exec(compile(mod, f"<sliced {fn.__qualname__}>", "exec"), fn.__globals__, ns)
    return ns["_sliced"]
