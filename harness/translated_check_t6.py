"""T6: validation of the translator extensions (harness/translate_t6.py): every definition of lean/OQ/Generated/TranslatedC19.lean /
TranslatedC12Dicke.lean that translates now is run in the compiled driver (tag "TRT6", generated glue TranslatedDriverT6.lean) on
seeded inputs and compared with the PYTHON FUNCTION IT WAS TRANSLATED FROM, imported from the tree under test.  Opaque parts are
instantiated by stand-ins with the same behaviour on both sides: a symbol is an object with a `.name`; the dialects of
`translate_expression` are real `ExpressionDialect`s whose factories / functions build tagged tuples (`standIn` in the glue);
`dicke_state` / `zero_state` are compared twice: through the function cut at its first numpy statement (same cut as the translation,
executed in the module's own globals) and through the real function (support and 1/amplitude² of the returned wavefunction).
A disagreement is a fault of the translator / prelude (INTERNAL-ERROR, exit 2, in run.py), never a verdict about /repo."""
import math
import random
import types
import warnings

from . import common

PROP_OF = {"C19": "C19", "C12Dicke": "C12"}


def _ios(v):
    return {"i": str(v)} if isinstance(v, int) else {"s": v}


def _val(v):
    """canonical JSON of a stand-in value (Python side)"""
    if isinstance(v, bool):
        raise TypeError("bool")
    if isinstance(v, int):
        return {"i": str(v)}
    if isinstance(v, str):
        return {"s": v}
    tag, kids = v
    return {"t": tag, "k": [_val(k) for k in kids]}


def _exc(f, enc):
    try:
        return {"ok": enc(f())}
    except (ValueError, TypeError, KeyError, NotImplementedError, IndexError) as e:
        return {"exc": type(e).__name__}


def _stand_in(d, known):
    from orquestra.quantum.circuits.symbolic.expressions import ExpressionDialect, reduction

    def fn(name):
        if name == "neg":
            return lambda a: (name, [a])
        if name == "sub":
            return lambda a, b: (name, [a, b])
        if name == "add":
            return reduction(lambda a, b: (name, [a, b]))
        if name == "boom":
            def boom(*args):
                raise KeyError(name)
            return boom
        return lambda *args: (name, list(args))
    return ExpressionDialect(
        symbol_factory=(lambda s: s.name) if d == 0 else (lambda s: ("sym", [s.name])),
        number_factory=(lambda n: n) if d == 0 else (lambda n: n + 1000),
        known_functions={name: fn(name) for name in known})


NAMES = ["neg", "sub", "add", "boom", "f", "g", "mul"]


def _tree(r, depth):
    from orquestra.quantum.circuits.symbolic.expressions import FunctionCall, Symbol
    k = r.randrange(4 if depth > 0 else 2)
    if k == 0:
        n = r.randrange(-5, 50)
        return n, {"n": n}
    if k == 1:
        s = r.choice(["x", "y", "theta_1", "", "é"])
        return Symbol(s), {"s": s}
    name = r.choice(NAMES + ["h"])
    kids = [_tree(r, depth - 1) for _ in range(r.choice([0, 1, 1, 2, 2, 3]))]
    return FunctionCall(name, tuple(p for p, _ in kids)), {"f": name, "a": [j for _, j in kids]}


def _word(r, alpha, lo=0, hi=9):
    return "".join(r.choice(alpha) for _ in range(r.randrange(lo, hi)))


def _cases(name, r):
    """[(request payload, thunk computing the expected response from the Python function)]"""
    from orquestra.quantum.circuits.symbolic import _sorting, translations
    from orquestra.quantum.circuits.symbolic.expressions import reduction
    from orquestra.quantum import wavefunction
    from . import translate_t6 as t6
    from . import tables_t6
    sym = lambda s: types.SimpleNamespace(name=s)
    alpha = "ab_ -019257éβx"
    if name == "convert_string_to_int_if_possible":
        s = r.choice(["", "0", "007", "12", "a1", "1a", " 1", "-1", "1_0", _word(r, "0123456789a", 0, 5)])
        return {"a0": s}, lambda: _ios(_sorting._convert_string_to_int_if_possible(s))
    if name in ("natural_key", "natural_key_revlex"):
        s = r.choice(["", "beta_10", "x12y3", "12", "a", "theta_1_22", _word(r, alpha)])
        f = getattr(_sorting, name)
        return {"a0": s}, lambda: [_ios(x) for x in f(sym(s))]
    if name == "natural_key_fixed_names_order":
        names = [r.choice(["gamma", "beta", "a", "", "b c"]) for _ in range(r.randrange(1, 5))]
        good = r.choice(names + ["zz"]) + "_" + r.choice(["0", "7", "12", "-3", " 4 ", "+2", "007", str(r.randrange(10 ** 6))])
        s = r.choice([good] * 12 + [r.choice(names + ["zz"]) + "_" + r.choice(["x", "", "1_0", "1__0", "_1", "- 1"]),
                      "beta", "a_b_c", "_", "", "beta_1_2", _word(r, "ab_01", 0, 6)])
        return {"a0": names, "a1": s}, lambda: _exc(lambda: _sorting.natural_key_fixed_names_order(names)(sym(s)),
                                                     lambda t: [str(x) for x in t])
    if name in ("translate_expression", "translate_tuple"):
        d = r.randrange(2)
        known = [n for n in NAMES if r.random() < 0.8]
        dia = _stand_in(d, known)
        if name == "translate_expression" and r.random() < 0.6:
            py, js = _tree(r, 3)
            return ({"op": "translate_expression", "e": js, "d": d, "known": known},
                    lambda: _exc(lambda: translations.translate_expression(py, dia), _val))
        kids = [_tree(r, 2) for _ in range(r.randrange(0, 4))]
        return ({"op": "translate_tuple", "es": [j for _, j in kids], "d": d, "known": known},
                lambda: _exc(lambda: translations.translate_tuple(tuple(p for p, _ in kids), dia), lambda t: [_val(v) for v in t]))
    if name == "reduction":
        xs = [r.randrange(-9, 10) for _ in range(r.randrange(0, 5))]
        return {"a0": xs}, lambda: _exc(lambda: reduction(lambda a, b: 2 * a - b)(*xs), str)
    if name in ("is_multiplication_by_reciprocal", "is_addition_of_negation"):
        import sympy
        from orquestra.quantum.circuits.symbolic import sympy_expressions as se

        def leaf():
            return r.choice([sympy.Symbol("x"), sympy.Integer(-1), sympy.Integer(2), sympy.Float(-1.0), sympy.Rational(1, 2),
                             sympy.Integer(1), sympy.Float(0.5), sympy.pi])

        def node(depth):
            if depth == 0 or r.random() < 0.25:
                return leaf()
            k = r.choice(["Mul", "Add", "Pow", "Pow", "Mul"])
            if k == "Pow":
                return sympy.Pow(node(depth - 1), r.choice([leaf(), sympy.Integer(-1), sympy.Float(-1.0)]), evaluate=False)
            kids = [node(depth - 1) for _ in range(r.choice([1, 2, 2, 2, 3]))]
            return (sympy.Mul if k == "Mul" else sympy.Add)(*kids, evaluate=False)

        def enc(x):
            j = {"c": "Pow" if isinstance(x, sympy.Pow) else "Mul" if isinstance(x, sympy.Mul) else "Other",
                 "a": [enc(a) for a in x.args]}
            if x == -1:
                j["n"] = -1
            elif getattr(x, "is_Integer", False):
                j["n"] = int(x)
            return j
        kids = [node(2) for _ in range(r.choice([1, 2, 2, 2, 2, 3]))]
        if r.random() < 0.5:   # the shapes the predicates look for, and near misses of them
            c = r.choice([sympy.Integer(-1), sympy.Float(-1.0), sympy.Integer(2), sympy.Symbol("x"), sympy.Integer(1)])
            if name == "is_multiplication_by_reciprocal":
                second = sympy.Pow(node(1), c, evaluate=False)
            else:
                second = sympy.Mul(c, *[node(1) for _ in range(r.choice([0, 1, 2]))], evaluate=False)
            kids = [node(2), second] + ([node(1)] if r.random() < 0.15 else [])
        top = (sympy.Mul if name == "is_multiplication_by_reciprocal" else sympy.Add)(*kids, evaluate=False)
        f = getattr(se, name)
        return {"e": enc(top)}, lambda: _exc(lambda: f(top), bool)
    W = wavefunction.Wavefunction
    if name == "zero_state_pre":
        n = r.randrange(-2, 9)
        sl = t6.sliced_python(W.zero_state, {"np"}, tables_t6.live_at_cut("zero_state_pre"))

        def both():
            a = _exc(lambda: sl(n), lambda t: str(t[1][0]))
            b = _exc(lambda: W.zero_state(n), lambda wf: str(int(math.log2(len(wf.amplitudes)))))
            # the real function runs the same statements and then the numpy part (which may raise on its own: not compared)
            if ("exc" in a and a != b) or ("ok" in a and "ok" in b and a != b):
                raise AssertionError(f"cut function {a} vs real function {b}")
            return a
        return {"a0": n}, both
    if name == "dicke_state_pre":
        n = r.randrange(-1, 8)
        k = r.randrange(-1, n + 3)
        sl = t6.sliced_python(W.dicke_state, {"np"}, tables_t6.live_at_cut("dicke_state_pre"))

        def enc(t):
            if t[0] == "inl":
                return {"inl": str(int(math.log2(len(t[1].amplitudes))))}
            return {"inr": [str(t[1][0]), [str(i) for i in t[1][1]]]}

        def both():
            a = _exc(lambda: sl(n, k), enc)
            # the real function: raises likewise; otherwise the support of the returned vector and 1/amplitude²
            def real():
                wf = W.dicke_state(n, k)
                amp = wf.amplitudes
                idx = [i for i, x in enumerate(amp) if x != 0]
                return idx, round(1 / abs(amp[idx[0]]) ** 2), len(amp)
            b = _exc(real, lambda t: t)
            # the real function runs the same statements and then the numpy part (which may raise on its own: not compared)
            if "exc" in a and a != b:
                raise AssertionError(f"cut function {a} vs real function {b}")
            if "ok" in a and "ok" in b:
                idx, cnt, ln = b["ok"]
                if "inl" in a["ok"]:
                    if idx != [0] or ln != 2 ** int(a["ok"]["inl"]):
                        raise AssertionError(f"cut function {a} vs real function {b}")
                elif sorted(int(i) for i in a["ok"]["inr"][1]) != idx or int(a["ok"]["inr"][0]) != cnt or ln != 2 ** n:
                    raise AssertionError(f"cut function {a} vs real function {b}")
            return a
        return {"a0": n, "a1": k, "fuel": 2 ** max(n, 0)}, both
    raise KeyError(name)


def run(seed=0, per_fn=60, only=None):
    """returns (comparisons, disagreements, names of units that are not translatable now, translated function list)"""
    common.use_repo()
    from . import tables_t6
    rng = random.Random(f"translated-t6:{seed}")
    reqs, want, labels, skipped, listed = [], [], [], [], []
    for tag in ("C19", "C12Dicke"):
        if only and PROP_OF[tag] != only:
            continue
        _text, good = tables_t6.generate(tag)
        for t, name, defs, _thunk in tables_t6.units():
            if t != tag:
                continue
            if name not in good:
                skipped.append(name)
                continue
            listed += [f"Translated.{d}" for d in defs]
            for _ in range(per_fn):
                payload, thunk = _cases(name, rng)
                op = payload.pop("op", name)
                with warnings.catch_warnings():
                    warnings.simplefilter("ignore")
                    try:
                        w = thunk()
                    except AssertionError as e:
                        return len(reqs), [f"{name} {payload}: {e}"], skipped, listed
                reqs.append((op, payload))
                want.append(w)
                labels.append((op, payload))
    drv = common.Driver("TRT6")
    if not drv.available():
        return 0, ["model driver not built"], skipped, listed
    got = drv.run(reqs) if reqs else []
    bad = []
    for (op, payload), w, g in zip(labels, want, got):
        if g != w:
            bad.append(f"{op} {payload}: python {w!r}, translated definition {g!r}")
    return len(reqs), bad, skipped, listed


if __name__ == "__main__":
    n, bad, sk, listed = run()
    print(n, "comparisons;", len(bad), "disagreements; untranslatable:", sk)
    for b in bad[:20]:
        print("  ", b)
