"""Validation of the METHOD translator (harness/translate_state.py) itself, work package T5.

The translated runner classes (lean/OQ/Generated/TranslatedRunners.lean, compiled into the model driver under the tag "TRR"
with the concrete instance of harness/runners_glue.lean.in) are run on seeded CALL HISTORIES and compared, after every call, with
the REAL classes of the tree under test:
  * `BaseCircuitRunner` through a Python subclass `TableRunner` whose `_run_and_measure` follows the same table as the Lean
    instance (returns a payload / raises ValueError, TypeError or another class at chosen invocations; may bump the runner's own
    counters – a frame violation – and the counters of a tracker wrapped around it);
  * `BaseWavefunctionSimulator` through a subclass `TableSim` (table-driven `_get_wavefunction_from_native_circuit`, its own
    `is_natively_supported`) on REAL `Circuit`s of stand-in operations (native / not native / `apply` raises / free symbol),
    with the real `split_circuit`, `Wavefunction`, `sample_from_wavefunction`, `Measurements`;
  * `MeasurementTrackingBackend` around such a `TableRunner`, with stand-in circuits / measurements (`to_dict` registered for
    the stand-in circuit; it raises for label 13) and a real temporary JSON file.
Compared: both counters, the number of external invocations, results / exception classes, and for the tracker the pending
`raw_data`, the content of the JSON file and the wrapped runner's counters.  A disagreement means the translator (or the prelude
OQ/Exec/PyState.lean) misrenders the code: a fault of this machinery (INTERNAL-ERROR, exit 2), never a verdict about /repo."""
import hashlib
import json
import os
import random
import tempfile

from . import common


_CACHE = []


def _classes():
    if _CACHE:
        return _CACHE[0]
    common.use_repo()
    from orquestra.quantum.api.circuit_runner import BaseCircuitRunner
    from orquestra.quantum.circuits import to_dict
    from orquestra.quantum.runners.trackers import MeasurementTrackingBackend

    class FakeCircuit:
        def __init__(self, label, n_ops):
            self.label, self.operations = label, [None] * n_ops

    class Unserialisable:
        def __init__(self, data):
            self.data = data

    class FakeDist:
        def __init__(self, data):
            self.data = list(data)

        def __repr__(self):
            return "x" * len(self.data)

    class FakeMeas:
        def __init__(self, data, owner):
            self.data, self.owner = list(data), owner

        @property
        def bitstrings(self):
            return [(d % 2, d % 3) for d in self.data]

        def get_counts(self):
            if 97 in self.data:
                return Unserialisable([1] + self.data)   # json.dumps raises TypeError on it: exercises the `with` exit path
            return [1] + self.data

        def get_distribution(self):
            if 99 in self.data:
                raise TypeError("table: get_distribution raises")
            if 98 in self.data:
                self.owner._n_jobs_executed += 7
            return FakeDist(reversed(self.data))

    def _fake_to_dict(c):
        if c.label == 13:
            raise KeyError("table: to_dict raises")
        return [0, c.label, len(c.operations)]
    to_dict.register(FakeCircuit, _fake_to_dict)

    class TableRunner(BaseCircuitRunner):
        def __init__(self, table):
            # fields holding junk before the base-class __init__ runs, as in the Lean instance
            self._n_circuits_executed, self._n_jobs_executed = 77, -5
            super().__init__()
            self.table, self.k, self.victim = table, 0, None

        def _run_and_measure(self, circuit, n_samples):
            k = self.k
            e = self.table[k] if k < len(self.table) else {}
            self.k += 1
            self._n_circuits_executed += e.get("bc", 0)
            self._n_jobs_executed += e.get("bj", 0)
            if self.victim is not None:
                self.victim._n_circuits_executed += e.get("vc", 0)
                self.victim._n_jobs_executed += e.get("vj", 0)
            kind = e.get("kind", 0)
            if kind == 1:
                raise ValueError("table")
            if kind == 2:
                raise TypeError("table")
            if kind:
                raise KeyError("table")
            return FakeMeas([circuit.label, n_samples, k] + list(e.get("pay", [])), self)

    _CACHE.append((FakeCircuit, FakeDist, FakeMeas, TableRunner, MeasurementTrackingBackend))
    return _CACHE[0]


_SIM = []


def _sim_classes():
    """the REAL BaseWavefunctionSimulator (real Circuit / split_circuit / Wavefunction / sampling / Measurements), with stand-in
    operations of four kinds and a table-driven `_get_wavefunction_from_native_circuit`"""
    if _SIM:
        return _SIM[0]
    common.use_repo()
    import sympy
    from orquestra.quantum.api.wavefunction_simulator import BaseWavefunctionSimulator
    from orquestra.quantum.circuits import Circuit

    class FakeOp:
        def __init__(self, kind):
            self.kind, self.qubit_indices = kind, (0,)
            self.free_symbols = [sympy.Symbol("t")] if kind == 3 else []

        def apply(self, state):
            if self.kind == 2:
                raise TypeError("table: apply raises")
            return state

    class TableSim(BaseWavefunctionSimulator):
        def __init__(self, table):
            self._n_circuits_executed, self._n_jobs_executed = 77, -5
            super().__init__(seed=None)
            self.table, self.k = table, 0

        def is_natively_supported(self, operation):
            return operation.kind == 1

        def _get_wavefunction_from_native_circuit(self, circuit, initial_state):
            k = self.k
            e = self.table[k] if k < len(self.table) else {}
            self.k += 1
            self._n_circuits_executed += e.get("bc", 0)
            self._n_jobs_executed += e.get("bj", 0)
            kind = e.get("kind", 0)
            if kind == 1:
                raise ValueError("table")
            if kind == 2:
                raise TypeError("table")
            if kind:
                raise KeyError("table")
            return initial_state

    _SIM.append((FakeOp, TableSim, Circuit))
    return _SIM[0]


def _gen_sim_case(rng):
    def circ():
        return [rng.randrange(1, 4), [rng.choice([0, 1, 1, 0, 1, 2, 3] if rng.random() < 0.3 else [0, 1])
                                      for _ in range(rng.randrange(0, 7))]]

    def count():
        return rng.choice([1, 1, 2, 3, 5, 0, -1])
    table = []
    for _ in range(rng.randrange(0, 10)):
        e = {}
        if rng.random() < 0.15:
            e["kind"] = rng.choice([1, 2, 3])
        if rng.random() < 0.15:
            e["bc"], e["bj"] = rng.randrange(-2, 3), rng.randrange(-2, 3)
        table.append(e)
    calls = []
    for _ in range(rng.randrange(3, 10)):
        r = rng.random()
        if r < 0.3:
            calls.append({"op": "run", "c": circ(), "n": count()})
        elif r < 0.55:
            cs = [circ() for _ in range(rng.randrange(0, 4))]
            if rng.random() < 0.5:
                calls.append({"op": "batch", "cs": cs, "n": count()})
            else:
                ns = [rng.choice([1, 2, 0, -2]) if rng.random() < 0.2 else rng.randrange(1, 4) for _ in cs]
                if rng.random() < 0.15:
                    ns = ns[:-1] if ns and rng.random() < 0.5 else ns + [2]
                calls.append({"op": "batch", "cs": cs, "ns": ns})
        elif r < 0.75:
            calls.append({"op": "dist", "c": circ(), "n": rng.choice([None, None, 1, 2, 0, -3])})
        elif r < 0.9:
            c = circ()
            calls.append({"op": "wf", "c": c, "init": rng.choice([None, 2 ** c[0]])})
        else:
            calls.append({"op": rng.choice(["jobs", "circuits"])})
    return {"cls": "sim", "table": table, "calls": calls}


def _run_python_sim(case):
    import numpy as np
    FakeOp, TableSim, Circuit = _sim_classes()
    obj = TableSim(case["table"])

    def mk(c):
        return Circuit([FakeOp(k) for k in c[1]], n_qubits=c[0])

    def meas(m):
        return [2 ** len(m.bitstrings[0]), len(m.bitstrings)]

    def observe(res):
        return {"nc": obj._n_circuits_executed, "nj": obj._n_jobs_executed, "k": obj.k, "res": res}
    out = [observe(None)]
    for c in case["calls"]:
        try:
            if c["op"] == "run":
                r = meas(obj.run_and_measure(mk(c["c"]), c["n"]))
            elif c["op"] == "batch":
                r = [meas(m) for m in obj.run_batch_and_measure([mk(x) for x in c["cs"]], c["ns"] if "ns" in c else c["n"])]
            elif c["op"] == "dist":
                d = obj.get_measurement_outcome_distribution(mk(c["c"]), c["n"])
                key = next(iter(d.distribution_dict))
                r = [1 if c["n"] is None else 0, 2 ** len(key)]
            elif c["op"] == "wf":
                if c["init"] is None:
                    w = obj.get_wavefunction(mk(c["c"]))
                else:
                    st = np.zeros(c["init"])
                    st[0] = 1
                    w = obj.get_wavefunction(mk(c["c"]), st)
                r = len(w.amplitudes)
            elif c["op"] == "jobs":
                r = obj.n_jobs_executed
            else:
                r = obj.n_circuits_executed
            res = ["ok", r]
        except Exception as e:
            res = ["raised", _exc_name(e)]
        out.append(observe(res))
    return out


def _gen_case(rng, cls):
    def circ():
        return [rng.choice([1, 2, 3, 5, 8, 13, 21, -4]) if cls == "tracker" else rng.randrange(-3, 30), rng.randrange(0, 4)]

    def count():
        return rng.choice([1, 1, 2, 3, 5, 0, -1, 1000])

    table = []
    for _ in range(rng.randrange(0, 14)):
        e = {}
        r = rng.random()
        if r < 0.25:
            e["kind"] = rng.choice([1, 2, 3])
        if rng.random() < 0.4:
            e["pay"] = [rng.choice([0, 4, 7, 98, 99, -2, 97] if cls == "tracker" else [0, 4, 7, 98, 99, -2])
                        for _ in range(rng.randrange(0, 3))]
        if rng.random() < 0.15:
            e["bc"], e["bj"] = rng.randrange(-2, 3), rng.randrange(-2, 3)
        if cls == "tracker" and rng.random() < 0.15:
            e["vc"], e["vj"] = rng.randrange(-2, 3), rng.randrange(-2, 3)
        table.append(e)
    calls = []
    for _ in range(rng.randrange(3, 12)):
        r = rng.random()
        if r < 0.3:
            calls.append({"op": "run", "c": circ(), "n": count()})
        elif r < 0.65:
            cs = [circ() for _ in range(rng.randrange(0, 5))]
            if rng.random() < 0.5:
                calls.append({"op": "batch", "cs": cs, "n": count()})
            else:
                ns = [rng.choice([1, 2, 3, 1, 1, 0, -2]) if rng.random() < 0.2 else rng.randrange(1, 6) for _ in cs]
                if rng.random() < 0.15:
                    ns = ns[:-1] if ns and rng.random() < 0.5 else ns + [2]
                calls.append({"op": "batch", "cs": cs, "ns": ns})
        elif r < 0.85:
            calls.append({"op": "dist", "c": circ(), "n": rng.choice([None, 1, 2, 4, 0, -3])})
        else:
            calls.append({"op": rng.choice(["jobs", "circuits"])})
    case = {"cls": cls, "table": table, "calls": calls}
    if cls == "tracker":
        case["rb"] = rng.choice([None, True, False])
    return case


def _exc_name(e):
    if isinstance(e, ValueError):
        return "ValueError"
    if isinstance(e, TypeError):
        return "TypeError"
    if isinstance(e, KeyError):
        return "other"
    return "unexpected:" + type(e).__name__


def _run_python(case, tmpdir):
    FakeCircuit, FakeDist, FakeMeas, TableRunner, Tracker = _classes()
    base = TableRunner(case["table"])
    if case["cls"] == "tracker":
        path = os.path.join(tmpdir, "file.json")
        if os.path.exists(path):
            os.remove(path)
        kw = {} if case["rb"] is None else {"record_bitstrings": case["rb"]}
        if case["rb"] is None and len(case["calls"]) % 2:
            kw = {"record_bitstrings": None}
        obj = Tracker(base, path, **kw)
        base.victim = obj
    else:
        obj, path = base, None

    def observe(res):
        if case["cls"] == "base":
            return {"nc": obj._n_circuits_executed, "nj": obj._n_jobs_executed, "k": base.k, "res": res}
        file = None
        if os.path.exists(path):
            file = open(path).read()
        return {"nc": obj._n_circuits_executed, "nj": obj._n_jobs_executed,
                "raw": json.loads(json.dumps(obj.raw_data, default=lambda o: o.data)),
                "file": file, "inc": base._n_circuits_executed, "inj": base._n_jobs_executed, "k": base.k,
                "dev": obj.type, "res": res}

    out = [observe(None)]
    for c in case["calls"]:
        try:
            if c["op"] == "run":
                r = obj.run_and_measure(FakeCircuit(*c["c"]), c["n"]).data
            elif c["op"] == "batch":
                cs = [FakeCircuit(*x) for x in c["cs"]]
                ms = obj.run_batch_and_measure(cs, c["ns"] if "ns" in c else c["n"])
                r = [m.data for m in ms]
            elif c["op"] == "dist":
                r = obj.get_measurement_outcome_distribution(FakeCircuit(*c["c"]), c["n"]).data
            elif c["op"] == "jobs":
                r = obj.n_jobs_executed
            else:
                r = obj.n_circuits_executed
            res = ["ok", r]
        except Exception as e:
            res = ["raised", _exc_name(e)]
        out.append(observe(res))
    return out


def run(seed=0, n_cases=40):
    """returns (comparisons, disagreements, untranslatable method names, note)"""
    common.use_repo()
    from . import tables_runners
    text, failed = tables_runners.generate()
    if failed:
        return 0, [], sorted(failed), "translated classes incomplete"
    drv = common.Driver("TRR")
    if not drv.available():
        return 0, ["model driver not built"], [], ""
    want_version = hashlib.sha256(text.encode()).hexdigest()[:16]
    try:
        got_version = drv.run([("version", {})])[0]
    except Exception as e:
        got_version = f"unavailable ({e!r})"[:80]
    if got_version != want_version:
        # the driver could not be rebuilt from the current translation (its Lean text does not compile – reported as a broken
        # obligation by the build): there is nothing current to compare
        return 0, [], [], f"driver holds translation {got_version}, current is {want_version}: not compared"
    rng = random.Random(f"runners:{seed}")
    cases = [_gen_case(rng, "base" if i % 2 == 0 else "tracker") for i in range(n_cases)]
    # fixed histories: the rejected-call and failure-in-the-middle situations the property names
    cases.append({"cls": "base", "table": [{}, {"kind": 1}, {}], "calls": [
        {"op": "run", "c": [1, 0], "n": 0}, {"op": "batch", "cs": [], "n": 0}, {"op": "batch", "cs": [], "ns": []},
        {"op": "batch", "cs": [[1, 0], [2, 0], [3, 0]], "n": 2}, {"op": "batch", "cs": [[1, 0]], "ns": [1, 1]},
        {"op": "dist", "c": [1, 1], "n": None}, {"op": "dist", "c": [1, 1], "n": 3}, {"op": "jobs"}, {"op": "circuits"}]})
    cases.append({"cls": "tracker", "rb": True, "table": [{}, {"kind": 2}, {"vc": 1, "vj": -1}, {"pay": [99]}], "calls": [
        {"op": "batch", "cs": [[1, 2], [2, 1]], "ns": [1, 0]}, {"op": "batch", "cs": [[1, 2], [13, 1], [3, 3]], "n": 2},
        {"op": "run", "c": [5, 1], "n": 1}, {"op": "dist", "c": [5, 1], "n": 2}, {"op": "dist", "c": [5, 1], "n": None},
        {"op": "batch", "cs": [[1, 2], [13, 1], [3, 3]], "n": 2}, {"op": "run", "c": [2, 2], "n": 3}]})
    cases.append({"cls": "tracker", "rb": None, "table": [{}, {"pay": [97]}, {}, {}], "calls": [
        {"op": "run", "c": [1, 1], "n": 2}, {"op": "run", "c": [2, 1], "n": 2}, {"op": "run", "c": [3, 0], "n": 1},
        {"op": "dist", "c": [3, 0], "n": 1}, {"op": "jobs"}]})
    cases += [_gen_sim_case(rng) for _ in range(n_cases // 2)]
    cases.append({"cls": "sim", "table": [{}, {"kind": 2}, {"bc": 1, "bj": -1}], "calls": [
        {"op": "run", "c": [2, [1, 0, 1, 0, 0]], "n": 4}, {"op": "run", "c": [2, [1, 0, 1]], "n": 1},
        {"op": "run", "c": [1, [0, 3]], "n": 2}, {"op": "dist", "c": [1, [1, 1, 0, 2, 1]], "n": None},
        {"op": "wf", "c": [2, []], "init": 4}, {"op": "batch", "cs": [[1, [1]], [1, [0, 0]]], "n": 0},
        {"op": "batch", "cs": [[1, [1]], [1, [0, 0]]], "ns": [1, 2]}, {"op": "jobs"}]})
    with tempfile.TemporaryDirectory() as tmp:
        want = [_run_python_sim(c) if c["cls"] == "sim" else _run_python(c, tmp) for c in cases]
    got = drv.run([("history", c) for c in cases])
    bad = []
    n = 0
    for c, w, g in zip(cases, want, got):
        if isinstance(g, dict) and "driver_error" in g:
            bad.append(f"driver error {g['driver_error']} on {json.dumps(c)[:200]}")
            continue
        for i, (a, b) in enumerate(zip(w, g)):
            n += 1
            for side in (a, b):   # the file is compared as parsed JSON (key order and spacing of the text are json's business)
                if isinstance(side.get("file"), str) and side["file"]:
                    side["file"] = json.loads(side["file"])
            if a != b:
                bad.append(f"{c['cls']} history {json.dumps(c)[:600]}: after call {i} python {json.dumps(a)[:400]} / "
                           f"translated {json.dumps(b)[:400]}")
                break
    return n, bad, [], ""


if __name__ == "__main__":
    n, bad, sk, note = run()
    print(n, "comparisons;", len(bad), "disagreements; untranslatable:", sk, note)
    for b in bad[:10]:
        print("  ", b)
