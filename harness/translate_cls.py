"""A Python -> Lean translator for the GATE CLASSES of orquestra/quantum/circuits/_gates.py (class translator, work package T1).

On every run it re-reads the module's source with `ast` (via `inspect.getsource` of the module imported from the tree under
test) and writes `lean/OQ/Generated/TranslatedGates.lean`:

  * `inductive Gate (P F E : Type)`: one constructor per frozen dataclass that is a gate class (`MatrixFactoryGate` and every
    dataclass that lists the protocol `Gate` among its bases), in source order, one argument per dataclass field IN SOURCE ORDER.
    Field types come from FIELD_TYPES below (Python is untyped); an unknown field falls back on a plain `int`/`str`/`bool`
    annotation and is otherwise a TranslateError.  An added / removed / reordered field changes the inductive.
  * `inductive Err`: one constructor per exception class some translated body raises (first appearance in the source).
  * `structure Ext (P S M)`: the module-level functions the bodies call but that are not translated (`get_free_symbols`,
    `sub_symbols`: sympy) – external behaviour as a PARAMETER of every definition that (transitively) needs it.
  * `mk_<Class>`: the constructor call `Class(...)`, translated from `__post_init__` (looked up through the bases, as the
    dataclass-generated `__init__` does); a class without `__post_init__` gets the bare constructor.
  * `Gate.<member>` for the members in MEMBERS: ONE Lean function per member, defined by pattern matching on the constructor
    (= Python's dynamic dispatch on the class of the receiver); the case of class C is translated from the body C resolves the
    member to (own dataclass field, own property / method, else the first base class that defines it – the protocol `Gate`, e.g.
    `Gate.free_symbols` for classes that do not override it; single inheritance only, several bases are a TranslateError).  A class
    on which the member cannot be resolved makes the member untranslatable.
  * definitions that can raise (decided by a fixpoint over the call graph: a body with a `raise`, or a call of a definition that
    can raise) return `Except Err τ`, the others return `τ`; bodies are rendered in A-normal form, every call that can raise is
    bound with `Except.bind` in Python's evaluation order (receiver, then arguments left to right, keyword arguments in call order).
  * definitions are emitted in dependency order (topological order of the call graph; a cycle is a TranslateError) and have to be
    accepted by Lean's STRUCTURAL recursion: a call of the member being defined must have `self.<gate-valued field>` as its receiver,
    anything else is a TranslateError.

Supported subset of a body (anything else raises TranslateError; the member is then missing from the generated file – and so is
every definition that calls it – so the tie theorems that mention it fail to build, which is the intended signal):
  statements : docstrings, `pass`, `return e`, `raise Exc(...)` / `raise Exc` (the message is dropped: only the exception CLASS is
               modelled), `if c: … [else: …]` with fall-through, `x = e` (single name; inlined / bound, so local names never show in
               the output).  Falling off the end is allowed only in `__post_init__`.
  expressions: `self`, `self.<field>`, parameters and locals, int / bool / plain ASCII str constants, `+ - *` on ints, one comparison between ints,
               `not` / `and` / `or` on conditions, conditional expressions, constructor calls of the gate classes (positional and
               keyword arguments, constant defaults), `dataclasses.replace(self, field=e, …)` (= a constructor call, `__post_init__`
               included), property reads and method calls of the MEMBERS on any gate-valued expression (dynamic dispatch),
               calls of the EXTERNALS, `len(list)`, `tuple(...)` / `list(...)` / list comprehensions / generator expressions with
               one generator over a list, no condition and an element expression that cannot raise (→ `List.map`).
NOT translated (sympy matrices / strings): `matrix`, `name` (as a property), `__str__`, `__eq__`, `__call__`, and everything else in
the module (`GateOperation`, custom gate definitions, matrix comparison).
Trusted: the typing in FIELD_TYPES / MEMBERS / EXTERNALS, that pure Lean terms (`+` on `Int`, `List.length`, `List.map`) stand for
the Python operations on ints / tuples, and Python attribute resolution as described above.  The rendering itself is CHECKED on
every run against the real classes (harness/gates_check.py).
"""
import ast
import inspect

from .translate import TranslateError

GATE = "Gate"
# dataclass field name -> Lean type (`Gate` is rendered `Gate P F E`)
FIELD_TYPES = {"name": "String", "matrix_factory": "F", "params": "List P", "num_qubits": "Int", "is_hermitian": "Bool",
               "wrapped_gate": GATE, "num_control_qubits": "Int", "exponent": "E"}
ANNOT_TYPES = {"int": "Int", "str": "String", "bool": "Bool"}
REQUIRED_CLASSES = ["MatrixFactoryGate", "ControlledGate", "Dagger", "Exponential", "Power"]
PROTOCOL = "Gate"
# member -> (kind, argument types, result type), in the order they are tried / emitted when the call graph does not decide
MEMBERS = {
    "params": ("property", [], "List P"),
    "num_qubits": ("property", [], "Int"),
    "free_symbols": ("property", [], "List S"),
    "power": ("method", ["E"], GATE),
    "exp": ("property", [], GATE),
    "dagger": ("property", [], GATE),
    "controlled": ("method", ["Int"], GATE),
    "replace_params": ("method", ["List P"], GATE),
    "bind": ("method", ["M"], GATE),
}
EXTERNALS = {"get_free_symbols": (["List P"], "List S"), "sub_symbols": (["P", "M"], "P")}
NOT_TRANSLATED = ["matrix", "name", "__str__", "__eq__", "__call__"]
_RESERVED = {"end", "at", "from", "fun", "let", "in", "do", "then", "else", "if", "match", "with", "open", "by", "have", "show",
             "x", "Gate", "Err", "Ext", "mut", "def", "theorem", "where", "deriving", "instance", "structure", "class"}


def lname(n):
    """Lean name of a Python parameter / local (kept apart from keywords, `x`, the fresh `v<k>` and the `self_<field>` names)"""
    import re
    return n + "_" if (n in _RESERVED or re.fullmatch(r"v\d+", n) or n.startswith("self_")) else n


def ltype(t):
    return "Gate P F E" if t == GATE else t


def paren(t):
    return t if (" " not in t or (t[0] == "(" and t[-1] == ")" and _balanced(t[1:-1]))) else f"({t})"


def _balanced(s):
    d = 0
    for c in s:
        d += c == "("
        d -= c == ")"
        if d < 0:
            return False
    return d == 0


class Val:
    """a translated expression that cannot raise any more (atoms of the A-normal form)"""

    def __init__(self, term, typ, cls=None, structural=False):
        self.term, self.typ, self.cls, self.structural = term, typ, cls, structural


class ClassInfo:
    def __init__(self, node):
        self.name = node.name
        self.node = node
        self.bases = [b.id for b in node.bases if isinstance(b, ast.Name)]
        self.fields = []    # (name, lean type, default ast | None) in source order
        self.defs = {}      # name -> (kind, FunctionDef)
        self.other = set()  # names bound at class level in some other way
        for s in node.body:
            if isinstance(s, ast.AnnAssign) and isinstance(s.target, ast.Name):
                self.fields.append((s.target.id, s.annotation, s.value))
            elif isinstance(s, (ast.FunctionDef, ast.AsyncFunctionDef)):
                decs = [ast.unparse(d) for d in s.decorator_list]
                kind = "method" if not decs else ("property" if decs == ["property"] else "other:" + ",".join(decs))
                if isinstance(s, ast.AsyncFunctionDef):
                    kind = "other:async"
                self.defs[s.name] = (kind, s)
            elif isinstance(s, ast.Assign):
                for t in s.targets:
                    if isinstance(t, ast.Name):
                        self.other.add(t.id)


def _is_dataclass(node):
    for d in node.decorator_list:
        f = d.func if isinstance(d, ast.Call) else d
        if (isinstance(f, ast.Name) and f.id == "dataclass") or (isinstance(f, ast.Attribute) and f.attr == "dataclass"):
            return True
    return False


class Module:
    """the class table read from the source"""

    def __init__(self, source):
        tree = ast.parse(source)
        self.all = {n.name: ClassInfo(n) for n in tree.body if isinstance(n, ast.ClassDef)}
        self.replace_names, self.dataclasses_names = set(), set()
        self.imported = set()
        for n in tree.body:
            if isinstance(n, ast.ImportFrom):
                for a in n.names:
                    self.imported.add(a.asname or a.name)
                    if n.module == "dataclasses" and a.name == "replace":
                        self.replace_names.add(a.asname or a.name)
            elif isinstance(n, ast.Import):
                for a in n.names:
                    if a.name == "dataclasses":
                        self.dataclasses_names.add(a.asname or a.name)
        self.module_defs = {n.name for n in tree.body if isinstance(n, ast.FunctionDef)}
        self.classes = []
        for n in tree.body:
            if isinstance(n, ast.ClassDef) and _is_dataclass(n) and (
                    n.name in REQUIRED_CLASSES or PROTOCOL in [b.id for b in n.bases if isinstance(b, ast.Name)]):
                self.classes.append(self.all[n.name])
        missing = [c for c in REQUIRED_CLASSES if c not in [k.name for k in self.classes]]
        if missing:
            raise TranslateError(f"gate dataclass(es) {missing} not found in the module")
        self.fields = {}
        for c in self.classes:
            fs = []
            for name, ann, default in c.fields:
                t = FIELD_TYPES.get(name)
                if t is None:
                    t = ANNOT_TYPES.get(ast.unparse(ann))
                if t is None:
                    raise TranslateError(f"{c.name}.{name}: no Lean type known for a field annotated `{ast.unparse(ann)}`")
                fs.append((name, t, default))
            # dataclass fields of base classes would come first; the protocol has none
            for b in c.bases:
                if b in self.all and self.all[b].fields:
                    raise TranslateError(f"{c.name}: base class {b} has dataclass-style annotated fields (not supported)")
            # members are looked up depth-first through the bases, which is Python's MRO for single inheritance only
            if len([b for b in c.bases if b in self.all]) > 1 or len(c.bases) != len(c.node.bases):
                raise TranslateError(f"{c.name}: several base classes / computed bases (method resolution order not modelled)")
            self.fields[c.name] = fs

    def resolve(self, cname, member):
        """what `obj.member` is for an instance of cname: ('field', type) | (kind, FunctionDef, defining class) | None"""
        for name, t, _ in self.fields[cname]:
            if name == member:
                return ("field", t)
        return self._resolve_def(cname, member, set())

    def _resolve_def(self, cname, member, seen):
        if cname in seen or cname not in self.all:
            return None
        seen.add(cname)
        c = self.all[cname]
        if member in c.defs:
            kind, fd = c.defs[member]
            return (kind, fd, cname)
        if member in c.other:
            return ("other:class-level assignment", None, cname)
        for b in c.bases:
            r = self._resolve_def(b, member, seen)
            if r:
                return r
        return None


class Ctx:
    """translation of one body (one class's case of a member, or a `__post_init__`)"""

    def __init__(self, tr, fname, cname, self_term, field_terms, env, in_init=False):
        self.tr, self.fname, self.cname = tr, fname, cname
        self.self_term, self.field_terms = self_term, field_terms  # field name -> (lean term, type)
        self.env = dict(env)
        self.in_init = in_init
        self.binds = []
        self.eff = False
        self.uses_ext = False
        self.calls = set()

    def child(self, extra_env=None):
        c = Ctx(self.tr, self.fname, self.cname, self.self_term, self.field_terms, {**self.env, **(extra_env or {})}, self.in_init)
        c.parent = self
        return c

    def absorb(self, c):
        self.uses_ext |= c.uses_ext
        self.calls |= c.calls

    def err(self, n, msg):
        where = f"{self.cname}.{self.fname}" if self.cname else self.fname
        return TranslateError(f"{where}: {msg}" + (f" (`{ast.unparse(n)}`)" if n is not None else ""))

    # ------------------------------------------------------------------ calls of generated definitions
    def call(self, n, fn, args, ret, recv=None):
        tr = self.tr
        if fn in tr.failed:
            raise self.err(n, f"uses `{fn}`, which is not translatable ({tr.failed[fn]})")
        if fn == self.fname and not self.in_init:
            if recv is None or not recv.structural:
                raise self.err(n, f"recursive call of `{fn}` on something other than self.<gate field>: not structurally recursive")
        else:
            self.calls.add(fn)
        lean = tr.lean_name(fn)
        if tr.needs_ext.get(fn):
            self.uses_ext = True
            lean += " x"
        term = " ".join([lean] + [paren(a.term) for a in args])
        if tr.raises.get(fn):
            v = tr.fresh()
            self.binds.append((v, term))
            return Val(v, ret)
        return Val(term, ret)

    # ------------------------------------------------------------------ expressions
    def e(self, n):
        tr = self.tr
        if isinstance(n, ast.Name):
            if n.id == "self":
                return Val(self.self_term, GATE, cls=self.cname)
            if n.id in self.env:
                return self.env[n.id]
            raise self.err(n, f"name `{n.id}` is outside the translated subset")
        if isinstance(n, ast.Constant):
            if isinstance(n.value, bool):
                return Val("true" if n.value else "false", "Bool")
            if isinstance(n.value, int):
                return Val(f"({n.value} : Int)", "Int")
            if (isinstance(n.value, str) and n.value.isascii() and n.value.isprintable() and '"' not in n.value
                    and "\\" not in n.value):
                return Val(f'"{n.value}"', "String")
            raise self.err(n, "constant of an unsupported type")
        if isinstance(n, ast.Attribute):
            r = self.e(n.value)
            if r.typ != GATE:
                raise self.err(n, f"attribute of a value of type {r.typ}")
            return self.member(n, r, n.attr, None)
        if isinstance(n, ast.Call):
            return self.callexpr(n)
        if isinstance(n, ast.BinOp):
            op = {ast.Add: "+", ast.Sub: "-", ast.Mult: "*"}.get(type(n.op))
            a, b = self.e(n.left), self.e(n.right)
            if op is None or a.typ != "Int" or b.typ != "Int":
                raise self.err(n, "binary operator outside `+ - *` on ints")
            return Val(f"({a.term} {op} {b.term})", "Int")
        if isinstance(n, ast.Compare):
            if len(n.ops) != 1:
                raise self.err(n, "chained comparison")
            op = {ast.Lt: "<", ast.LtE: "≤", ast.Gt: ">", ast.GtE: "≥", ast.Eq: "=", ast.NotEq: "≠"}.get(type(n.ops[0]))
            a, b = self.e(n.left), self.e(n.comparators[0])
            if op is None or a.typ != "Int" or b.typ != "Int":
                raise self.err(n, "comparison outside `< <= > >= == !=` on ints")
            return Val(f"({a.term} {op} {b.term})", "Prop")
        if isinstance(n, ast.UnaryOp) and isinstance(n.op, ast.Not):
            a = self.e(n.operand)
            return Val(f"(¬ {self.cond(n.operand, a)})", "Prop")
        if isinstance(n, ast.BoolOp):
            k = len(self.binds)
            vs = []
            for i, v in enumerate(n.values):
                vs.append(self.e(v))
                if i == 0:
                    k = len(self.binds)
            if len(self.binds) != k:  # short-circuit evaluation: a later operand that can raise must not be evaluated eagerly
                raise self.err(n, "and / or with a later operand that can raise")
            op = " ∧ " if isinstance(n.op, ast.And) else " ∨ "
            return Val("(" + op.join(self.cond(v0, v) for v0, v in zip(n.values, vs)) + ")", "Prop")
        if isinstance(n, ast.IfExp):
            return self.ifexp(n)
        if isinstance(n, (ast.GeneratorExp, ast.ListComp)):
            return self.comprehension(n)
        raise self.err(n, f"expression form {type(n).__name__} is outside the translated subset")

    def cond(self, n, v):
        if v.typ == "Prop":
            return v.term
        if v.typ == "Bool":
            return f"({v.term} = true)" if " " in v.term else f"{v.term} = true"
        raise self.err(n, f"condition of type {v.typ} (only comparisons and bools; Python truthiness of other objects is not modelled)")

    def member(self, n, r, attr, args):
        """r.attr  (args None: attribute read)  or  r.attr(args)"""
        tr = self.tr
        if r.cls is not None and r.term == self.self_term:
            for fname, (fterm, ftyp) in self.field_terms.items():
                if fname == attr:
                    if args is not None:
                        raise self.err(n, f"call of the field `{attr}`")
                    return Val(fterm, ftyp, structural=(ftyp == GATE and not self.in_init))
        if attr not in MEMBERS:
            raise self.err(n, f"`.{attr}` is not a translated member")
        kind, argts, ret = MEMBERS[attr]
        if kind == "property" and args is not None:
            raise self.err(n, f"call of the result of property `{attr}`")
        if kind == "method" and args is None:
            raise self.err(n, f"bound method `{attr}` used as a value")
        args = args or []
        if len(args) != len(argts) or any(a.typ != t for a, t in zip(args, argts)):
            raise self.err(n, f"`.{attr}` expects ({', '.join(argts)}), got ({', '.join(a.typ for a in args)})")
        return self.call(n, attr, [r] + args, ret, recv=r)

    def callexpr(self, n):
        tr = self.tr
        f = n.func
        if any(isinstance(a, ast.Starred) for a in n.args) or any(k.arg is None for k in n.keywords):
            raise self.err(n, "* / ** arguments")
        if isinstance(f, ast.Attribute):
            if (isinstance(f.value, ast.Name) and f.value.id in tr.mod.dataclasses_names and f.attr == "replace"):
                return self.replace(n)
            r = self.e(f.value)
            if r.typ != GATE:
                raise self.err(n, f"method call on a value of type {r.typ}")
            if n.keywords:
                raise self.err(n, "keyword arguments in a method call (parameter names differ per class)")
            return self.member(n, r, f.attr, [self.e(a) for a in n.args])
        if not isinstance(f, ast.Name):
            raise self.err(n, "call of a computed function")
        if f.id in self.env:
            raise self.err(n, "call of a local value")
        if f.id in tr.mod.replace_names:
            return self.replace(n)
        if f.id in tr.mod.fields:  # constructor of a gate class
            return self.construct(n, f.id, [(None, a) for a in n.args] + [(k.arg, k.value) for k in n.keywords], {})
        if f.id in EXTERNALS and f.id in tr.mod.imported and f.id not in tr.mod.module_defs:
            argts, ret = EXTERNALS[f.id]
            if n.keywords:
                raise self.err(n, "keyword arguments of an external")
            args = [self.e(a) for a in n.args]
            if len(args) != len(argts) or any(a.typ != t for a, t in zip(args, argts)):
                raise self.err(n, f"external `{f.id}` expects ({', '.join(argts)}), got ({', '.join(a.typ for a in args)})")
            self.uses_ext = True
            tr.used_externals.add(f.id)
            return Val(" ".join([f"x.{f.id}"] + [paren(a.term) for a in args]), ret)
        if f.id == "len" and len(n.args) == 1 and not n.keywords:
            a = self.e(n.args[0])
            if not a.typ.startswith("List "):
                raise self.err(n, f"len of a value of type {a.typ}")
            return Val(f"Int.ofNat (List.length {paren(a.term)})", "Int")
        if f.id in ("tuple", "list") and len(n.args) == 1 and not n.keywords:
            a = self.e(n.args[0])
            if not a.typ.startswith("List "):
                raise self.err(n, f"{f.id}() of a value of type {a.typ}")
            return a
        raise self.err(n, f"call of `{f.id}` is outside the translated subset")

    def construct(self, n, cname, given, base):
        """Class(args…): evaluate the arguments in call order, fill defaults, go through mk_<Class>"""
        tr = self.tr
        fields = tr.mod.fields[cname]
        vals = dict(base)
        pos = 0
        for kw, a in given:
            if kw is None:
                if pos >= len(fields):
                    raise self.err(n, f"too many positional arguments for {cname}")
                name = fields[pos][0]
                pos += 1
            else:
                name = kw
                if name not in [f[0] for f in fields]:
                    raise self.err(n, f"{cname} has no field `{name}`")
            if name in vals and not (name in base and kw is not None):
                raise self.err(n, f"field `{name}` given twice")
            vals[name] = self.e(a)
        args = []
        for name, t, default in fields:
            if name not in vals:
                if default is None:
                    raise self.err(n, f"{cname}(...) without a value for `{name}`")
                if not isinstance(default, ast.Constant):
                    raise self.err(n, f"non-constant default of `{cname}.{name}`")
                vals[name] = self.e(default)
            if vals[name].typ != t:
                raise self.err(n, f"`{cname}.{name}` has type {t}, got {vals[name].typ}")
            args.append(vals[name])
        return self.call(n, "mk_" + cname, args, GATE)

    def replace(self, n):
        if len(n.args) != 1:
            raise self.err(n, "dataclasses.replace with other than one positional argument")
        r = self.e(n.args[0])
        if r.cls is None or r.term != self.self_term:
            raise self.err(n, "dataclasses.replace of something other than `self` (class not known statically)")
        base = {name: Val(term, typ) for name, (term, typ) in self.field_terms.items()}
        return self.construct(n, r.cls, [(k.arg, k.value) for k in n.keywords], base)

    def ifexp(self, n):
        c = self.cond(n.test, self.e(n.test))
        ca, cb = self.child(), self.child()
        a, b = ca.e(n.body), cb.e(n.orelse)
        self.absorb(ca)
        self.absorb(cb)
        if a.typ != b.typ:
            raise self.err(n, f"branches of different types {a.typ} / {b.typ}")
        ta, ea = seal(ca.binds, a.term, False)
        tb, eb = seal(cb.binds, b.term, False)
        if ea or eb:
            ta = ta if ea else f"Except.ok {paren(ta)}"
            tb = tb if eb else f"Except.ok {paren(tb)}"
            v = self.tr.fresh()
            self.binds.append((v, f"if {c} then {ta} else {tb}"))
            return Val(v, a.typ)
        return Val(f"(if {c} then {ta} else {tb})", a.typ)

    def comprehension(self, n):
        if len(n.generators) != 1:
            raise self.err(n, "comprehension with several generators")
        g = n.generators[0]
        if g.ifs or g.is_async or not isinstance(g.target, ast.Name):
            raise self.err(n, "comprehension with a condition / tuple target")
        it = self.e(g.iter)
        if not it.typ.startswith("List "):
            raise self.err(n, f"iteration over a value of type {it.typ}")
        et = it.typ[len("List "):]
        var = lname(g.target.id)
        c = self.child({g.target.id: Val(var, et)})
        v = c.e(n.elt)
        self.absorb(c)
        if c.binds:
            raise self.err(n, "comprehension whose element expression can raise")
        return Val(f"List.map (fun {var} => {v.term}) {paren(it.term)}", "List " + (v.typ if " " not in v.typ else f"({v.typ})"))

    # ------------------------------------------------------------------ statements
    def block(self, stmts, ret, fall):
        """-> (term, can raise).  `fall`: None, or a function giving (term, can raise) for falling off the end"""
        for i, s in enumerate(stmts):
            if isinstance(s, ast.Pass) or (isinstance(s, ast.Expr) and isinstance(s.value, ast.Constant)
                                           and isinstance(s.value.value, str)):
                continue
            if isinstance(s, ast.Return):
                if self.in_init:
                    raise self.err(s, "return inside __post_init__")
                if s.value is None:
                    raise self.err(s, "bare return")
                v = self.e(s.value)
                if v.typ != ret:
                    raise self.err(s, f"returns a value of type {v.typ}, declared {ret}")
                return seal(self.binds, v.term, False)
            if isinstance(s, ast.Raise):
                exc = s.exc.func if isinstance(s.exc, ast.Call) else s.exc
                if not isinstance(exc, ast.Name) or s.cause is not None:
                    raise self.err(s, "raise of something other than a named exception class")
                self.tr.note_error(exc.id)
                return seal(self.binds, f"Except.error Err.{exc.id}", True)
            if isinstance(s, ast.Assign):
                if len(s.targets) != 1 or not isinstance(s.targets[0], ast.Name):
                    raise self.err(s, "assignment to something other than one name")
                self.env[s.targets[0].id] = self.e(s.value)
                continue
            if isinstance(s, ast.If):
                c = self.cond(s.test, self.e(s.test))
                rest = stmts[i + 1:]
                ca = self.child()
                cb = self.child()
                ta, ea = ca.block(s.body, ret, lambda ca=ca: ca.child_block(rest, ret, fall))
                tb, eb = cb.block(list(s.orelse) + rest, ret, fall)
                self.absorb(ca)
                self.absorb(cb)
                if ea or eb:
                    ta = ta if ea else f"Except.ok {paren(ta)}"
                    tb = tb if eb else f"Except.ok {paren(tb)}"
                return seal(self.binds, f"if {c} then {ta} else {tb}", ea or eb)
            raise self.err(s, f"statement form {type(s).__name__} is outside the translated subset")
        if fall is None:
            raise self.err(None, "control can fall off the end of the body (Python returns None)")
        t, e = fall()
        return seal(self.binds, t, e)

    def child_block(self, rest, ret, fall):
        c = self.child()
        r = c.block(rest, ret, fall)
        self.absorb(c)
        return r


def seal(binds, term, eff):
    """wrap the bindings of calls that can raise around the final term -> (term, can raise)"""
    if not binds and not eff:
        return term, False
    binds = list(binds)
    if not eff:
        if binds and binds[-1][0] == term:  # `bind m (fun v => ok v)` is `m` (right identity)
            _, term = binds.pop()
        else:
            term = f"Except.ok {paren(term)}"
    for v, m in reversed(binds):
        term = f"Except.bind ({m}) (fun {v} => {term})"
    return term, True


class Translator:
    def __init__(self, source):
        self.mod = Module(source)
        self.fns = ["mk_" + c.name for c in self.mod.classes] + list(MEMBERS)
        self.raises = {f: False for f in self.fns}
        self.needs_ext = {f: False for f in self.fns}
        self.failed = {}
        self.errors = []
        self.used_externals = set()
        self._n = 0

    def fresh(self):
        self._n += 1
        return f"v{self._n}"

    def note_error(self, name):
        if name not in self.errors:
            self.errors.append(name)

    def lean_name(self, fn):
        return fn if fn.startswith("mk_") else "Gate." + fn

    def ctor_term(self, cname, terms):
        return " ".join([f"Gate.{cname}"] + [paren(t) for t in terms])

    # ------------------------------------------------------------------ one definition
    def translate_mk(self, cname):
        self._n = 0  # fresh names restart per definition: an edit of one body does not renumber the others
        fields = self.mod.fields[cname]
        names = [lname(f[0]) for f in fields]
        r = self.mod._resolve_def(cname, "__post_init__", set())
        ctx = Ctx(self, "mk_" + cname, cname, None, {f[0]: (nm, f[1]) for f, nm in zip(fields, names)}, {}, in_init=True)
        ctor = self.ctor_term(cname, names)
        if r is None:
            term, eff = ctor, False
        else:
            kind, fd, _owner = r
            if kind != "method" or fd is None:
                raise TranslateError(f"{cname}.__post_init__ is not a plain method")
            a = fd.args
            if len(a.args) != 1 or a.vararg or a.kwarg or a.kwonlyargs or a.posonlyargs:
                raise TranslateError(f"{cname}.__post_init__ takes arguments (InitVar fields are not supported)")
            if a.args[0].arg != "self":
                raise TranslateError(f"{cname}.__post_init__: first parameter is not called `self`")
            # inside __post_init__, `self` is the object under construction: only its fields are readable
            ctx.self_term = ctor
            term, eff = ctx.block(fd.body, GATE, lambda: (ctor, False))
        sig = " ".join(f"({nm} : {ltype(f[1])})" for f, nm in zip(fields, names))
        return {"name": "mk_" + cname, "eff": eff, "uses_ext": ctx.uses_ext, "calls": ctx.calls, "kind": "mk",
                "sig": sig, "body": term, "doc": f"`{cname}(...)`: the dataclass constructor followed by "
                + (f"`{r[2]}.__post_init__`" if r else "nothing (no `__post_init__`)")}

    def translate_member(self, m):
        self._n = 0
        kind, argts, ret = MEMBERS[m]
        cases, eff, uses_ext, calls, docs = [], False, False, set(), []
        for c in self.mod.classes:
            fields = self.mod.fields[c.name]
            fterms = {f[0]: ("self_" + f[0], f[1]) for f in fields}
            self_term = self.ctor_term(c.name, ["self_" + f[0] for f in fields])
            pat = " ".join([f".{c.name}"] + ["self_" + f[0] for f in fields])
            r = self.mod.resolve(c.name, m)
            if r is None:
                raise TranslateError(f"{c.name} has no attribute `{m}` (Python would raise AttributeError)")
            if r[0] == "field":
                if kind != "property":
                    raise TranslateError(f"{c.name}.{m} is a dataclass field, expected a method")
                if r[1] != ret:
                    raise TranslateError(f"{c.name}.{m} is a field of type {r[1]}, declared {ret}")
                cases.append((pat, [], "self_" + m, False))
                docs.append(f"{c.name}: field")
                continue
            k, fd, owner = r
            if k != kind or fd is None:
                raise TranslateError(f"{owner}.{m} is a {k}, expected a {kind}")
            a = fd.args
            if a.vararg or a.kwarg or a.kwonlyargs or a.posonlyargs or a.defaults or not a.args or a.args[0].arg != "self":
                raise TranslateError(f"{owner}.{m}: unsupported signature")
            params = [p.arg for p in a.args[1:]]
            if len(params) != len(argts):
                raise TranslateError(f"{owner}.{m} takes {len(params)} argument(s), declared {len(argts)}")
            env = {p: Val(lname(p), t) for p, t in zip(params, argts)}
            ctx = Ctx(self, m, c.name, self_term, fterms, env)
            term, e = ctx.block(fd.body, ret, None)
            cases.append((pat, [lname(p) for p in params], term, e))
            eff |= e
            uses_ext |= ctx.uses_ext
            calls |= ctx.calls
            docs.append(f"{c.name}: `{owner}.{m}`")
        return {"name": m, "eff": eff, "uses_ext": uses_ext, "calls": calls, "kind": kind, "cases": cases,
                "argts": argts, "ret": ret, "doc": "; ".join(docs)}

    # ------------------------------------------------------------------ fixpoint + rendering
    def run(self):
        while True:
            self.errors = []
            self.used_externals = set()
            out, changed = {}, False
            for f in self.fns:
                if f in self.failed:
                    continue
                try:
                    d = self.translate_mk(f[3:]) if f.startswith("mk_") else self.translate_member(f)
                except TranslateError as e:
                    self.failed[f] = str(e)
                    changed = True
                    continue
                out[f] = d
                if d["eff"] and not self.raises[f]:
                    self.raises[f] = changed = True
                ne = d["uses_ext"] or any(self.needs_ext.get(g) for g in d["calls"])
                if ne and not self.needs_ext[f]:
                    self.needs_ext[f] = changed = True
            if not changed:
                break
        self.defs = out
        self.order = self._toposort(out)
        return self

    def _toposort(self, defs):
        order, state = [], {}

        def visit(f, path):
            if state.get(f) == 2:
                return
            if state.get(f) == 1:
                cyc = path[path.index(f):] + [f]
                raise TranslateError("mutually recursive definitions " + " -> ".join(cyc) + " (not structurally recursive)")
            state[f] = 1
            for g in [g for g in self.fns if g in defs[f]["calls"] and g in defs]:
                visit(g, path + [f])
            state[f] = 2
            order.append(f)
        for f in self.fns:
            if f in defs:
                visit(f, [])
        return order

    def render(self):
        mod = self.mod
        out = ["-- generated by harness/translate_cls.py from the current source of orquestra/quantum/circuits/_gates.py — do not edit",
               "set_option linter.unusedVariables false", "namespace OQ.Generated.TranslatedGates", "",
               "/-- the gate dataclasses: one constructor per class, one argument per dataclass field, in source order.",
               "    `P` parameters, `F` matrix factories (opaque), `E` exponents (opaque) -/",
               "inductive Gate (P F E : Type) where"]
        for c in mod.classes:
            out.append(f"  | {c.name} " + " ".join(f"({lname(n)} : {ltype(t)})" for n, t, _ in mod.fields[c.name]))
        out += ["deriving DecidableEq", "", "/-- the exception classes the translated bodies raise -/", "inductive Err where"]
        out += [f"  | {e}" for e in self.errors] or ["  | none_raised"]
        out += ["deriving Repr, DecidableEq, Inhabited", "",
                "/-- module-level functions the bodies call and that are NOT translated (sympy): parameters -/",
                "structure Ext (P S M : Type) where"]
        for name, (argts, ret) in EXTERNALS.items():
            out.append(f"  {name} : " + " → ".join(argts + [ret]))
        out += ["", "variable {P F E S M : Type}", ""]
        for f in self.order:
            d = self.defs[f]
            x = "(x : Ext P S M) " if self.needs_ext[f] else ""
            if d["kind"] == "mk":
                ret = "Except Err (Gate P F E)" if self.raises[f] else "Gate P F E"
                body = d["body"] if d["eff"] == self.raises[f] else f"Except.ok {paren(d['body'])}"
                out += [f"/-- {d['doc']} -/", f"def {f} {x}{d['sig']} : {ret} :=", f"  {body}", ""]
            else:
                rt = ltype(d["ret"])
                rt = f"Except Err ({rt})" if self.raises[f] else rt
                typ = " → ".join(["Gate P F E"] + [ltype(t) for t in d["argts"]] + [rt])
                out += [f"/-- `.{f}`" + ("" if d["kind"] == "property" else "(…)") + f" — {d['doc']} -/",
                        f"def Gate.{f} {x}: {typ}"]
                for pat, params, term, e in d["cases"]:
                    if self.raises[f] and not e:
                        term = f"Except.ok {paren(term)}"
                    out.append("  | " + ", ".join([pat] + params) + " => " + term)
                out.append("")
        for f, why in self.failed.items():
            out.append(f"-- {self.lean_name(f)}: NOT TRANSLATABLE — {why}")
        out += ["", "-- not translated (sympy matrices / strings): " + ", ".join(NOT_TRANSLATED),
                "end OQ.Generated.TranslatedGates"]
        return "\n".join(out) + "\n"


def load_source():
    from orquestra.quantum.circuits import _gates
    return inspect.getsource(_gates)


def translate(source=None):
    """-> Translator (run), from the module of the tree under test"""
    return Translator(load_source() if source is None else source).run()


if __name__ == "__main__":
    from . import common
    common.use_repo()
    t = translate()
    print(t.render())
    print("raises:", t.raises, "\nneeds_ext:", t.needs_ext, "\nfailed:", t.failed)
