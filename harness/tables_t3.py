"""T3: generated driver glue for the translated definitions over opaque objects (see harness/translated_check_opaque.py)."""
from .extract import table


@table("TranslatedDriverT3.lean")
def translated_driver_t3():
    from . import translated_check_opaque
    return translated_check_opaque.driver_text()
