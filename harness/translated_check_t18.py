"""T18: validation of harness/translate_t18.py (the operator utilities of C09 on PauliTerm / PauliSum objects).

Every definition of lean/OQ/Generated/TranslatedC09Ops.lean that translates now is run in the compiled driver (tag "TRT18", generated
glue lean/OQ/Generated/TranslatedDriverT18.lean, see harness/tables_t18.py) on seeded operands and compared with the REAL PYTHON
FUNCTION / METHOD it was translated from, called on real objects of the tree under test: `hermitian_conjugated(op)`, `is_hermitian(op)`,
`reverse_qubit_order(op, n)`, `get_sparse_operator(op, n).toarray()`, `get_expectation_value(op, wf, rev)`, `_kronecker_operators([...])`,
`_wrapped_kronecker(a, b)`, `PauliSum()`, `s1 == s2`, `term.terms`.  The comparison is exact: the dict `_ops` IN ORDER, coefficients and
matrix entries as fractions, the CLASS of a raised exception.  The operands are those of the T7 check (dyadic coefficients, see
harness/translated_check_t7.py, so that float arithmetic is exact); widths are 0..4 qubits beyond / below the operator's width, also
negative and `None`; amplitudes are dyadic.  The order in which CPython iterates each `term.operations` (a frozenset of tuples with a
str component: it changes from process to process) is RECORDED on the Python side and handed to the driver as the table behind the
external `items_iter`; the scipy externals are run at their dense meaning `OQ.C09.denseSp`.
A disagreement is reported through `tie_broken` in run.py (a broken tie, never a verdict by itself)."""
import random
import types
import warnings
from fractions import Fraction

from . import common
from . import translated_check_t7 as c7
from .tables_t7 import R, SUM, TERM, parse_type

MAT, WFT, KOPT = ("μ",), ("ω",), ("KOp", R, ("μ",))
OPTINT = ("Option", ("Int",))
SKIPPED = []
FUNCS = {"hermitian_conjugated": "operator_utils", "is_hermitian": "operator_utils", "reverse_qubit_order": "utils",
         "get_expectation_value": "utils", "get_sparse_operator": "sparse", "_kronecker_operators": "sparse",
         "_wrapped_kronecker": "sparse"}


def _mods():
    import orquestra.quantum.operators._pauli_operators as mod
    import orquestra.quantum.operators._openfermion_utils.operator_utils as ou
    import orquestra.quantum.operators._utils as ut
    import orquestra.quantum.operators._openfermion_utils.sparse_tools as st
    return mod, {"operator_utils": ou, "utils": ut, "sparse": st}


def _width(ops_list):
    return max([q for ops in ops_list for q, _ in ops] + [-1]) + 1


def _small_mat(r):
    """a small csc matrix with dyadic complex entries: (rows as [[re, im] …])"""
    d = r.choice([1, 2, 2, 4])
    return [[(Fraction(r.choice(c7.KS), 8) if r.random() < 0.6 else Fraction(0),
              Fraction(r.choice(c7.KS), 8) if r.random() < 0.3 else Fraction(0)) for _ in range(d)] for _ in range(d)]


def _gen(r, t, info, prev):
    meth = info["meth"]
    if t == OPTINT:
        w = 0
        if prev:
            t0, s0 = prev[0]
            w = _width([s0[0]]) if t0 == TERM else _width([x[0] for x in s0])
        u = r.random()
        if u < 0.2:
            return None
        if u < 0.35:
            return w - r.randint(1, 3)
        return w + r.choice([0, 0, 1, 2]) if meth != "get_sparse_operator" or w + 2 <= 5 else w
    if t == WFT:
        w = 0
        if prev:
            t0, s0 = prev[0]
            w = _width([s0[0]]) if t0 == TERM else _width([x[0] for x in s0])
        n = min(w + r.choice([0, 0, 1]), 4) if r.random() < 0.8 else r.choice([0, 1, 2])
        return [(Fraction(r.choice(c7.KS), 8), Fraction(r.choice(c7.KS), 8) if r.random() < 0.5 else Fraction(0)) for _ in range(2 ** n)]
    if t == ("Bool",):
        return r.random() < 0.5
    if t == KOPT:
        return ("num", c7._num(r)) if r.random() < 0.4 else ("mat", _small_mat(r))
    if t == ("List", KOPT):
        return [("num", c7._num(r))] + [("mat", _small_mat(r)) for _ in range(r.choice([0, 1, 2, 2]))] if r.random() < 0.9 else []
    if t == TERM and meth in ("get_sparse_operator", "get_expectation_value"):
        qs = r.sample(range(4), r.randint(0, 3))
        return ([(q, r.choice(c7.LETTERS)) for q in qs], c7._num(r))
    if t == SUM and meth in ("get_sparse_operator", "get_expectation_value"):
        return [_gen(r, TERM, info, prev) for _ in range(r.choice([0, 1, 2, 3]))]
    if t == SUM and meth == "is_hermitian" and r.random() < 0.5:
        # a simplified sum with real coefficients (hermitian), sometimes one imaginary coefficient
        seen, out = [], []
        for _ in range(r.choice([0, 1, 2, 3])):
            ops = c7._ops(r)
            if sorted(ops) in seen:
                continue
            seen.append(sorted(ops))
            c = (Fraction(r.choice([1, -1, 2, 3, -4]), 8), Fraction(0), "float")
            if r.random() < 0.15:
                c = (c[0], Fraction(1, 8), "complex")
            out.append((ops, c))
        return out
    if t == SUM and meth == "__eq__" and prev and r.random() < 0.6:
        s0 = prev[0][1]
        s1 = r.sample(s0, len(s0))
        if r.random() < 0.5 and s1:
            i = r.randrange(len(s1))
            s1[i] = (r.sample(s1[i][0], len(s1[i][0])), c7._near(r, s1[i][1]) if r.random() < 0.6 else c7._num(r))
        return s1
    return c7._gen(r, t, info, prev)


def _mat_json(rows):
    return {"r": len(rows), "c": len(rows[0]) if rows else 0, "d": [[c7._q(a), c7._q(b)] for row in rows for a, b in row]}


def _json(t, s):
    if t == OPTINT:
        return s
    if t == WFT:
        return [[c7._q(a), c7._q(b)] for a, b in s]
    if t == KOPT:
        return {"num": c7._json(R, s[1])} if s[0] == "num" else {"mat": [[[c7._q(a), c7._q(b)] for a, b in row] for row in s[1]]}
    if t == ("List", KOPT):
        return [_json(KOPT, x) for x in s]
    return c7._json(t, s)


def _py(mod, t, s):
    import numpy as np
    import scipy.sparse
    if t == OPTINT:
        return s
    if t == WFT:
        return types.SimpleNamespace(amplitudes=np.array([complex(float(a), float(b)) for a, b in s], dtype=complex))
    if t == KOPT:
        if s[0] == "num":
            return c7._py_num(s[1])
        return scipy.sparse.csc_matrix(np.array([[complex(float(a), float(b)) for a, b in row] for row in s[1]], dtype=complex))
    if t == ("List", KOPT):
        return [_py(mod, KOPT, x) for x in s]
    return c7._py(mod, t, s)


def _dense(v):
    import numpy as np
    import scipy.sparse
    if not scipy.sparse.issparse(v):
        raise c7.Unexpected(f"a {type(v).__name__} where a sparse matrix is declared")
    a = np.asarray(v.toarray(), dtype=complex)
    return {"r": int(a.shape[0]), "c": int(a.shape[1]),
            "d": [[c7._q(Fraction(float(z.real))), c7._q(Fraction(float(z.imag)))] for row in a for z in row]}


def _enc(mod, t, v):
    import scipy.sparse
    if t == MAT:
        return _dense(v)
    if t == KOPT:
        return {"mat": _dense(v)} if scipy.sparse.issparse(v) else {"num": c7._coef(v)}
    return c7._enc(mod, t, v)


def _norm_mat(g):
    """the driver's matrix {"r", "c", "d": [[re, im] …]} with canonical fractions"""
    if isinstance(g, dict) and "mat" in g:
        return {"mat": _norm_mat(g["mat"])}
    if isinstance(g, dict) and "d" in g:
        return {"r": g.get("r"), "c": g.get("c"), "d": [[c7._q(Fraction(a)), c7._q(Fraction(b))] for a, b in g["d"]]}
    return g


def _call(mods, info):
    mod, others = mods
    cls, meth = info["cls"], info["meth"]
    if cls is not None or meth not in FUNCS:
        return c7._resolve(mod, info)
    f = getattr(others[FUNCS[meth]], meth, None)
    if f is None:
        return None
    if meth == "get_sparse_operator":
        return lambda op, n: f(op, n_qubits=n)
    return f


def _terms_of(t, a, mod):
    if t == TERM:
        return [a]
    if t == SUM:
        return list(a.terms)
    return []


def run(seed=0, only="C09", per_fn=25):
    """returns (comparisons, disagreements, variants that are not translatable now)"""
    del SKIPPED[:]
    if only not in (None, "C09"):
        return 0, [], []
    common.use_repo()
    from . import tables_t18
    mods = _mods()
    mod = mods[0]
    _text, infos, notes, error = tables_t18.current()
    untranslatable = sorted(notes) + ([f"operator utilities ({error})"] if error else [])
    _glue, with_op, no_op = tables_t18.glue()
    bad = [f"{name}: {why}" for name, why in no_op.items()]
    rng = random.Random(f"translated-t18:{seed}")
    reqs, want, labels = [], [], []
    for name in with_op:
        info = infos[name]
        ats, rt = [parse_type(a) for a in info["args"]], parse_type(info["ret"])
        f = _call(mods, info)
        if f is None:
            SKIPPED.append((name, "no function / method of that name in the module"))
            continue
        for _ in range(per_fn):
            specs = []
            for t in ats:
                specs.append((t, _gen(rng, t, info, specs)))
            label = f"{name}({', '.join(common.canon(_json(t, s)) for t, s in specs)})"
            with warnings.catch_warnings():
                warnings.simplefilter("ignore")
                args = [_py(mod, t, s) for t, s in specs]
                payload, table = {}, []
                for i, ((t, sp), a) in enumerate(zip(specs, args)):
                    if t in (TERM, SUM):
                        payload[f"a{i}"] = c7._enc(mod, t, a)
                        for tm in _terms_of(t, a, mod):
                            table.append([[[q, p] for q, p in tm._ops.items()], [[q, p] for q, p in tm.operations]])
                    else:
                        payload[f"a{i}"] = _json(t, sp)
                payload["iter"] = table
                try:
                    v = f(*args)
                    w = _enc(mod, rt, v)
                    w = {"ok": w} if info["partial"] else w
                except c7.Unexpected as e:
                    w = {"python returned": str(e)}
                except Exception as e:  # noqa: BLE001
                    w = c7._raised(e, info["partial"])
            reqs.append((name, payload))
            want.append(w)
            labels.append((label, rt, info["partial"]))
    drv = common.Driver("TRT18")
    if not drv.available():
        return 0, ["model driver not built"], untranslatable
    got = drv.run(reqs) if reqs else []
    for (label, rt, partial), w, g in zip(labels, want, got):
        if partial and isinstance(g, dict) and "ok" in g:
            g = {"ok": _norm_mat(c7._norm(rt, g["ok"]))}
        elif not partial:
            g = _norm_mat(c7._norm(rt, g))
        if g != w:
            bad.append(f"{label}: python {common.canon(w)}, translated definition {common.canon(g)}")
    return len(reqs), bad, untranslatable


if __name__ == "__main__":
    n, bad, sk = run()
    print(n, "comparisons;", len(bad), "disagreements; untranslatable:", sk, "; not compared:", SKIPPED)
    for b in bad[:20]:
        print("  ", b)
