"""T12: generated driver glue for the translated circuit-container / embedding definitions (see harness/translated_check_t12.py)."""
from .extract import table


@table("TranslatedDriverT12.lean")
def translated_driver_t12():
    from . import translated_check_t12
    return translated_check_t12.driver_text()
