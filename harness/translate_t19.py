"""Translator extension T19 (on top of harness/translate_t9.py): the TEXT forms of Pauli operators (property C11: `PauliTerm.__repr__`,
`PauliSum.__repr__`, the string branches of `PauliTerm.__init__` / `PauliSum.__init__`) and the equality / hashing of Pauli operators
(property C03: `PauliTerm.__hash__`, `PauliTerm.__eq__`, `PauliSum.__eq__`, `PauliSum.__hash__`, `is_ising`, `constant_term`).

`T19` subclasses `translate_t9.T9`; everything of T9 (records, narrowing, numbers, exceptions, loops, strings, externals) is inherited.
Added here:

  classes    : an object of a translated class is a Lean STRUCTURE whose fields are the attributes `__init__` assigns (schema per class in
               the tables module, python attribute -> field).  `x.attr` on such an object is the field; `__init__` is translated as the
               function that returns the structure: `self.attr = e` is the assignment of that field (internally `self` is a dict under
               construction: every field must be assigned on every path that does not raise, a missing one is a TranslateError).
               `len(x)`, `x[i]`, `str(x)`, `x == y`, `hash(x)`, `x.prop` on an object of a translated class are calls of the translated
               `__len__`, `__getitem__`, `__repr__` (only while the class defines no `__str__`: checked at generation time), `__eq__`,
               `__hash__` and properties; `ClassName(args)` is the call of the translated `__init__` for the static type of the first
               argument (`PauliTerm(<str>, …)` is the string branch).
  type tests : `isinstance(x, C)` and `x is None` are FOLDED when the static type of `x` decides them (a `str` is a `str` and a
               `Sequence`, a list is a `Sequence`, an object of a translated class is an instance of that class, a value whose type is
               not `Option …` is not None), and an `if` whose test folds to a constant keeps only the live branch (this is how the
               "string branch" of a constructor is selected: the parameter is typed `str`).
  dicts      : a value of type `OQ.Py.Dict κ ν` (an insertion-ordered association list): iteration yields the keys, `.keys()`, `.values()`,
               `.items()`, `.get(k, default)`, `k in d`, `len(d)`, `d == {}`, dict comprehensions (= `dict` of the list of pairs).
  text       : f-strings without format specifications (`{e}` of a str is the str, of an int `str(int)`, of a number the EXTERNAL
               `ext_str_Num` – CPython's `repr(float)` / `repr(complex)` –, of an object of a translated class its `__repr__`),
               `s.strip()` (prelude `stripWs`), `re.split(r"\\+(?![^(]*\\))", s)` for EXACTLY this pattern (prelude `reSplitPlus`),
               `all([...])`, float literals with an exact value (`1.0` is the number 1: T9's numbers are exact, int and float are not
               distinguished), module constants read at generation time (`ALLOWED_OPERATORS`, `HASH_PRECISION`),
               conditional expressions (with `is None` narrowing), tuple targets `a, b = f(x)`.
  effects    : `warnings.warn(…)` is NOT modelled (skipped).
  sets       : see the C03 part of the tables module: `set(xs)` of hashable objects is rendered through the prelude `setOfHashables`
               (hash buckets: two objects are the same element iff their hashes are equal AND `__eq__` holds), `s == t` on such sets
               through `setEqHashables`; `round`, `np.allclose`, `hash` of a tuple / frozenset are externals.
"""
import ast
import contextlib
import copy
import inspect
import textwrap
from fractions import Fraction

from . import translate as tr
from . import translate_t9 as t9
from .translate import TranslateError, INT, BOOL, STR, LSTR, is_list, elem, list_of, paren, prod_parts
from .translate_t9 import RAT, NUM, NONE, EXC, unparen, is_opt, opt_elem, opt_of, prod_of, ok, _dotted, _const_str, _is_none

PAT_PLUS = r"\+(?![^(]*\))"
_T9 = t9.T9


def is_dict(t):
    return t.startswith("OQ.Py.Dict ")


def dict_kv(t):
    """key / value types of `OQ.Py.Dict K V`"""
    rest = t[len("OQ.Py.Dict "):].strip()
    depth, parts, cur = 0, [], ""
    for c in rest:
        if c == "(":
            depth += 1
        elif c == ")":
            depth -= 1
        if c == " " and depth == 0:
            if cur:
                parts.append(cur)
            cur = ""
        else:
            cur += c
    if cur:
        parts.append(cur)
    if len(parts) != 2:
        raise TranslateError(f"dict type {t}")
    return unparen(parts[0]), unparen(parts[1])


def dict_of(k, v):
    return f"OQ.Py.Dict {paren(k)} {paren(v)}"


def pair_of(k, v):
    return f"{paren(k)} × {paren(v)}"


@contextlib.contextmanager
def as_t19():
    """T9 constructs its sub-translators by the name `T9`; while a T19 translation runs that name denotes T19"""
    old = t9.T9
    t9.T9 = T19
    try:
        yield
    finally:
        t9.T9 = old


class T19(_T9):
    # ------------------------------------------------------------------ helpers
    def cls_of(self, t):
        """python class name of the translated class whose objects have the Lean type `t`"""
        return getattr(self.ctx, "classes", {}).get(t)

    def dunder(self, t, name):
        return getattr(self.ctx, "dunders", {}).get((t, name))

    def call_known(self, k, args_nodes, pre=()):
        """call of a translated function / method `k` (entry of the same shape as T9's `known`) on already translated receiver
        arguments `pre` [(text, type)] followed by the argument nodes"""
        want = list(k["args"])
        args = []
        for (v, t), te in zip(pre, want):
            args.append(self.coerce(v, t, te))
        rest = want[len(pre):]
        defaults = k.get("defaults", {})
        if len(args_nodes) > len(rest):
            raise TranslateError(f"call of {k['lean']}: too many arguments")
        for i, te in enumerate(rest):
            if i < len(args_nodes):
                v, t = self.e(args_nodes[i], te)
                args.append(self.coerce(v, t, te))
            elif i in defaults:
                args.append(defaults[i])
            else:
                raise TranslateError(f"call of {k['lean']}: argument {i} missing")
        text = "(" + " ".join([k["lean"]] + list(k["params"]) + args) + ")"
        return self.bind(text, k["ret"], "r") if k["partial"] else (text, k["ret"])

    def hset_fns(self, et):
        """the hash and equality functions of a set of objects of the translated class with Lean type `et`"""
        et = unparen(et)
        hd, ed = self.dunder(et, "__hash__"), self.dunder(et, "__eq__")
        if hd is None or ed is None or hd["partial"] or ed["partial"]:
            raise TranslateError(f"a set of {et}: no total translated __hash__ / __eq__")
        a, b = self.ctx.fresh("a"), self.ctx.fresh("b")
        hv, _ = self.sub({a: et}).call_known(hd, [], [(a, et)])
        ev, _ = self.sub({a: et, b: et}).call_known(ed, [ast.Name(id=b, ctx=ast.Load())], [(a, et)])
        return f"(fun ({a} : {et}) => {hv}) (fun ({a} {b} : {et}) => {ev})"

    def static_isinstance(self, t, cname):
        """True / False when the static type decides `isinstance(x, cname)`, None otherwise"""
        if t == STR:
            return cname in ("str", "Sequence")
        if is_list(t):
            return cname in ("Sequence", "list")
        if self.cls_of(t) is not None:
            return cname == self.cls_of(t)
        if t in (INT,):
            return cname in ("int",)
        return None

    def coerce(self, v, t, expect):
        if expect is not None and t != expect and is_dict(expect) and is_list(t) and elem(t) == pair_of(*dict_kv(expect)):
            return v      # `OQ.Py.Dict κ ν` is an abbreviation of `List (κ × ν)`
        return super().coerce(v, t, expect)

    def ring(self, t):
        """`t` is a declared coefficient RING type (`+ * -` are Lean's; an int meeting it is `ring_of_int`)"""
        return t in getattr(self.ctx, "rings", {})

    def binop_on(self, op, a, ta, b, tb):
        rings = getattr(self.ctx, "rings", {})
        r = ta if ta in rings else tb if tb in rings else None
        if r is not None and {ta, tb} <= {r, INT}:
            sym = {ast.Add: "+", ast.Sub: "-", ast.Mult: "*"}.get(type(op))
            if sym is None:
                raise TranslateError(f"{type(op).__name__} on {ta}, {tb}")
            a = a if ta == r else f"({rings[r]} {a} : {r})"
            b = b if tb == r else f"({rings[r]} {b} : {r})"
            return f"({a} {sym} {b})", r
        return super().binop_on(op, a, ta, b, tb)

    # ------------------------------------------------------------------ expressions
    def e(self, n, expect=None):
        key = ast.dump(n)
        if key in self.narrow:
            return self.narrow[key]
        if isinstance(n, ast.Constant) and isinstance(n.value, float):
            f = Fraction(n.value)
            if float(f) != n.value:
                raise TranslateError(f"float literal {n.value!r}")
            return (f"(({f.numerator} : Int) : Rat)" if f.denominator == 1 else f"(({f.numerator} : Rat) / {f.denominator})"), RAT
        if isinstance(n, ast.Name) and n.id not in self.env and n.id in getattr(self.ctx, "consts", {}):
            return self.ctx.consts[n.id]
        if isinstance(n, ast.JoinedStr):
            parts = []
            for x in n.values:
                if isinstance(x, ast.Constant) and isinstance(x.value, str):
                    parts.append(tr.T.e(self, x)[0])
                elif isinstance(x, ast.FormattedValue) and x.conversion == -1 and x.format_spec is None:
                    parts.append(self.str_of(x.value))
                else:
                    raise TranslateError("f-string with a conversion / format specification")
            if not parts:
                return "([] : List Char)", STR
            return "(" + " ++ ".join(parts) + ")", STR
        if isinstance(n, ast.IfExp):
            return self.ifexp(n, expect)
        if isinstance(n, ast.DictComp):
            if len(n.generators) != 1:
                raise TranslateError("dict comprehension with several generators")
            lc = ast.ListComp(elt=ast.Tuple(elts=[n.key, n.value], ctx=ast.Load()), generators=n.generators)
            want = list_of(pair_of(*dict_kv(expect))) if expect is not None and is_dict(expect) else None
            v, t = self._gen9(lc, want)
            k, val = [unparen(x) for x in prod_parts(elem(t))]
            return f"(OQ.Py.dictOfPairs {v})", dict_of(k, val)
        if isinstance(n, ast.Subscript) and not isinstance(n.slice, ast.Slice) and _const_str(n.slice) is None:
            k0 = len(self.ctx.pending)
            try:
                v, t = self.e(n.value)
            except TranslateError:
                del self.ctx.pending[k0:]
                return super().e(n, expect)
            d = self.dunder(t, "__getitem__")
            if d is not None:
                return self.call_known(d, [n.slice], [(v, t)])
            del self.ctx.pending[k0:]
        return super().e(n, expect)

    def str_of(self, node):
        """`str(e)` / `format(e, "")`"""
        v, t = self.e(node)
        if t == STR:
            return v
        if t == INT:
            return f"(OQ.Py.strOfInt {v})"
        if t in (NUM, RAT):
            p = getattr(self.ctx, "str_ext", None)
            if p is None:
                raise TranslateError("str() of a number: the external `ext_str_Num` is not declared for this function")
            return f"({p} {self.coerce(v, t, NUM)})"
        d = self.dunder(t, "__str__")
        if d is not None:
            return self.call_known(d, [], [(v, t)])[0]
        raise TranslateError(f"str() of a {t}")

    def ifexp(self, n, expect=None):
        ot = self.opt_test(n.test)
        if ot is not None:
            scrut, tp, nodes, positive, truthy = ot
            if truthy:
                raise TranslateError("conditional expression on the truth value of an optional")
            nv = self.ctx.fresh("nv")
            present = self.sub({nv: tp}, {ast.dump(x): (nv, tp) for x in nodes})
            pos_n, neg_n = (n.body, n.orelse) if positive else (n.orelse, n.body)
            a, ta = present.pure_e(pos_n, expect, "a conditional expression")
            b, tb = self.pure_e(neg_n, expect, "a conditional expression")
            a, b, t = self.unify(a, ta, b, tb)
            return f"(match {scrut} with | some {nv} => {a} | none => {b})", t
        c, tc = self.pure_e(n.test, None, "the test of a conditional expression")
        c = self.truth(c, tc)
        if c in ("true", "false"):
            return self.e(n.body if c == "true" else n.orelse, expect)
        a, ta = self.pure_e(n.body, expect, "a conditional expression")
        b, tb = self.pure_e(n.orelse, expect, "a conditional expression")
        a, b, t = self.unify(a, ta, b, tb)
        return f"(if {c} then {a} else {b})", t

    def unify(self, a, ta, b, tb):
        if ta == tb:
            return a, b, ta
        tower = [INT, RAT, NUM]
        if ta in tower and tb in tower:
            top = tower[max(tower.index(ta), tower.index(tb))]
            return self.coerce(a, ta, top), self.coerce(b, tb, top), top
        raise TranslateError(f"branches of a conditional expression of types {ta}, {tb}")

    def attribute(self, n):
        d = _dotted(n)
        if not (d in self.ctx.ext and self.ctx.ext[d][1] is None):
            k0 = len(self.ctx.pending)
            try:
                v, t = self.e(n.value)
            except TranslateError:
                del self.ctx.pending[k0:]
                return super().attribute(n)
            if self.cls_of(t) is not None:
                for k, f, ft, optional in self.ctx.records[t]:
                    if k == n.attr:
                        return (f"{v}.{f}" if f else v), ft
                p = self.dunder(t, "prop:" + n.attr)
                if p is not None:
                    return self.call_known(p, [], [(v, t)])
                raise TranslateError(f"attribute {n.attr} of a {self.cls_of(t)}")
            del self.ctx.pending[k0:]
        return super().attribute(n)

    def compare(self, n):
        if len(n.ops) == 1:
            op, l, r = n.ops[0], n.left, n.comparators[0]
            if isinstance(op, (ast.Is, ast.IsNot)) and _is_none(r):
                v, t = self.e(l)
                if not is_opt(t) and t != NONE:
                    return ("false" if isinstance(op, ast.Is) else "true"), BOOL
            if isinstance(op, (ast.In, ast.NotIn)):
                k0 = len(self.ctx.pending)
                try:
                    b, tb = self.e(r)
                except TranslateError:
                    del self.ctx.pending[k0:]
                    return super().compare(n)
                if is_dict(tb):
                    a, ta = self.e(l)
                    c = f"(OQ.Py.dictHas {b} {self.coerce(a, ta, dict_kv(tb)[0])})"
                    return (f"(!{c})" if isinstance(op, ast.NotIn) else c), BOOL
                del self.ctx.pending[k0:]
            if isinstance(op, (ast.Eq, ast.NotEq)):
                k0 = len(self.ctx.pending)
                try:
                    a, ta = self.e(l)
                except TranslateError:
                    del self.ctx.pending[k0:]
                    return super().compare(n)
                neg = isinstance(op, ast.NotEq)
                if is_dict(ta) and isinstance(r, ast.Dict) and not r.keys:
                    c = f"({a}.isEmpty)"
                    return (f"(!{c})" if neg else c), BOOL
                if ta.startswith("OQ.Py.HSet "):
                    b, tb = self.e(r)
                    if tb != ta:
                        raise TranslateError(f"== on {ta}, {tb}")
                    c = f"(OQ.Py.setEqHashables {self.hset_fns(ta[len('OQ.Py.HSet '):].strip())} {a} {b})"
                    return (f"(!{c})" if neg else c), BOOL
                d = self.dunder(ta, "__eq__")
                if d is not None and not neg:
                    return self.call_known(d, [r], [(a, ta)])
                special = getattr(self.ctx, "eq_special", None)
                if special is not None:
                    b, tb = self.e(r)
                    got = special(self, a, ta, b, tb)
                    if got is not None:
                        return (f"(!{got})" if neg else got), BOOL
                    if ta == tb and (is_dict(ta) or ta in (RAT, NUM)):
                        return f"({a} {'!=' if neg else '=='} {b})", BOOL
                del self.ctx.pending[k0:]
        return super().compare(n)

    def call(self, n):
        f = n.func
        d = _dotted(f)
        if isinstance(f, ast.Name) and not n.keywords:
            if f.id == "isinstance" and len(n.args) == 2 and not (
                    isinstance(n.args[1], ast.Name) and n.args[1].id == "complex" and "isinstance:complex" in self.ctx.ext):
                v, t = self.e(n.args[0])
                names = n.args[1].elts if isinstance(n.args[1], ast.Tuple) else [n.args[1]]
                if all(isinstance(x, ast.Name) for x in names):
                    got = [self.static_isinstance(t, x.id) for x in names]
                    if any(g is True for g in got):
                        return "true", BOOL
                    if all(g is False for g in got):
                        return "false", BOOL
                if not (len(names) == 1 and isinstance(names[0], ast.Name) and names[0].id == "complex"):
                    raise TranslateError(f"isinstance(_ : {t}, {ast.unparse(n.args[1])})")
            if f.id == "len" and len(n.args) == 1:
                k0 = len(self.ctx.pending)
                v, t = self.e(n.args[0])
                if is_dict(t):
                    return f"(({v}.length : Nat) : Int)", INT
                dd = self.dunder(t, "__len__")
                if dd is not None:
                    return self.call_known(dd, [], [(v, t)])
                del self.ctx.pending[k0:]
            if f.id == "str" and len(n.args) == 1:
                return self.str_of(n.args[0]), STR
            if f.id == "hash" and len(n.args) == 1:
                k0 = len(self.ctx.pending)
                v, t = self.e(n.args[0])
                dd = self.dunder(t, "__hash__")
                if dd is not None:
                    return self.call_known(dd, [], [(v, t)])
                del self.ctx.pending[k0:]
            if f.id == "set" and len(n.args) == 1:
                k0 = len(self.ctx.pending)
                v, t = self.e(n.args[0])
                if is_list(t) and self.dunder(elem(t), "__hash__") is not None and self.dunder(elem(t), "__eq__") is not None:
                    et = elem(t)
                    return f"(OQ.Py.setOfHashables {self.hset_fns(paren(et))} {v})", f"OQ.Py.HSet {paren(et)}"
                del self.ctx.pending[k0:]
            if f.id == "hash" and len(n.args) == 1 and isinstance(n.args[0], ast.Call) and isinstance(n.args[0].func, ast.Name) \
                    and n.args[0].func.id == "tuple" and len(n.args[0].args) == 1 and "hash:tuple" in self.ctx.ext:
                v, t = self.e(n.args[0].args[0])
                hd = self.dunder(elem(t), "__hash__") if is_list(t) else None
                if hd is None:
                    raise TranslateError(f"hash(tuple(_ : {t}))")
                p, ats, rt, _raises = self.ctx.ext["hash:tuple"][:4]
                x = self.ctx.fresh("a")
                hv, ht = self.sub({x: elem(t)}).call_known(hd, [], [(x, elem(t))])
                return f"({p} ({v}.map (fun ({x} : {elem(t)}) => {hv})))", rt
            if f.id == "sum" and len(n.args) == 1:
                k0 = len(self.ctx.pending)
                v, t = self.e(n.args[0])
                if is_list(t) and self.ring(elem(t)):
                    r = elem(t)
                    return f"({v}.foldl (fun (acc c : {r}) => acc + c) ({self.ctx.rings[r]} (0 : Int) : {r}))", r
                del self.ctx.pending[k0:]
            if f.id == "isinstance" and len(n.args) == 2 and isinstance(n.args[1], ast.Name) and n.args[1].id == "complex" \
                    and "isinstance:complex" in self.ctx.ext:
                k0 = len(self.ctx.pending)
                v, t = self.e(n.args[0])
                if self.ring(t):
                    return f"({self.ctx.ext['isinstance:complex'][0]} {v})", BOOL
                del self.ctx.pending[k0:]
            if f.id == "all" and len(n.args) == 1:
                v, t = self.e(n.args[0])
                if t == list_of(BOOL):
                    return f"({v}.all id)", BOOL
                raise TranslateError(f"all() of a {t}")
            if f.id in getattr(self.ctx, "ctors", {}):
                if not n.args:
                    raise TranslateError(f"{f.id}() without arguments")
                k0 = len(self.ctx.pending)
                v, t = self.e(n.args[0])
                for first_type, k in self.ctx.ctors[f.id]:
                    if t == first_type or (first_type == NUM and t in (INT, RAT)):
                        return self.call_known(k, n.args[1:], [(v, t)])
                raise TranslateError(f"{f.id}(<{t}>, …): no translated constructor branch")
        if d == "re.split" and len(n.args) == 2 and not n.keywords and _const_str(n.args[0]) == PAT_PLUS:
            v, t = self.e(n.args[1])
            if t == STR:
                return f"(OQ.Py.reSplitPlus {v})", LSTR
        if isinstance(f, ast.Attribute) and not n.keywords:
            meth = f.attr
            if meth in ("values", "items", "keys", "get", "strip"):
                k0 = len(self.ctx.pending)
                try:
                    v, t = self.e(f.value)
                except TranslateError:
                    del self.ctx.pending[k0:]
                    return super().call(n)
                if t == STR and meth == "strip" and not n.args:
                    return f"(OQ.Py.stripWs {v})", STR
                if is_dict(t):
                    kt, vt = dict_kv(t)
                    if meth == "keys" and not n.args:
                        return f"(OQ.Py.dictKeys {v})", list_of(kt)
                    if meth == "values" and not n.args:
                        return f"(OQ.Py.dictValues {v})", list_of(vt)
                    if meth == "items" and not n.args:
                        return f"(OQ.Py.dictItems {v})", list_of(pair_of(kt, vt))
                    if meth == "get" and len(n.args) == 2:
                        a, ta = self.e(n.args[0], kt)
                        b, tb = self.e(n.args[1], vt)
                        return f"(OQ.Py.dictGetD {v} {self.coerce(a, ta, kt)} {self.coerce(b, tb, vt)})", vt
                    raise TranslateError(f"dict.{meth} with these arguments")
                del self.ctx.pending[k0:]
        return super().call(n)

    def _iter_keys(self, it_node):
        """iterating over a dict yields its keys"""
        k0 = len(self.ctx.pending)
        try:
            _v, t = self.e(it_node)
        except TranslateError:
            del self.ctx.pending[k0:]
            return it_node
        del self.ctx.pending[k0:]
        if is_dict(t):
            return ast.Call(func=ast.Attribute(value=it_node, attr="keys", ctx=ast.Load()), args=[], keywords=[])
        return it_node

    def _gen9(self, n, expect=None):
        if len(n.generators) == 1:
            g = n.generators[0]
            it2 = self._iter_keys(g.iter)
            if it2 is not g.iter:
                n = copy.copy(n)
                g2 = copy.copy(g)
                g2.iter = it2
                n.generators = [g2]
        return super()._gen9(n, expect)

    def _for9(self, s, rest, tail):
        it2 = self._iter_keys(s.iter)
        if it2 is not s.iter:
            s = copy.copy(s)
            s.iter = it2
        return super()._for9(s, rest, tail)

    # ------------------------------------------------------------------ statements
    def block(self, stmts, tail=None):
        if stmts:
            s, rest = stmts[0], stmts[1:]
            if isinstance(s, ast.Expr) and isinstance(s.value, ast.Call) and _dotted(s.value.func) == "warnings.warn":
                return self.block(rest, tail)      # warnings are not modelled
            if isinstance(s, ast.Expr) and isinstance(s.value, ast.Call) and _dotted(s.value.func) in self.ctx.known \
                    and not self.ctx.known[_dotted(s.value.func)]["partial"]:
                self.pure_e(s.value, None, "a statement-level call")    # (it must translate; a total function has no effect)
                return self.block(rest, tail)
            if isinstance(s, ast.Assign) and len(s.targets) == 1 and isinstance(s.targets[0], ast.Tuple) \
                    and all(isinstance(x, ast.Name) for x in s.targets[0].elts):
                v, t, wrap = self.stmt_e(s.value)
                parts = [unparen(x) for x in prod_parts(t)]
                names = [x.id for x in s.targets[0].elts]
                if len(parts) != len(names) or len(names) < 2 or is_list(t):
                    raise TranslateError(f"unpacking a {t} into {len(names)} names")
                tmp = self.ctx.fresh("tup")
                stmts2 = [ast.Assign(targets=[ast.Name(id=x, ctx=ast.Store())], value=ast.Name(id=f"{tmp}_{k}", ctx=ast.Load()))
                          for k, x in enumerate(names)]
                env = {f"{tmp}_{k}": pt for k, pt in enumerate(parts)}
                lets = f"let {tmp} : {t} := {v}\n  " + "".join(
                    f"let {tmp}_{k} : {pt} := {t9._proj(tmp, k, len(parts))}\n  " for k, pt in enumerate(parts))
                return wrap(lets + self.sub(env).block(stmts2 + rest, tail))
            if isinstance(s, ast.If):
                k0 = len(self.ctx.pending)
                folded = None
                try:
                    if self.opt_test(s.test) is None:
                        c, tc = self.e(s.test)
                        if len(self.ctx.pending) == k0 and tc == BOOL and c in ("true", "false", "(!true)", "(!false)"):
                            folded = c in ("true", "(!false)")
                except (TranslateError, t9._Effect):
                    pass
                del self.ctx.pending[k0:]
                if folded is not None:
                    body = s.body if folded else (s.orelse or [])
                    return self.block(body + ([] if tr._ends(body) else rest), tail)
        return super().block(stmts, tail)


# ---------------------------------------------------------------------- `__init__` as the function returning the object's state
class _InitSelf(ast.NodeTransformer):
    """`self.attr = e`  ->  `self["attr"] = e` (T9's "dict under construction")"""

    def _fix(self, tgt):
        if isinstance(tgt, ast.Attribute) and isinstance(tgt.value, ast.Name) and tgt.value.id == "self":
            return ast.Subscript(value=ast.Name(id="self", ctx=ast.Load()), slice=ast.Constant(value=tgt.attr), ctx=ast.Store())
        return tgt

    def visit_Assign(self, n):
        self.generic_visit(n)
        n.targets = [self._fix(t) for t in n.targets]
        return n

    def visit_AnnAssign(self, n):
        self.generic_visit(n)
        if n.value is not None and isinstance(n.target, ast.Attribute):
            return ast.copy_location(ast.Assign(targets=[self._fix(n.target)], value=n.value), n)
        return n


def _desugar_init(node):
    node = _InitSelf().visit(node)
    first = ast.Assign(targets=[ast.Name(id="self", ctx=ast.Store())], value=ast.Dict(keys=[], values=[]))
    first.lineno, first.col_offset = 0, 0
    node.body = [first] + node.body + [ast.Return(value=ast.Name(id="self", ctx=ast.Load()))]
    node.args.args = node.args.args[1:]
    return node


def translate_function19(fn, lean_name, arg_types, ret, partial=False, records=None, typevars=(), attrs=None, methods=None, ext=None,
                         binops=None, truthy=None, known=None, empties=(), dicts=(), doc="", init_of=None, classes=None, dunders=None,
                         ctors=None, consts=None, str_ext=None, eq_special=None, fixed=None, binder_prefix="", rings=None, prefix_params=()):
    """as `translate_t9.translate_function9`; `init_of` = the structure an `__init__` builds (then `arg_types` lists the parameters
    after `self`); `fixed` = {parameter name: python default constant} removes a parameter (it is bound to that constant)"""
    raw = getattr(fn, "fget", fn)
    raw = getattr(raw, "__func__", raw)
    raw = getattr(raw, "__wrapped__", raw)
    src = textwrap.dedent(inspect.getsource(raw))
    node = ast.parse(src).body[0]
    if not isinstance(node, ast.FunctionDef):
        raise TranslateError("not a function")
    node = t9._Rename().visit(node)
    if node.args.vararg or node.args.kwarg or node.args.kwonlyargs:
        raise TranslateError("signature")
    dicts = list(dicts)
    if init_of is not None:
        if raw.__name__ != "__init__":
            raise TranslateError("not an __init__")
        node = _desugar_init(node)
        dicts = [init_of] + dicts
    names = [a.arg for a in node.args.args if a.arg != "cls"]
    if len(names) != len(arg_types):
        raise TranslateError("arity")
    opt = dict(attrs=attrs, methods=methods, ext=ext, binops=binops, truthy=truthy)
    params = t9.params_of(opt)
    pnames = [p for p, _ in params] + list(prefix_params)
    known = dict(known or {})
    everything = list(known.values()) + list((dunders or {}).values()) + [k for ks in (ctors or {}).values() for _t, k in ks]
    for k in everything:
        for p in k["params"]:
            if p not in pnames:
                raise TranslateError(f"the callee {k['lean']} needs the external {p}")
    ctx = t9.Ctx(partial, records or {}, attrs or {}, methods or {}, ext or {}, binops or {}, truthy or {}, known,
                 t9._node_types(node, empties, dicts), list(typevars))
    ctx.classes, ctx.dunders, ctx.ctors, ctx.consts = dict(classes or {}), dict(dunders or {}), dict(ctors or {}), dict(consts or {})
    ctx.str_ext, ctx.eq_special, ctx.rings = str_ext, eq_special, dict(rings or {})
    tr.T.KNOWN = {}
    with as_t19():
        try:
            body = T19(dict(zip(names, arg_types)), ret, ctx).block(node.body)
        except t9._Effect:
            raise TranslateError("the function may raise but is declared total")
    binders = ("{" + " ".join(typevars) + " : Type} " if typevars else "") + binder_prefix \
        + "".join(f"({p} : {t}) " for p, t in params) + " ".join(f"({n} : {t})" for n, t in zip(names, arg_types))
    where = f"{inspect.getsourcefile(raw).split('/src/')[-1]}:{raw.__qualname__}"
    rt = f"Except {EXC} ({ret})" if partial else ret
    return f"/-- translated from `{where}`{doc} -/\ndef {lean_name} {binders} : {rt} :=\n  {body}\n"
