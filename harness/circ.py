"""Shared helpers for the circuit / gate / matrix properties: exact angles, JSON gate specs,
construction of the REAL library objects from specs, matrix conversions.

Gate spec (JSON):
  {"gate": "RX", "angles": [[ch, sh], ...]}          built-in; an angle is the rational point
                                                     (cos θ/2, sin θ/2); Python gets θ = 2·atan2(sh, ch)
  {"custom": "name", "m": [[ [re,im], ...], ...]}    custom gate, numeric Gaussian-rational matrix
  {"controlled": spec, "k": 2} | {"dagger": spec} | {"power": spec, "e": "1/2"} | {"exp": spec}
Operation spec: {"g": spec, "qs": [q0, q1, …]}.   Circuit spec: {"n": declared width or None, "ops": [...]}
"""
import math
from fractions import Fraction

from . import common
from .common import rat, unrat

BUILTIN_PARAMS = {"X": 0, "Y": 0, "Z": 0, "H": 0, "I": 0, "S": 0, "SX": 0, "T": 0,
                  "RX": 1, "RY": 1, "RZ": 1, "RH": 1, "PHASE": 1, "U3": 3, "GPi": 1, "GPi2": 1,
                  "CNOT": 0, "CZ": 0, "SWAP": 0, "ISWAP": 0,
                  "CPHASE": 1, "XX": 1, "YY": 1, "ZZ": 1, "XY": 1, "MS": 2, "Delay": 1}
BUILTIN_QUBITS = {"X": 1, "Y": 1, "Z": 1, "H": 1, "I": 1, "S": 1, "SX": 1, "T": 1,
                  "RX": 1, "RY": 1, "RZ": 1, "RH": 1, "PHASE": 1, "U3": 1, "GPi": 1, "GPi2": 1,
                  "CNOT": 2, "CZ": 2, "SWAP": 2, "ISWAP": 2,
                  "CPHASE": 2, "XX": 2, "YY": 2, "ZZ": 2, "XY": 2, "MS": 2, "Delay": 1}
# gates whose entries are exact in doubles only at special angles; H/T/RH/GPi2/MS contain 1/sqrt(2)
EXACT_FIXED = ["X", "Y", "Z", "I", "S", "SX", "CNOT", "CZ", "SWAP", "ISWAP"]


def rat_angle(rng, axis_prob=0.15):
    """rational point (cos θ/2, sin θ/2) of the unit circle as [ch, sh] JSON rationals"""
    if rng.random() < axis_prob:
        ch, sh = rng.choice([(1, 0), (0, 1), (-1, 0), (0, -1)])
        return [ch, sh]
    t = Fraction(rng.randrange(-12, 13), rng.randrange(1, 13))
    return [rat((1 - t * t) / (1 + t * t)), rat(2 * t / (1 + t * t))]


def theta_of(angle):
    if isinstance(angle, dict):   # {"raw": "p/q"}: the angle itself in radians (not a rational circle point: oracle-only)
        x = unrat(angle["raw"])
        return int(x) if angle.get("int") else float(x)
    ch, sh = float(unrat(angle[0])), float(unrat(angle[1]))
    return 2.0 * math.atan2(sh, ch)


def gauss_matrix(rng, k, lo=-3, hi=3):
    """random 2^k x 2^k matrix of small Gaussian integers as JSON [[ [re,im], …], …] (NOT unitary:
    an embedding bug cannot hide behind symmetry)"""
    d = 2 ** k
    return [[[rng.randrange(lo, hi + 1), rng.randrange(lo, hi + 1)] for _ in range(d)] for _ in range(d)]


def sympy_matrix(m):
    import sympy
    return sympy.Matrix([[sympy.Rational(str(unrat(e[0]))) + sympy.I * sympy.Rational(str(unrat(e[1]))) for e in row]
                         for row in m])


def numpy_matrix(m):
    import numpy as np
    return np.array([[complex(float(unrat(e[0])), float(unrat(e[1]))) for e in row] for row in m])


def build_gate(spec):
    """REAL gate object of the library from a spec"""
    common.use_repo()
    import orquestra.quantum.circuits as oqc
    if "gate" in spec:
        name = spec["gate"]
        ref = getattr(oqc, name)
        if BUILTIN_PARAMS[name] == 0:
            return ref
        if name == "Delay":
            return ref(*[float(unrat(a[0])) for a in spec["angles"]])
        return ref(*[theta_of(a) for a in spec["angles"]])
    if "custom" in spec:
        d = oqc.CustomGateDefinition(spec["custom"], sympy_matrix(spec["m"]), ())
        return d()
    if "controlled" in spec:
        return build_gate(spec["controlled"]).controlled(spec["k"])
    if "dagger" in spec:
        return build_gate(spec["dagger"]).dagger
    if "power" in spec:
        e = unrat(spec["e"])
        return build_gate(spec["power"]).power(int(e) if e.denominator == 1 else float(e))
    if "exp" in spec:
        return build_gate(spec["exp"]).exp
    raise ValueError(f"bad gate spec {spec}")


def spec_num_qubits(spec):
    if "gate" in spec:
        return BUILTIN_QUBITS[spec["gate"]]
    if "custom" in spec:
        return int(math.log2(len(spec["m"])))
    if "controlled" in spec:
        return spec_num_qubits(spec["controlled"]) + spec["k"]
    for k in ("dagger", "power", "exp"):
        if k in spec:
            return spec_num_qubits(spec[k])
    raise ValueError(spec)


def build_circuit(cspec):
    common.use_repo()
    import orquestra.quantum.circuits as oqc
    ops = [build_gate(o["g"])(*o["qs"]) for o in cspec["ops"]]
    c = oqc.Circuit(ops, n_qubits=cspec.get("n"))
    scribble(ops)
    return c


def scribble(ops):
    """the caller goes on using ITS OWN list after a circuit was built from it (a circuit is a value: growing an ansatz in
    one working list and taking a Circuit(ops) snapshot per layer must not change the earlier snapshots)"""
    if ops:
        ops.reverse()
        ops.extend(ops[:2])
        del ops[0]


def random_builtin_spec(rng, names=None, exact_only=False):
    names = names or list(BUILTIN_PARAMS)
    if exact_only:
        names = [n for n in names if n in EXACT_FIXED]
    name = rng.choice(names)
    return {"gate": name, "angles": [rat_angle(rng) for _ in range(BUILTIN_PARAMS[name])]}


def random_op(rng, n, names=None, custom_prob=0.4, max_arity=3, counter=[0]):
    """random operation spec on a register of n qubits: custom Gaussian-integer gates of arity 1..max_arity
    or built-ins, on random distinct (unordered, gapped) qubit tuples"""
    if rng.random() < custom_prob:
        k = rng.randrange(1, min(n, max_arity) + 1)
        counter[0] += 1
        g = {"custom": f"cg{counter[0]}", "m": gauss_matrix(rng, k)}
    else:
        cands = [nm for nm in (names or BUILTIN_PARAMS) if BUILTIN_QUBITS[nm] <= n]
        g = random_builtin_spec(rng, cands)
        k = BUILTIN_QUBITS[g["gate"]]
    return {"g": g, "qs": rng.sample(range(n), k)}


def random_circuit(rng, n, length, **kw):
    return {"n": rng.choice([None, n]), "ops": [random_op(rng, n, **kw) for _ in range(length)]}


def model_matrix_to_numpy(resp):
    """driver matrix JSON (rows of Cyc8 4-tuples) -> numpy complex array"""
    import numpy as np
    return np.array([[common.cyc_to_complex(x) for x in row] for row in resp])


def impl_matrix_to_numpy(m):
    """sympy / numpy matrix of the library -> numpy complex array"""
    import numpy as np
    import sympy
    if isinstance(m, sympy.MatrixBase):
        return np.array(m.evalf().tolist(), dtype=complex)
    return np.array(m, dtype=complex)


def close(a, b, tol=1e-9):
    import numpy as np
    a, b = np.asarray(a), np.asarray(b)
    return a.shape == b.shape and bool(np.all(np.abs(a - b) <= tol))


def embed_reference(mat, qs, n):
    """independent reference embedding by bit manipulation (qubit 0 = most significant bit):
    numpy matrix of the gate `mat` acting on qubits `qs` of an n-qubit register"""
    import numpy as np
    k = len(qs)
    dim = 2 ** n
    out = np.zeros((dim, dim), dtype=complex)
    rest = [q for q in range(n) if q not in qs]
    for col in range(dim):
        cb = [(col >> (n - 1 - q)) & 1 for q in range(n)]
        sub_c = 0
        for q in qs:
            sub_c = 2 * sub_c + cb[q]
        for sub_r in range(2 ** k):
            rb = list(cb)
            for pos, q in enumerate(qs):
                rb[q] = (sub_r >> (k - 1 - pos)) & 1
            row = 0
            for q in range(n):
                row = 2 * row + rb[q]
            out[row, col] += mat[sub_r, sub_c]
    return out
