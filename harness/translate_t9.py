"""Translator extension T9 (on top of harness/translate.py): the dictionary / text forms of operators and artefacts (property C11).

`T9` subclasses `translate.T`: every pure int / list / str expression form of the base subset is inherited.  Added here:

  records    : a Python dict with FIXED string keys is a Lean structure.  The schema (structure, python key -> field, field type,
               "the key may be absent") is declared per package (`RECORDS` in harness/tables_t9.py; Python is untyped).  Any key that is
               not in the schema is a TranslateError (so writing `"reall"` for `"real"` breaks the tie).
               * a dict that the function BUILDS (`d = {}` / `d = {"k": v}`, then `d["k"] = v`, `d["k"].append(x)`) is held as one Lean
                 variable per key (`d__k`); where the dict is used as a value (`return d`, `xs.append(d)`, …) the structure is assembled
                 from the keys assigned ON THAT PATH: a required key that may be missing is a TranslateError, an optional key is
                 `some v` / `none`.  (Which structure a literal builds is declared per function, in source order: `dicts=[…]`.)
               * a dict that the function READS (parameter, loop variable): `x["k"]` is the field; for a key that may be absent `x["k"]`
                 is only accepted where the surrounding `if` has established its presence (see narrowing), `x.get("k")` is the
                 `Option` field (an absent key and a JSON null both read as `None`).
  narrowing  : `if x.get("k"):`, `if x.get("k") is [not] None:`, `if "k" [not] in x:`, `if e is [not] None:` (e of an `Option` type: an
               attribute, a name), `if [not] m:` for a `re.match` result become a `match` on the Option; in the branch where the value
               is present `x["k"]` / `x.get("k")` / `e` / `m` denote the payload (a truth test of the payload is kept: `x.get("k")` of a
               number is true iff it is non-zero, of an opaque JSON list iff the external `ext_truthy_…` says so).
  numbers    : `Rat` = a Python int / float (exact: FLOAT ROUNDING IS NOT MODELLED), `OQ.Py.Num` = a Python number that may be complex;
               `1j`, `+`, `*` with the usual promotion (int -> float -> complex), `.real`, `.imag`, `isinstance(z, complex)`,
               comparisons with int literals.  A variable may change its type (`c = d["real"]; c += 1j * x`): every path carries its
               own typing (continuations are duplicated, as in the base translator).
  exceptions : a function declared partial returns `Except OQ.Py.Exc τ`; `raise ValueError(…)` is `.error .ValueError` (also inside
               loops); expressions that may raise are hoisted, in Python's evaluation order, into `Except.bind`s: `xs[i]`
               (`OQ.Py.indexExc`), `int(str)` (`OQ.Py.intParse`), calls of externals declared raising, calls of partial translated
               functions, comprehensions whose element may raise (`OQ.Py.mapExc`), loops whose body may raise (`OQ.Py.foldlExc`).
               `try: <assignments> except ValueError: <assignments>` (one handler, no else / finally; the variables assigned in the
               `try` body must be new) is a `match` on the body's result: `.ok` continues with its variables, `.error .ValueError`
               runs the handler, any other exception propagates.
  loops      : nested `for` loops, tuple targets, loop-LOCAL variables (assigned in the body, absent before the loop: not carried and
               not visible after the loop – reading them there is a TranslateError).
  strings    : `s.startswith(p)`, `s.endswith(p)`, `s.replace(<one char>, t)`, `s.strip(chars)`, `s.upper()` (ASCII),
               `re.split(r"\\ *\\*\\ *", s)` and `re.match(r"([XYZI])([0-9]+)$", s, re.I)` for EXACTLY these patterns (prelude functions
               compared with CPython every run; any other pattern is a TranslateError), `m.group(1|2)`, `dict(pairs)`, `t[0]` / `t[1]`
               on a tuple.
  externals  : opaque objects have declared type variables; their attributes (`attr_…`), methods (`meth_…`), constructors / library
               functions (`ext_…`: `np.array`, `np.iscomplexobj`, `PauliSum`, `PauliTerm.from_iterable`, `complex`, `cls`), arithmetic
               on them (`ext_mul_…`, `ext_add_…`; `x += y` on an opaque object is rebinding) and truth values (`ext_truthy_…`) are
               PARAMETERS of the translated definition, in the order the spec lists them, and of every translated caller.
               `cast(T, e)` is `e`.
"""
import ast
import inspect
import textwrap

from . import translate as tr
from .translate import T, TranslateError, INT, BOOL, CHAR, STR, LSTR, is_list, elem, list_of, paren, prod_parts

RAT = "Rat"
NUM = "OQ.Py.Num"
NONE = "NoneType"
EXC = "OQ.Py.Exc"
GROUPS = "(List Char) × (List Char)"
MATCH = f"Option ({GROUPS})"
EXC_NAMES = ("ValueError", "TypeError", "KeyError", "IndexError", "NotImplementedError")
PAT_SPLIT = r"\ *\*\ *"
PAT_MATCH = r"([XYZI])([0-9]+)$"


def unparen(t):
    t = t.strip()
    while t.startswith("(") and t.endswith(")") and tr._balanced(t[1:-1]):
        t = t[1:-1].strip()
    return t


def is_opt(t):
    return t.startswith("Option ")


def opt_elem(t):
    return unparen(t[len("Option "):])


def opt_of(t):
    return f"Option {paren(t)}"


def prod_of(ts):
    return " × ".join(paren(t) for t in ts)


def ok(v):
    return f"(Except.ok {v})"


class _Effect(Exception):
    """raised while a loop body is translated as a pure fold and turns out to be able to raise"""


class Ctx:
    def __init__(self, partial, records, attrs, methods, ext, binops, truthy, known, node_types, typevars):
        self.partial, self.records, self.attrs, self.methods, self.ext = partial, records, attrs, methods, ext
        self.binops, self.truthy, self.known, self.node_types, self.typevars = binops, truthy, known, node_types, typevars
        self.pending = []
        self.pure_depth = 0 if partial else 1
        self.counter = 0

    def fresh(self, stem="v"):
        self.counter += 1
        return f"{stem}{self.counter}"


def _dotted(n):
    parts = []
    while isinstance(n, ast.Attribute):
        parts.append(n.attr)
        n = n.value
    if isinstance(n, ast.Name):
        parts.append(n.id)
        return ".".join(reversed(parts))
    return None


def _const_str(n):
    return n.value if isinstance(n, ast.Constant) and isinstance(n.value, str) else None


def _is_none(n):
    return isinstance(n, ast.Constant) and n.value is None


class T9(T):
    def __init__(self, env, ret, ctx, narrow=None):
        super().__init__(env, ret, ctx.partial)
        self.ctx = ctx
        self.narrow = dict(narrow or {})

    def sub(self, extra, narrow=None):
        return T9({**self.env, **extra}, self.ret, self.ctx, {**self.narrow, **(narrow or {})})

    # ------------------------------------------------------------------ types
    def is_rec(self, t):
        return t in self.ctx.records

    def is_exploded(self, name):
        return self.env.get(name, "").startswith("REC ")

    def field(self, struct, key):
        for k, f, t, optional in self.ctx.records[struct]:
            if k == key:
                return f, t, optional
        raise TranslateError(f"key {key!r} is not in the schema of {struct}")

    def materialize(self, name):
        struct = self.env[name][4:]
        parts = []
        for k, f, t, optional in self.ctx.records[struct]:
            var = f"{name}__{k}"
            if var in self.env:
                parts.append(f"{f} := " + (f"some {var}" if optional else var))
            elif optional:
                parts.append(f"{f} := none")
            else:
                raise TranslateError(f"the key {k!r} of {name} may be missing here")
        return "({ " + ", ".join(parts) + f" }} : {struct})", struct

    def coerce(self, v, t, expect):
        if expect is None or t == expect:
            return v
        if t == NONE and is_opt(expect):
            return "none"
        if t == INT and expect == RAT:
            return f"(({v} : Int) : Rat)"
        if t in (INT, RAT) and expect == NUM:
            return f"(OQ.Py.Num.real {self.coerce(v, t, RAT)})"
        if is_opt(expect) and not is_opt(t):
            return f"(some {self.coerce(v, t, opt_elem(expect))})"
        raise TranslateError(f"a value of type {t} where {expect} is expected")

    def truth(self, v, t):
        if t == BOOL:
            return v
        if t in (RAT, INT):
            return f"({v} != 0)"
        if t == NUM:
            return f"(OQ.Py.Num.truthy {v})"
        if is_list(t):
            return f"(!{v}.isEmpty)"
        if t in self.ctx.truthy:
            return f"({self.ctx.truthy[t]} {v})"
        if t == GROUPS:
            return "true"  # a match object is always true
        raise TranslateError(f"truth value of a {t}")

    def bind(self, m, t, stem="v"):
        """an expression that may raise: hoisted (evaluation order = order of the calls of this function)"""
        var = self.ctx.fresh(stem)
        self.ctx.pending.append((var, t, m))
        return var, t

    def pure_e(self, n, expect=None, what="this position"):
        k = len(self.ctx.pending)
        r = self.e(n, expect)
        if len(self.ctx.pending) != k:
            raise TranslateError(f"an expression that may raise in {what}")
        return r

    # ------------------------------------------------------------------ expressions
    def e(self, n, expect=None):
        key = ast.dump(n)
        if key in self.narrow:
            return self.narrow[key]
        if isinstance(n, ast.Constant):
            if n.value is None:
                return "()", NONE
            if isinstance(n.value, complex):
                if n.value != 1j:
                    raise TranslateError(f"complex literal {n.value!r}")
                return "OQ.Py.Num.j", NUM
            if isinstance(n.value, float):
                raise TranslateError(f"float literal {n.value!r}")
        if isinstance(n, ast.Name) and self.is_exploded(n.id):
            return self.materialize(n.id)
        if isinstance(n, ast.Dict):
            if expect is None or not self.is_rec(expect):
                raise TranslateError("a dict literal whose structure is not known here")
            given = {}
            for k, v in zip(n.keys, n.values):
                ks = _const_str(k)
                if ks is None:
                    raise TranslateError("dict key that is not a string constant")
                f, t, optional = self.field(expect, ks)
                val, tv = self.e(v, t)
                given[ks] = self.coerce(val, tv, t)
            parts = []
            for k, f, t, optional in self.ctx.records[expect]:
                if k in given:
                    parts.append(f"{f} := " + (f"some {given[k]}" if optional else given[k]))
                elif optional:
                    parts.append(f"{f} := none")
                else:
                    raise TranslateError(f"dict literal without the key {k!r} of {expect}")
            return "({ " + ", ".join(parts) + f" }} : {expect})", expect
        if isinstance(n, (ast.List, ast.Tuple)) and not n.elts:
            t = self.ctx.node_types.get(id(n)) or expect
            if t is None or not is_list(t):
                raise TranslateError("empty literal (type unknown)")
            return f"([] : {t})", t
        if isinstance(n, ast.Tuple) and expect is not None and len(prod_parts(expect)) == len(n.elts) > 1:
            parts = []
            for x, te in zip(n.elts, prod_parts(expect)):
                v, t = self.e(x, te)
                parts.append(self.coerce(v, t, te))
            return "(" + ", ".join(parts) + ")", expect
        if isinstance(n, ast.Tuple) and len(n.elts) > 1:
            parts = [self.e(x) for x in n.elts]
            return "(" + ", ".join(p for p, _ in parts) + ")", prod_of([t for _, t in parts])
        if isinstance(n, ast.UnaryOp) and isinstance(n.op, ast.Not):
            v, t = self.e(n.operand)
            return f"(!{self.truth(v, t)})", BOOL
        if isinstance(n, ast.BoolOp):
            first = self.e(n.values[0])
            parts = [first] + [self.pure_e(v, what="a later operand of and / or") for v in n.values[1:]]
            j = " && " if isinstance(n.op, ast.And) else " || "
            return "(" + j.join(self.truth(p, t) for p, t in parts) + ")", BOOL
        if isinstance(n, ast.Attribute):
            return self.attribute(n)
        if isinstance(n, (ast.ListComp, ast.GeneratorExp)):
            return self._gen9(n, expect)
        return super().e(n)

    def attribute(self, n):
        d = _dotted(n)
        if d in self.ctx.ext and self.ctx.ext[d][1] is None:
            return self.ctx.ext[d][0], self.ctx.ext[d][2]
        v, t = self.e(n.value)
        if t == NUM and n.attr in ("real", "imag"):
            return f"(OQ.Py.Num.{'re' if n.attr == 'real' else 'im'} {v})", RAT
        if t in self.ctx.attrs and n.attr in self.ctx.attrs[t]:
            return f"(attr_{n.attr} {v})", self.ctx.attrs[t][n.attr]
        raise TranslateError(f"attribute {n.attr} of a {t}")

    def num_binop(self, op, a, ta, b, tb):
        tower = [INT, RAT, NUM]
        top = tower[max(tower.index(ta), tower.index(tb))]
        if top == INT:
            return None
        a, b = self.coerce(a, ta, top), self.coerce(b, tb, top)
        if top == RAT:
            sym = {ast.Add: "+", ast.Sub: "-", ast.Mult: "*"}.get(type(op))
            if sym:
                return f"({a} {sym} {b})", RAT
        else:
            f = {ast.Add: "add", ast.Mult: "mul"}.get(type(op))
            if f:
                return f"(OQ.Py.Num.{f} {a} {b})", NUM
        raise TranslateError(f"{type(op).__name__} on {ta}, {tb}")

    def binop(self, n):
        a, ta = self.e(n.left)
        b, tb = self.e(n.right)
        return self.binop_on(n.op, a, ta, b, tb) or super().binop(n)

    def binop_on(self, op, a, ta, b, tb):
        if ta in (INT, RAT, NUM) and tb in (INT, RAT, NUM):
            return self.num_binop(op, a, ta, b, tb)
        k = (type(op).__name__, ta, tb)
        if k in self.ctx.binops:
            p, rt = self.ctx.binops[k]
            return f"({p} {a} {b})", rt
        return None

    def compare(self, n):
        if len(n.ops) == 1:
            op, l, r = n.ops[0], n.left, n.comparators[0]
            if isinstance(op, (ast.Is, ast.IsNot)) and _is_none(r):
                v, t = self.e(l)
                if not is_opt(t):
                    raise TranslateError(f"`is None` on a {t}")
                return f"({v}.{'isNone' if isinstance(op, ast.Is) else 'isSome'})", BOOL
            ks = _const_str(l)
            if isinstance(op, (ast.In, ast.NotIn)) and ks is not None:
                v, t = self.e(r)
                if self.is_rec(t):
                    f, ft, optional = self.field(t, ks)
                    c = f"({v}.{f}.isSome)" if optional else "true"
                    return (f"(!{c})" if isinstance(op, ast.NotIn) else c), BOOL
            a, ta = self.e(l)
            b, tb = self.e(r)
            if {ta, tb} <= {INT, RAT} and RAT in (ta, tb):
                a, b = self.coerce(a, ta, RAT), self.coerce(b, tb, RAT)
                sym = {ast.Eq: "==", ast.NotEq: "!=", ast.Lt: "<", ast.LtE: "≤", ast.Gt: ">", ast.GtE: "≥"}[type(op)]
                return (f"({a} {sym} {b})" if sym in ("==", "!=") else f"(decide ({a} {sym} {b}))"), BOOL
        return super().compare(n)

    def subscript(self, n):
        s = n.slice
        ks = _const_str(s)
        if ks is not None:
            if isinstance(n.value, ast.Name) and self.is_exploded(n.value.id):
                var = f"{n.value.id}__{ks}"
                self.field(self.env[n.value.id][4:], ks)
                if var not in self.env:
                    raise TranslateError(f"the key {ks!r} of {n.value.id} may be missing here (KeyError)")
                return var, self.env[var]
            v, t = self.e(n.value)
            if self.is_rec(t):
                f, ft, optional = self.field(t, ks)
                if optional:
                    raise TranslateError(f"`[{ks!r}]` on a key that may be absent, outside a test of its presence (KeyError)")
                return f"{v}.{f}", ft
            raise TranslateError(f"string subscript on a {t}")
        if not isinstance(s, ast.Slice):
            v, t = self.e(n.value)
            parts = prod_parts(t)
            if not is_list(t) and len(parts) > 1 and isinstance(s, ast.Constant) and isinstance(s.value, int) \
                    and 0 <= s.value < len(parts):
                k = s.value
                return "(" + v + ".2" * k + ("" if k == len(parts) - 1 else ".1") + ")", parts[k]
            if is_list(t):
                i, ti = self.e(s)
                if ti != INT:
                    raise TranslateError("index type")
                return self.bind(f"(OQ.Py.indexExc {v} {i})", elem(t), "item")
        return super().subscript(n)

    def call(self, n):
        f = n.func
        d = _dotted(f)
        # ---- library functions / constructors declared as externals
        if d in self.ctx.ext and self.ctx.ext[d][1] is not None:
            p, ats, rt, raises = self.ctx.ext[d][:4]
            defaults = self.ctx.ext[d][4] if len(self.ctx.ext[d]) > 4 else {}
            if n.keywords or len(n.args) > len(ats):
                raise TranslateError(f"call of {d}")
            args = []
            for k, te in enumerate(ats):
                if k < len(n.args):
                    v, t = self.e(n.args[k], te)
                    args.append(self.coerce(v, t, te))
                elif k in defaults:
                    args.append(defaults[k])
                else:
                    raise TranslateError(f"call of {d}: argument {k} missing")
            text = "(" + " ".join([p] + args) + ")" if args else p
            return self.bind(text, rt, "r") if raises else (text, rt)
        if d in self.ctx.known:
            k = self.ctx.known[d]
            if n.keywords or len(n.args) != len(k["args"]):
                raise TranslateError(f"call of {d}")
            args = []
            for a, te in zip(n.args, k["args"]):
                v, t = self.e(a, te)
                args.append(self.coerce(v, t, te))
            text = "(" + " ".join([k["lean"]] + list(k["params"]) + args) + ")"
            return self.bind(text, k["ret"], "r") if k["partial"] else (text, k["ret"])
        if d == "cast" and len(n.args) == 2:
            return self.e(n.args[1])
        if d == "isinstance" and len(n.args) == 2 and isinstance(n.args[1], ast.Name) and n.args[1].id == "complex":
            v, t = self.e(n.args[0])
            if t == NUM:
                return f"(OQ.Py.Num.isComplex {v})", BOOL
            if t in (INT, RAT):
                return "false", BOOL
            raise TranslateError(f"isinstance(_, complex) on a {t}")
        if d == "re.split" and len(n.args) == 2 and not n.keywords:
            if _const_str(n.args[0]) != PAT_SPLIT:
                raise TranslateError("re.split with another pattern")
            v, t = self.e(n.args[1])
            if t == STR:
                return f"(OQ.Py.reSplitStar {v})", LSTR
        if d == "re.match" and len(n.args) == 3 and not n.keywords:
            if _const_str(n.args[0]) != PAT_MATCH or _dotted(n.args[2]) != "re.I":
                raise TranslateError("re.match with another pattern / other flags")
            v, t = self.e(n.args[1])
            if t == STR:
                return f"(OQ.Py.reMatchPauliIndex {v})", MATCH
        if d == "dict" and len(n.args) == 1 and not n.keywords:
            v, t = self.e(n.args[0])
            if is_list(t) and len(prod_parts(elem(t))) == 2:
                return f"(OQ.Py.dictOfPairs {v})", t
        if d == "int" and len(n.args) == 1 and not n.keywords:
            v, t = self.e(n.args[0])
            if t == STR:
                return self.bind(f"(OQ.Py.intParse {v})", INT, "i")
        if isinstance(f, ast.Attribute) and not n.keywords:
            meth = f.attr
            if meth == "get" and len(n.args) == 1 and _const_str(n.args[0]) is not None:
                v, t = self.e(f.value)
                if self.is_rec(t):
                    fld, ft, optional = self.field(t, _const_str(n.args[0]))
                    if optional and is_opt(ft):   # absent, or present with the value None: both read as None
                        return f"({v}.{fld}.join)", ft
                    if optional:
                        return f"{v}.{fld}", opt_of(ft)
                    return f"(some {v}.{fld})", opt_of(ft)
            if meth == "group" and len(n.args) == 1 and isinstance(n.args[0], ast.Constant) and n.args[0].value in (1, 2):
                v, t = self.e(f.value)
                if t == GROUPS:
                    return f"({v}.{n.args[0].value})", STR
                raise TranslateError(f"`.group` on a {t} (a match that may be None?)")
            if meth in ("startswith", "endswith", "strip", "upper", "replace"):
                v, t = self.e(f.value)
                if t == STR:
                    args = [self.e(a) for a in n.args]
                    if meth in ("startswith", "endswith", "strip") and [ta for _, ta in args] == [STR]:
                        fn = {"startswith": "startswith", "endswith": "endswith", "strip": "stripChars"}[meth]
                        return f"(OQ.Py.{fn} {v} {args[0][0]})", (STR if meth == "strip" else BOOL)
                    if meth == "upper" and not args:
                        return f"(OQ.Py.upperAscii {v})", STR
                    if meth == "replace" and len(args) == 2 and args[1][1] == STR:
                        old = _const_str(n.args[0])
                        if old is not None and len(old) == 1:
                            return f"(OQ.Py.replaceChar {v} {tr.char_lit(old)} {args[1][0]})", STR
                    raise TranslateError(f"str.{meth} with these arguments")
            recv_t = None
            try:
                k0 = len(self.ctx.pending)
                v, recv_t = self.e(f.value)
            except TranslateError:
                del self.ctx.pending[k0:]
            if recv_t in self.ctx.methods and meth in self.ctx.methods[recv_t]:
                ats, rt = self.ctx.methods[recv_t][meth]
                if len(ats) != len(n.args):
                    raise TranslateError(f"method {meth}: arity")
                args = []
                for a, te in zip(n.args, ats):
                    av, at = self.e(a, te)
                    args.append(self.coerce(av, at, te))
                return "(" + " ".join([f"meth_{meth}", v] + args) + ")", rt
        return super().call(n)

    def _gen9(self, n, expect=None):
        if len(n.generators) != 1:
            return super().comprehension(n)
        g = n.generators[0]
        it, tit = self.e(g.iter)
        if not is_list(tit):
            raise TranslateError("comprehension over non-list")
        te = elem(tit)
        var = g.target.id if isinstance(g.target, ast.Name) else self.ctx.fresh("p")
        env, lets, _ = self._bind_target(g.target, te, var)
        sub = self.sub(env)
        src = it
        for cond in g.ifs:
            c, tc = sub.pure_e(cond, what="a comprehension filter")
            src = f"({src}.filter (fun ({var} : {te}) => {lets}{sub.truth(c, tc)}))"
        want = elem(expect) if expect is not None and is_list(expect) else None
        saved = self.ctx.pending
        self.ctx.pending = []
        try:
            elt, tel = sub.e(n.elt, want)
            binds = self.ctx.pending
        finally:
            self.ctx.pending = saved
        if want is not None:
            elt, tel = sub.coerce(elt, tel, want), want
        if not binds:
            return f"({src}.map (fun ({var} : {te}) => {lets}{elt}))", list_of(tel)
        body = ok(elt)
        for bv, bt, m in reversed(binds):
            body = f"Except.bind {m} (fun ({bv} : {bt}) => {body})"
        return self.bind(f"(OQ.Py.mapExc (fun ({var} : {te}) => {lets}{body}) {src})", list_of(tel), "xs")

    # ------------------------------------------------------------------ statements
    def wrap(self, v):
        return ok(v) if self.partial else v

    def stmt_e(self, node, expect=None):
        """an expression at statement level: (text, type, function adding the hoisted binds around the continuation)"""
        saved = self.ctx.pending
        self.ctx.pending = []
        try:
            v, t = self.e(node, expect)
            binds = self.ctx.pending
        finally:
            self.ctx.pending = saved
        if binds and self.ctx.pure_depth:
            raise _Effect()

        def wrap(body):
            for bv, bt, m in reversed(binds):
                body = f"Except.bind {m} (fun ({bv} : {bt}) =>\n  {body})"
            return body
        return v, t, wrap

    def forget(self, name):
        """an assignment to `name` invalidates what was established about expressions mentioning it"""
        tag = f"id='{name}'"
        return {k: v for k, v in self.narrow.items() if tag not in k}

    def assign(self, name, v, t, rest, tail):
        nxt = T9({**self.env, name: t}, self.ret, self.ctx, self.forget(name))
        for k in [k for k in nxt.env if k.startswith(name + "__")]:
            del nxt.env[k]
        return f"let {name} : {t} := {v}\n  {nxt.block(rest, tail)}"

    def opt_test(self, test):
        """(scrutinee text, payload type, nodes narrowed to the payload, the `then` branch is the present one?, keep a truth test?)"""
        positive = True
        while isinstance(test, ast.UnaryOp) and isinstance(test.op, ast.Not):
            positive, test = not positive, test.operand

        def get_call(x):
            if isinstance(x, ast.Call) and isinstance(x.func, ast.Attribute) and x.func.attr == "get" and len(x.args) == 1 \
                    and _const_str(x.args[0]) is not None and not x.keywords:
                return [x, ast.Subscript(value=x.func.value, slice=x.args[0], ctx=ast.Load())]
            return [x]

        truthy = True
        nodes = None
        if isinstance(test, ast.Compare) and len(test.ops) == 1:
            op, l, r = test.ops[0], test.left, test.comparators[0]
            if isinstance(op, (ast.Is, ast.IsNot)) and _is_none(r):
                if isinstance(op, ast.Is):
                    positive = not positive
                test, truthy, nodes = l, False, get_call(l)
            elif isinstance(op, (ast.In, ast.NotIn)) and _const_str(l) is not None:
                if isinstance(op, ast.NotIn):
                    positive = not positive
                try:
                    v, t = self.pure_e(r)
                except TranslateError:
                    return None
                if not self.is_rec(t):
                    return None
                fld, ft, optional = self.field(t, _const_str(l))
                if not optional:
                    return None
                return f"{v}.{fld}", ft, [ast.Subscript(value=r, slice=l, ctx=ast.Load())], positive, False
            else:
                return None
        else:
            nodes = get_call(test)
        if ast.dump(test) in self.narrow:
            return None
        try:
            k0 = len(self.ctx.pending)
            v, t = self.e(test)
        except TranslateError:
            del self.ctx.pending[k0:]
            return None
        if not is_opt(t) or len(self.ctx.pending) != k0:
            del self.ctx.pending[k0:]
            return None
        return v, opt_elem(t), nodes, positive, truthy

    def block(self, stmts, tail=None):
        if not stmts:
            if tail is None:
                raise TranslateError("block falls off without return")
            return tail(self)
        s, rest = stmts[0], stmts[1:]
        if isinstance(s, ast.Expr) and isinstance(s.value, ast.Constant) and isinstance(s.value.value, str):
            return self.block(rest, tail)
        if isinstance(s, ast.Return):
            if tail is not None:
                raise TranslateError("return inside a loop body")
            if s.value is None:
                raise TranslateError("bare return")
            v, t, wrap = self.stmt_e(s.value, self.ret)
            return wrap(self.wrap(self.coerce(v, t, self.ret)))
        if isinstance(s, ast.Raise):
            cls = s.exc.func.id if isinstance(s.exc, ast.Call) and isinstance(s.exc.func, ast.Name) else \
                (s.exc.id if isinstance(s.exc, ast.Name) else None)
            if cls not in EXC_NAMES:
                raise TranslateError(f"raise of {cls}")
            if self.ctx.pure_depth:
                raise _Effect()
            return f"(Except.error {EXC}.{cls})"
        if isinstance(s, ast.AnnAssign) and s.value is not None and isinstance(s.target, ast.Name):
            s = ast.Assign(targets=[s.target], value=s.value)
        if isinstance(s, ast.Assign) and len(s.targets) == 1 and isinstance(s.targets[0], ast.Name):
            name = s.targets[0].id
            if isinstance(s.value, ast.Dict):
                struct = self.ctx.node_types.get(id(s.value))
                if struct is None or not self.is_rec(struct):
                    raise TranslateError(f"dict literal assigned to {name}: no declared structure")
                nxt = T9({k: v for k, v in self.env.items() if not k.startswith(name + "__")}, self.ret, self.ctx,
                         self.forget(name))
                nxt.env[name] = "REC " + struct
                lets, wraps = "", []
                for k, vnode in zip(s.value.keys, s.value.values):
                    ks = _const_str(k)
                    if ks is None:
                        raise TranslateError("dict key that is not a string constant")
                    f, ft, optional = self.field(struct, ks)
                    v, t, wrap = self.stmt_e(vnode, ft)
                    wraps.append(wrap)
                    lets += f"let {name}__{ks} : {ft} := {self.coerce(v, t, ft)}\n  "
                    nxt.env[f"{name}__{ks}"] = ft
                text = lets + nxt.block(rest, tail)
                for w in reversed(wraps):
                    text = w(text)
                return text
            expect = self.ctx.node_types.get(id(s.value))
            v, t, wrap = self.stmt_e(s.value, expect)
            if t.startswith("REC "):
                raise TranslateError("aliasing a dict under construction")
            if t == NONE:
                return wrap(self._assign_none(name, rest, tail))
            return wrap(self.assign(name, v, t, rest, tail))
        if isinstance(s, ast.AugAssign) and isinstance(s.target, ast.Name):
            name = s.target.id
            if name not in self.env or self.is_exploded(name):
                raise TranslateError(f"augmented assignment to {name}")
            saved = self.ctx.pending
            self.ctx.pending = []
            try:
                b, tb = self.e(s.value)
                binds = self.ctx.pending
            finally:
                self.ctx.pending = saved
            if binds and self.ctx.pure_depth:
                raise _Effect()
            r = self.binop_on(s.op, name, self.env[name], b, tb)
            if r is None:
                r = T.binop(self, ast.BinOp(left=ast.Name(id=name, ctx=ast.Load()), op=s.op, right=s.value))
            text = self.assign(name, r[0], r[1], rest, tail)
            for bv, bt, m in reversed(binds):
                text = f"Except.bind {m} (fun ({bv} : {bt}) =>\n  {text})"
            return text
        if isinstance(s, ast.Assign) and len(s.targets) == 1 and isinstance(s.targets[0], ast.Subscript):
            tgt = s.targets[0]
            ks = _const_str(tgt.slice)
            if ks is not None and isinstance(tgt.value, ast.Name) and self.is_exploded(tgt.value.id):
                d = tgt.value.id
                f, ft, optional = self.field(self.env[d][4:], ks)
                v, t, wrap = self.stmt_e(s.value, ft)
                return wrap(self.assign(f"{d}__{ks}", self.coerce(v, t, ft), ft, rest, tail))
        if isinstance(s, ast.Expr) and isinstance(s.value, ast.Call) and isinstance(s.value.func, ast.Attribute) \
                and s.value.func.attr == "append" and len(s.value.args) == 1 and not s.value.keywords:
            recv = s.value.func.value
            var = None
            if isinstance(recv, ast.Name) and not self.is_exploded(recv.id):
                var = recv.id
            elif isinstance(recv, ast.Subscript) and isinstance(recv.value, ast.Name) and self.is_exploded(recv.value.id) \
                    and _const_str(recv.slice) is not None:
                var = f"{recv.value.id}__{_const_str(recv.slice)}"
            if var is not None:
                if var not in self.env or not is_list(self.env[var]):
                    raise TranslateError(f"append to {var}")
                te = elem(self.env[var])
                v, t, wrap = self.stmt_e(s.value.args[0], te)
                return wrap(self.assign(var, f"{var} ++ [{self.coerce(v, t, te)}]", self.env[var], rest, tail))
        if isinstance(s, ast.If):
            after = lambda body: body + ([] if tr._ends(body) else rest)  # noqa: E731
            ot = self.opt_test(s.test)
            if ot is not None:
                scrut, tp, nodes, positive, truthy = ot
                nv = self.ctx.fresh("nv")
                present = self.sub({nv: tp}, {ast.dump(x): (nv, tp) for x in nodes})
                pos_body, neg_body = (s.body, s.orelse or []) if positive else (s.orelse or [], s.body)
                pos = present.block(after(pos_body), tail)
                neg = self.block(after(neg_body), tail)
                if truthy and self.truth(nv, tp) != "true":
                    pos = f"(if {self.truth(nv, tp)} then\n  {pos}\n  else\n  {present.block(after(neg_body), tail)})"
                return f"(match {scrut} with\n  | some {nv} =>\n  {pos}\n  | none =>\n  {neg})"
            c, tc, wrap = self.stmt_e(s.test)
            a = self.block(after(s.body), tail)
            b = self.block(after(s.orelse or []), tail)
            return wrap(f"(if {self.truth(c, tc)} then\n  {a}\n  else\n  {b})")
        if isinstance(s, ast.For) and not s.orelse:
            return self._for9(s, rest, tail)
        if isinstance(s, ast.Try):
            return self._try(s, rest, tail)
        raise TranslateError(f"statement {type(s).__name__}")

    def _assign_none(self, name, rest, tail):
        nxt = T9({**self.env, name: NONE}, self.ret, self.ctx, self.forget(name))
        return nxt.block(rest, tail)

    def _try(self, s, rest, tail):
        if len(s.handlers) != 1 or s.orelse or s.finalbody or not isinstance(s.handlers[0].type, ast.Name) \
                or s.handlers[0].type.id not in EXC_NAMES or s.handlers[0].name is not None:
            raise TranslateError("try statement of another shape")
        if self.ctx.pure_depth:
            raise _Effect()
        caught = s.handlers[0].type.id
        assigned = _assigned9(s.body)
        for x in assigned:
            if x in self.env:
                raise TranslateError(f"the try body reassigns {x}")
        got = {}

        def body_tail(t):
            tys = [t.env[x] for x in assigned]
            if any(ty.startswith("REC ") or ty == NONE for ty in tys) or got.setdefault("tys", tys) != tys:
                raise TranslateError("types of the variables assigned in a try body")
            return ok("(" + ", ".join(assigned) + ")")
        body = self.block(s.body, body_tail)
        tys = got["tys"]
        st_ty = prod_of(tys)
        st = self.ctx.fresh("st")
        lets = "".join(f"let {x} : {t} := {_proj(st, k, len(assigned))}\n    " for k, (x, t) in enumerate(zip(assigned, tys)))
        cont_ok = T9({**self.env, **dict(zip(assigned, tys))}, self.ret, self.ctx, self.narrow).block(rest, tail)
        handler = self.block(s.handlers[0].body + rest, tail)
        ex = self.ctx.fresh("ex")
        return (f"(match ({body} : Except {EXC} ({st_ty})) with\n  | .ok {st} =>\n    {lets}{cont_ok}\n"
                f"  | .error {EXC}.{caught} =>\n  {handler}\n  | .error {ex} => .error {ex})")

    def _for9(self, s, rest, tail):
        it, tit, wrap_it = self.stmt_e(s.iter)
        if not is_list(tit):
            raise TranslateError("for over non-list")
        te = elem(tit)
        var = s.target.id if isinstance(s.target, ast.Name) else self.ctx.fresh("p")
        env, lets, _ = self._bind_target(s.target, te, var)
        names = _assigned9(s.body)
        if any(x in env for x in names):
            raise TranslateError("loop variable reassigned")
        state = [x for x in names if x in self.env]
        for x in names:
            if "__" in x and x not in self.env and x.split("__")[0] in self.env:
                raise TranslateError(f"a loop adds the key {x.split('__', 1)[1]!r} to a dict made before the loop")
        if not state:
            raise TranslateError("loop without effect")
        tys = [self.env[x] for x in state]
        if any(t.startswith("REC ") or t == NONE for t in tys):
            raise TranslateError("a loop rebinding a dict under construction")
        st_ty = prod_of(tys)

        def tup(t):
            for x, ty in zip(state, tys):
                if t.env.get(x) != ty:
                    raise TranslateError(f"loop changes the type of {x}")
            return "(" + ", ".join(state) + ")"
        binds = "".join(f"let {x} : {t} := {_proj('st', k, len(state))}\n    " for k, (x, t) in enumerate(zip(state, tys)))
        if lets:
            binds += lets.replace("; ", "\n    ")
        body_env = self.sub(env)
        self.ctx.pure_depth += 1
        try:
            body = body_env.block(s.body, tail=tup)
            pure = True
        except _Effect:
            pure = False
        finally:
            self.ctx.pure_depth -= 1
        after = "".join(f"let {x} : {t} := {_proj('st', k, len(state))}\n  " for k, (x, t) in enumerate(zip(state, tys)))
        init = "(" + ", ".join(state) + ")"
        cont = self.sub({}).block(rest, tail)
        if pure:
            return wrap_it(f"let st : {st_ty} := {it}.foldl (fun (st : {st_ty}) ({var} : {te}) =>\n    {binds}{body}) {init}\n  "
                           f"{after}{cont}")
        if self.ctx.pure_depth:
            raise _Effect()
        body = body_env.block(s.body, tail=lambda t: ok(tup(t)))
        return wrap_it(f"Except.bind (OQ.Py.foldlExc (fun (st : {st_ty}) ({var} : {te}) =>\n    {binds}{body}) {init} {it}) "
                       f"(fun (st : {st_ty}) =>\n  {after}{cont})")


def _proj(st, k, n):
    if n == 1:
        return st
    return st + ".2" * k + ("" if k == n - 1 else ".1")


def _assigned9(stmts):
    """the Lean variables (re)bound by these statements, in order of first assignment: names, and `d__k` for `d["k"] = …` /
    `d["k"].append(…)`; a dict literal assigned to `d` binds `d` (its keys are found by the statements that follow)"""
    out = []

    def add(x):
        if x not in out:
            out.append(x)

    def tname(t):
        if isinstance(t, ast.Name):
            return t.id
        if isinstance(t, ast.Subscript) and isinstance(t.value, ast.Name) and _const_str(t.slice) is not None:
            return f"{t.value.id}__{_const_str(t.slice)}"
        if isinstance(t, ast.Tuple):
            for x in t.elts:
                tname_add(x)
            return None
        raise TranslateError("assignment target")

    def tname_add(t):
        x = tname(t)
        if x is not None:
            add(x)

    class V(ast.NodeVisitor):
        def generic_visit(self, n):
            if isinstance(n, (ast.Return, ast.Break, ast.Continue, ast.While)):
                raise TranslateError(f"{type(n).__name__} inside a loop / try body")
            if isinstance(n, ast.Assign):
                for t in n.targets:
                    tname_add(t)
                    if isinstance(n.value, ast.Dict) and isinstance(t, ast.Name):
                        for k in n.value.keys:
                            if _const_str(k) is not None:
                                add(f"{t.id}__{_const_str(k)}")
            elif isinstance(n, (ast.AugAssign, ast.AnnAssign)):
                tname_add(n.target)
            elif isinstance(n, ast.For):
                tname_add(n.target)
            elif isinstance(n, ast.Call) and isinstance(n.func, ast.Attribute) and n.func.attr == "append":
                tname_add(n.func.value)
            super().generic_visit(n)

    for s in stmts:
        V().visit(s)
    return out


def _node_types(node, empties, dicts):
    """types of the empty list literals / the dict literals ASSIGNED TO NAMES, by source order (so that renaming a variable or moving
    a statement inside its block keeps the translation)"""
    out, e, d = {}, list(empties), list(dicts)
    nodes = sorted((n for n in ast.walk(node) if isinstance(n, (ast.Assign, ast.AnnAssign)) and getattr(n, "value", None) is not None),
                   key=lambda n: (n.lineno, n.col_offset))
    for n in nodes:
        tgt = n.targets[0] if isinstance(n, ast.Assign) else n.target
        v = n.value
        if isinstance(v, ast.Dict) and isinstance(tgt, ast.Name):
            if not d:
                raise TranslateError("more dict literals than declared structures")
            out[id(v)] = d.pop(0)
        elif isinstance(v, (ast.List, ast.Tuple)) and not v.elts and isinstance(tgt, ast.Name):
            if not e:
                raise TranslateError("more empty list literals than declared types")
            out[id(v)] = e.pop(0)
    if d or e:
        raise TranslateError("fewer dict / empty list literals than declared")
    return out


LEAN_KEYWORDS = {"match", "end", "from", "at", "fun", "have", "show", "by", "do", "then", "open", "in", "with", "let", "def", "instance",
                 "structure", "where", "if", "else", "for", "return", "private", "import", "namespace", "section", "variable", "theorem",
                 "example", "axiom", "class", "deriving", "extends", "mutual", "macro", "syntax", "notation", "Type", "Prop", "Sort",
                 "st", "some", "none"}


class _Rename(ast.NodeTransformer):
    """Python names that are Lean keywords (or names this translator uses itself) get a trailing underscore"""

    def visit_Name(self, n):
        if n.id in LEAN_KEYWORDS:
            n.id += "_"
        return n

    def visit_arg(self, n):
        if n.arg in LEAN_KEYWORDS:
            n.arg += "_"
        return n


def params_of(opt):
    """the external parameters of a definition, in the order of its spec: [(lean name, lean type)]"""
    out = []
    for t, d in (opt.get("attrs") or {}).items():
        for a, ta in d.items():
            out.append((f"attr_{a}", f"{paren(t)} → {paren(ta)}"))
    for t, d in (opt.get("methods") or {}).items():
        for m, (ats, rt) in d.items():
            out.append((f"meth_{m}", " → ".join(paren(x) for x in [t] + list(ats) + [rt])))
    for dotted, x in (opt.get("ext") or {}).items():
        p, ats, rt, raises = x[:4]
        rt2 = f"Except {EXC} {paren(rt)}" if raises else paren(rt)
        out.append((p, " → ".join([paren(a) for a in (ats or [])] + [rt2])))
    for (op, ta, tb), (p, rt) in (opt.get("binops") or {}).items():
        out.append((p, f"{paren(ta)} → {paren(tb)} → {paren(rt)}"))
    for t, p in (opt.get("truthy") or {}).items():
        out.append((p, f"{paren(t)} → Bool"))
    seen, uniq = set(), []
    for p, t in out:
        if p in seen:
            if (p, t) not in uniq:
                raise TranslateError(f"external parameter {p} declared with two types")
            continue
        seen.add(p)
        uniq.append((p, t))
    return uniq


def translate_function9(fn, lean_name, arg_types, ret, partial=False, records=None, typevars=(), attrs=None, methods=None, ext=None,
                        binops=None, truthy=None, known=None, empties=(), dicts=(), doc=""):
    """`arg_types` lists the types of the parameters in source order (including `self`; `cls` is an external constructor `ext["cls"]`
    and has no type)"""
    raw = getattr(fn, "__func__", fn)
    raw = getattr(raw, "__wrapped__", raw)
    src = textwrap.dedent(inspect.getsource(raw))
    node = ast.parse(src).body[0]
    if not isinstance(node, ast.FunctionDef):
        raise TranslateError("not a function")
    node = _Rename().visit(node)
    if node.args.vararg or node.args.kwarg or node.args.kwonlyargs:
        raise TranslateError("signature")
    names = [a.arg for a in node.args.args if a.arg != "cls"]
    if len(names) != len(arg_types):
        raise TranslateError("arity")
    opt = dict(attrs=attrs, methods=methods, ext=ext, binops=binops, truthy=truthy)
    params = params_of(opt)
    pnames = [p for p, _ in params]
    known = dict(known or {})
    for k in known.values():
        for p in k["params"]:
            if p not in pnames:
                raise TranslateError(f"the callee {k['lean']} needs the external {p}")
    ctx = Ctx(partial, records or {}, attrs or {}, methods or {}, ext or {}, binops or {}, truthy or {}, known,
              _node_types(node, empties, dicts), list(typevars))
    T.KNOWN = {}
    try:
        body = T9(dict(zip(names, arg_types)), ret, ctx).block(node.body)
    except _Effect:
        raise TranslateError("the function may raise but is declared total")
    binders = ("{" + " ".join(typevars) + " : Type} " if typevars else "") \
        + "".join(f"({p} : {t}) " for p, t in params) + " ".join(f"({n} : {t})" for n, t in zip(names, arg_types))
    where = f"{inspect.getsourcefile(raw).split('/src/')[-1]}:{raw.__qualname__}"
    rt = f"Except {EXC} ({ret})" if partial else ret
    return f"/-- translated from `{where}`{doc} -/\ndef {lean_name} {binders} : {rt} :=\n  {body}\n"
