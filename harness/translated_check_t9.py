"""T9 self-check: every definition of lean/OQ/Generated/TranslatedC11.lean that translates now is run in the compiled driver (tag
"TRT9", generated glue TranslatedDriverT9.lean) on seeded inputs and compared with the Python function it came from:

  * array / artefact functions: the REAL functions and classes on real one-dimensional numpy arrays of dyadic numbers (float
    arithmetic is exact on them); the Lean side runs the translated definitions on a stand-in for such arrays (`SArr` of the glue);
  * `convert_op_to_dict`: the REAL function on real `PauliSum` / `PauliTerm` objects; the Lean side gets, per term, the items of
    `term.operations` in the iteration order CPython produced, and the coefficient;
  * `convert_dict_to_op`: the code of the REAL function with the globals `PauliSum` / `PauliTerm` bound to stand-ins (a log of the
    terms added; `from_iterable` raising ValueError on a repeated or negative index), the same stand-ins in the glue;
  * the parser chain: the REAL functions, `complex` bound to a recorder around the built-in; the recorded table text -> value /
    ValueError is what the Lean side uses as `ext_complex` (a text CPython was not asked about answers TypeError there).

A disagreement is a fault of the translator / prelude (INTERNAL-ERROR, exit 2, in harness/run.py), never a verdict about /repo."""
import random
import types
from fractions import Fraction

from . import common

PROP = "C11"
PER_FUNCTION = 40
DROPPED = []   # cases of the last run that were not compared (see run)


def R(x):
    f = Fraction(x)
    return str(f.numerator) if f.denominator == 1 else f"{f.numerator}/{f.denominator}"


def enc_num(z):
    if isinstance(z, complex):
        return {"re": R(z.real), "im": R(z.imag)}
    return {"re": R(z)}


def canon(v):
    """numbers -> exact rational strings, tuples -> lists"""
    import numpy as np
    if isinstance(v, bool) or v is None or isinstance(v, str):
        return v
    if isinstance(v, (int, float, np.integer, np.floating)):
        return R(v)
    if isinstance(v, (list, tuple)):
        return [canon(x) for x in v]
    if isinstance(v, dict):
        return {k: canon(x) for k, x in v.items()}
    raise TypeError(f"cannot canonicalise {type(v).__name__}")


def _rebind(fn, **globs):
    fn = getattr(fn, "__func__", fn)
    return types.FunctionType(fn.__code__, {**fn.__globals__, **globs}, fn.__name__, fn.__defaults__, fn.__closure__)


def cases(rng):
    """{unit: [(driver payload, thunk computing the expected answer with the real code)]}"""
    import numpy as np
    from orquestra.quantum import utils
    from orquestra.quantum.operators import _io, _pauli_operators as po
    from orquestra.quantum.measurements import expectation_values as evm, parities as parm

    def dy():
        return Fraction(rng.randrange(-24, 25), 2 ** rng.randrange(0, 4))

    def arr(n=None, force=None):
        n = rng.randrange(0, 4) if n is None else n
        kind = force or rng.choice(["real", "real", "complex", "int", "czero"])
        re = [dy() for _ in range(n)]
        if kind == "int":
            return np.array([int(x) for x in re], dtype=int), {"re": [R(int(x)) for x in re], "im": None}
        if kind == "real":
            return np.array([float(x) for x in re], dtype=float), {"re": [R(x) for x in re], "im": None}
        im = [Fraction(0) if kind == "czero" else dy() for _ in range(n)]
        return np.array([complex(float(a), float(b)) for a, b in zip(re, im)], dtype=complex), {"re": [R(x) for x in re],
                                                                                                "im": [R(x) for x in im]}

    def enc_arr(a):
        a = np.asarray(a)
        if np.iscomplexobj(a):
            return {"re": [R(x) for x in a.real.tolist()], "im": [R(x) for x in a.imag.tolist()]}
        return {"re": [R(x) for x in a.tolist()], "im": None}

    def frames():
        c = rng.random()
        if c < 0.3:
            return None, None
        fs = [arr(rng.randrange(1, 4)) for _ in range(rng.choice([0, 1, 2, 3]))]
        return [a for a, _ in fs], [e for _, e in fs]

    def arrd(n=None):
        """a `{real, imag}` dictionary as JSON would deliver it: imag absent / null / [] / a list of the same length"""
        n = rng.randrange(1, 4) if n is None else n
        d = {"real": [float(dy()) for _ in range(n)]}
        c = rng.random()
        if c < 0.35:
            d["imag"] = [float(dy()) for _ in range(n)]
        elif c < 0.45:
            d["imag"] = [0.0] * n
        elif c < 0.55:
            d["imag"] = []
        elif c < 0.65:
            d["imag"] = None
        return d

    def dframes():
        c = rng.random()
        if c < 0.25:
            return "absent"
        if c < 0.4:
            return None
        return [arrd() for _ in range(rng.choice([0, 1, 2, 3]))]

    def with_frames(d, **fr):
        for k, v in fr.items():
            if v != "absent":
                d[k] = v
        return d

    out = {k: [] for k in ("convert_array_to_dict", "convert_dict_to_array", "value_estimate_from_dict", "expectation_values_to_dict",
                           "expectation_values_from_dict", "parities_to_dict", "parities_from_dict", "convert_op_to_dict",
                           "convert_dict_to_op", "is_in_brackets", "parse_complex", "parse_operator", "parse_operators_and_coefficient")}
    for _ in range(PER_FUNCTION):
        a, ea = arr()
        out["convert_array_to_dict"].append(({"a": ea}, lambda a=a: canon(utils.convert_array_to_dict(a))))
        d = arrd(rng.randrange(0, 4))
        out["convert_dict_to_array"].append(({"d": canon(d)}, lambda d=d: enc_arr(utils.convert_dict_to_array(d))))
        d = {"value": float(dy())}
        c = rng.random()
        if c < 0.4:
            d["precision"] = float(dy())
        elif c < 0.7:
            d["precision"] = None

        def ve(d=d):
            r = utils.ValueEstimate.from_dict(d)
            return {"value": R(float(r)), "precision": None if r.precision is None else R(r.precision)}
        out["value_estimate_from_dict"].append(({"d": canon(d)}, ve))
        # ---- ExpectationValues / Parities
        v, ev_ = arr(rng.randrange(1, 4))
        (c1, e1), (c2, e2) = frames(), frames()

        def ev_to(v=v, c1=c1, c2=c2):
            return canon(evm.ExpectationValues(v, c1, c2).to_dict())
        out["expectation_values_to_dict"].append(({"values": ev_, "correlations": e1, "estimator_covariances": e2}, ev_to))

        def par_to(v=v, c1=c1):
            return canon(parm.Parities(v, c1).to_dict())
        out["parities_to_dict"].append(({"values": ev_, "correlations": e1}, par_to))
        d = with_frames({"expectation_values": arrd()}, correlations=dframes(), estimator_covariances=dframes())

        def ev_from(d=d):
            r = evm.ExpectationValues.from_dict(d)
            f = lambda x: None if x is None else [enc_arr(y) for y in x]  # noqa: E731
            return {"values": enc_arr(r.values), "correlations": f(r.correlations), "estimator_covariances": f(r.estimator_covariances)}
        out["expectation_values_from_dict"].append(({"d": canon(d)}, ev_from))
        d = with_frames({"values": arrd()}, correlations=dframes())

        def par_from(d=d):
            r = parm.Parities.from_dict(d)
            return {"values": enc_arr(r.values), "correlations": None if r.correlations is None else [enc_arr(y) for y in r.correlations]}
        out["parities_from_dict"].append(({"d": canon(d)}, par_from))

    # ---- operators
    def coef():
        c = rng.random()
        if c < 0.25:
            return int(rng.randrange(-4, 5))
        if c < 0.6:
            return float(dy())
        return complex(float(dy()), float(rng.choice([Fraction(0), dy(), dy()])))

    def term():
        qs = rng.sample(range(0, 14), rng.randrange(0, 5))
        return po.PauliTerm({q: rng.choice("XYZ") for q in qs}, coef())

    for k in range(PER_FUNCTION):
        op = term() if k % 5 == 0 else po.PauliSum([term() for _ in range(rng.randrange(0, 5))])
        payload = {"terms": [{"ops": [[str(i), p] for i, p in t.operations], "c": enc_num(t.coefficient)} for t in op.terms]}
        out["convert_op_to_dict"].append((payload, lambda op=op: canon(_io.convert_op_to_dict(op))))

    class SSum:
        def __init__(self, log=()):
            self.log = list(log)

        def __add__(self, t):
            return SSum(self.log + [t])

    class STerm:
        @staticmethod
        def from_iterable(terms, coefficient=1.0):
            idx = [i for _, i in terms]
            if any(i < 0 for i in idx) or len(set(idx)) != len(idx):
                raise ValueError("stand-in")
            return (list(terms), coefficient)
    d2o = _rebind(_io.convert_dict_to_op, PauliSum=SSum, PauliTerm=STerm)

    def term_dict():
        n = rng.randrange(0, 4)
        qs = [rng.choice([0, 1, 2, 3, 12, 12, -1] if rng.random() < 0.15 else [0, 1, 2, 3, 5, 8, 12, 13]) for _ in range(n)]
        if rng.random() < 0.85:
            qs = list(dict.fromkeys(qs))
        cd = {"real": rng.choice([float(dy()), int(rng.randrange(-3, 4))])}
        c = rng.random()
        if c < 0.4:
            cd["imag"] = float(dy())
        elif c < 0.5:
            cd["imag"] = 0.0
        elif c < 0.58:
            cd["imag"] = None
        return {"pauli_ops": [{"qubit": q, "op": rng.choice("XYZI")} for q in qs], "coefficient": cd}

    for _ in range(PER_FUNCTION):
        d = {"terms": [term_dict() for _ in range(rng.randrange(0, 4))]}

        def run_d2o(d=d):
            try:
                r = d2o(d)
            except ValueError:
                return {"exc": "ValueError"}
            return {"ok": [{"ops": [[p, str(i)] for p, i in ops], "c": enc_num(c)} for ops, c in r.log]}
        out["convert_dict_to_op"].append(({"d": canon(d)}, run_d2o))

    # ---- parser chain
    alpha = "XYZIxyzi0123456789 **()+-.jab\n"

    def word(hi=9):
        return "".join(rng.choice(alpha) for _ in range(rng.randrange(0, hi)))
    coefs = ["2.0", "-0.5", "(1+2j)", "1+2j", "2j", "(2j)", "0", "0j", "1e-3", "(0.5-0.25j)", "0.5-0.25j", "( 1 + 2j )", "1 + 2j", "3", "abc",
             "", "1e+16", "(1e+16+1j)", "j", "-j", "(1-j)", "(1+0j)", "(0+2j)", "1+0j", "0+2j", " 2.5 ", "(", ")", "()", "(3)", "1_0"]
    ops = ["Z0", "X12", "y3", "I", "I0", "i", "Z", "Z-1", "A1", "X1 ", "z007", "X0\n", "Z1a", "", "XX", "1", "Y5"]
    brack = ["", "(", ")", "()", "(1+2j)", "(1", "1)", " (1)", "(1) ", ")("] + [word(6) for _ in range(PER_FUNCTION - 10)]
    for s in brack:
        out["is_in_brackets"].append(({"s": s}, lambda s=s: po._is_in_brackets(s)))

    def recorder():
        table = {}

        def rec(s):
            try:
                v = complex(s)
            except ValueError:
                table[s] = None
                raise
            table[s] = v
            return v
        return table, rec

    def exc_or(thunk, conv):
        try:
            return {"ok": conv(thunk())}
        except (ValueError, IndexError, TypeError, KeyError) as e:
            return {"exc": type(e).__name__}

    def with_table(fn_of_rec, s, conv):
        """(payload, thunk): the table is filled by running the real code once now (it is deterministic)"""
        table, rec = recorder()
        f = fn_of_rec(rec)
        want = exc_or(lambda: f(s), conv)
        payload = {"s": s, "complex": [[k, None if v is None else enc_num(v)] for k, v in table.items()]}
        return payload, (lambda want=want: want)

    for s in coefs + [word(7) for _ in range(max(0, PER_FUNCTION - len(coefs)))]:
        out["parse_complex"].append(with_table(lambda rec: _rebind(po._parse_complex, complex=rec), s, enc_num))
    for s in ops + [rng.choice("XYZIxyzia") + "".join(rng.choice("0123456789\n a") for _ in range(rng.randrange(0, 4)))
                    for _ in range(PER_FUNCTION)]:
        out["parse_operator"].append(({"s": s}, lambda s=s: exc_or(lambda: po._parse_operator(s), lambda p: [str(p[0]), p[1]])))

    def poc(rec):
        pc = _rebind(po._parse_complex, complex=rec)
        return _rebind(po._parse_operators_and_coefficient, complex=rec, _parse_complex=pc)

    terms = ["2.0*I", "(1+2j)*Z0*X12", "Z0 * X1", "X0*X0", "1+2j*Z0", "", "abc*Z0", "Z0*2.0", " 0.5 * Y3 ", "I", "I*I", "2*I0", "*", "Z0*",
             "*Z0", "  ", "3", "(1+2j)", "Z0*z0", "x1*Y1", "-1*Z3*Z4 ", "1e-3*X0 * I * Y2", "Z0**X1", "2j*Z1", "(2j)*Z1"]
    for _ in range(2 * PER_FUNCTION):
        parts = ([rng.choice(coefs)] if rng.random() < 0.6 else []) + [rng.choice(ops) for _ in range(rng.randrange(0, 4))]
        terms.append(rng.choice(["", " ", "  "]) + rng.choice(["*", " * ", "* ", " *", "  *  "]).join(parts) + rng.choice(["", " "]))
    for s in terms:
        out["parse_operators_and_coefficient"].append(with_table(
            poc, s, lambda r: {"coef": None if r[0] is None else enc_num(r[0]), "ops": [[str(k), v] for k, v in r[1].items()]}))
    return out


def run(seed=0, only=None):
    """(number of comparisons, disagreements, units that are not translatable now, listing for the evidence)"""
    if only not in (None, PROP):
        return 0, [], [], []
    from . import tables_t9
    from orquestra.quantum.operators import _pauli_operators as po
    _text, good, bad_units = tables_t9.generate()
    untranslatable = [f"{k}: {v}" for k, v in bad_units.items()]
    listed = [f"C11 {n} -> Translated.{n}" for n in good]
    drv = common.Driver("TRT9")
    if not drv.available():
        return 0, ["model driver not built"], untranslatable, listed
    bad = []
    if "convert_dict_to_op" in good and hasattr(getattr(po, "PauliSum", None), "__iadd__"):
        bad.append("PauliSum now defines __iadd__: `full_operator += term` is no longer rebinding (translate_t9 renders it as such)")
    rng = random.Random(f"t9:{seed}")
    cs = cases(rng)
    del DROPPED[:]
    reqs, wants = [], []
    for unit in good:
        for payload, thunk in cs.get(unit, []):
            try:
                want = thunk()
            except Exception as e:  # noqa: BLE001
                # the real code left the domain on which the stand-ins of the glue are faithful (numpy raised, a value that is not an
                # exact real / complex list came back, …): this never happens on the unchanged /repo; on a changed tree the case is
                # NOT compared (the tie theorems and the property oracle judge the change, not this self-check)
                DROPPED.append(f"{unit}: {type(e).__name__}: {str(e)[:80]}")
                continue
            reqs.append((unit, payload))
            wants.append(want)
    got = drv.run(reqs)
    for (unit, payload), w, g in zip(reqs, wants, got):
        if g != w:
            bad.append(f"{unit} {common.canon(payload)[:300]}: python {common.canon(w)[:300]}, translated {common.canon(g)[:300]}")
    return len(reqs), bad, untranslatable, listed


if __name__ == "__main__":
    common.use_repo()
    n, bad, untr, listed = run()
    print(n, "comparisons;", len(bad), "disagreements;", untr)
    for b in bad[:20]:
        print("  ", b)
