"""T11: generated driver glue for the definitions translated by harness/translate_t11.py (see harness/translated_check_t11.py)."""
from .extract import table


@table("TranslatedDriverT11.lean")
def translated_driver_t11():
    from . import translated_check_t11
    return translated_check_t11.driver_text()
