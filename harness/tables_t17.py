"""T17: generated tables of the gate-MATRIX translator (harness/translate_t17.py): `lean/OQ/Generated/TranslatedGatesMatrix.lean` – the
`matrix` property of the five gate classes as ONE function on the generated inductive `Gate P F E` of the class translator, the sympy
operations as the parameter record `MExt`, and the `GateOperation` dataclass – and the JSON glue `TranslatedDriverT17.lean` (driver tag
"TRT17") through which harness/translated_check_t17.py runs the regenerated definitions on every run.
Tie theorems: lean/OQ/Props/C07_TranslatedMatrix.lean."""
from .extract import table


@table("TranslatedGatesMatrix.lean")
def translated_gates_matrix():
    from . import translate_t17
    return translate_t17.translate().render_matrix()


@table("TranslatedDriverT17.lean")
def translated_driver_t17():
    from . import translated_check_t17
    return translated_check_t17.driver_text()
