"""Work package T14: shot bookkeeping (C13) – `utils.scale_and_discretize` and `Measurements.get_measurements_representing_distribution`,
translated by harness/translate_t14.py (numpy / float / random operations are EXTERNAL PARAMETERS of the definitions).  Every definition is
run through the JSON driver (generated glue OQ/Generated/TranslatedDriverT14.lean, values at `Rat`, externals as recorded tables) and
compared with the Python function by harness/translated_check_t14.py."""
PROPS = ["C13"]

NU = "ν"
LNU = "List ν"
LI = "List Int"
LLI = "List (List Int)"
DK = "OQ.Py.Dict (List Int) ν"       # a `distribution_dict`
DKI = "OQ.Py.Dict (List Int) Int"    # a Counter of outcomes
X_FLOOR = ("np.floor", "ext_np_floor", "ν → ν")
X_ARGSORT = ("np.argsort", "ext_np_argsort", "List ν → List Int")
X_ROUND = ("round", "ext_round", "ν → Int")
X_INT = ("int", "ext_int", "ν → Int")
X_MOD = ("%", "ext_mod", "ν → ν → ν")
X_SAMPLE = ("sample_from_probability_distribution", "ext_sample_from_probability_distribution", f"{DK} → Int → {DKI}")
X_ELIM = ("_check_sample_elimination", "ext_check_sample_elimination", f"{DKI} → {LLI} → {DK} → {DKI}")


def _all():
    from . import translate_t14 as t14
    from . import specs_t4
    from .tables import _resolve
    from orquestra.quantum import utils
    from orquestra.quantum.measurements import measurements as meas
    tf = t14.translate_function
    s4 = specs_t4._all()
    M = _resolve(meas, "Measurements")
    s = {}
    s["scale"] = (_resolve(utils, "scale_and_discretize"), "scale_and_discretize", [LNU, "Int"], LI, True,
                  {"translator": tf, "ext": [X_FLOOR, X_ARGSORT, X_ROUND, X_INT]})
    k_ctor = specs_t4.K(s4["init"], defaults={"normalize": "true"}, obj="MeasurementOutcomeDistribution")
    k_cls = specs_t4.K(s4["minit"], obj="Measurements", defaults={"bitstrings": "none"})
    s["repr"] = (getattr(M, "get_measurements_representing_distribution", None) or _resolve(meas, "get_measurements_representing_distribution"),
                 "get_measurements_representing_distribution", [DK, "Int"], LLI, True,
                 {"translator": tf, "ext": [specs_t4.X_CLOSE, specs_t4.X_FMIN, X_ROUND, X_MOD, X_SAMPLE, X_ELIM],
                  "empties": [LLI], "imports": ["C10"],
                  "objects": {"MeasurementOutcomeDistribution": ["distribution_dict"], "Measurements": ["bitstrings"]},
                  "param_objs": {"measurement_outcome_distribution": "MeasurementOutcomeDistribution"},
                  "known": {"MeasurementOutcomeDistribution": k_ctor, "cls": k_cls}})
    return s


ORDER = ["scale", "repr"]


def SPECS():
    s = _all()
    return {"C13": [s[k] for k in ORDER]}


def GENS():
    return {}
