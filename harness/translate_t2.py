"""Translator extension T2 (on top of harness/translate.py): iterators, generators, loops that may raise, count dictionaries.

Everything of the base subset is inherited (`TI` subclasses `translate.T`, statement by statement); added here:

  effects    : expressions that may RAISE or that CONSUME A SHARED ITERATOR are hoisted out of the statement they occur in, in
               Python's evaluation order (left to right, arguments before the call), into a chain of `Option.bind`s:
                 * `islice(it, k)` as the argument of an eager consumer (`tuple(·)`, `list(·)`, `reduce(f, ·)`, `sum(·, start=[])`,
                   `max(·)`, `min(·)`): `OQ.Py.islice it k` = the items taken + the advanced iterator, `none` (ValueError) for k < 0;
                   the iterator variable is rebound.  `islice` anywhere else is refused.
                 * `functools.reduce(f, xs)` without initial value (`OQ.Py.reduce1`, `none` = TypeError on an empty iterable; `f` must
                   be a translated total function of two arguments), `max(xs)` / `min(xs)` of ONE list of ints (`none` = ValueError
                   on an empty one), calls of translated functions that are themselves partial.
                 * a list comprehension / generator expression whose ELEMENT contains such effects (one generator, pure filters):
                   `OQ.Py.mapOpt`, or `OQ.Py.mapAccumOpt` threading the iterators the element consumes (`[f(islice(it, m)) for m in ms]`).
               Effects inside the branches of a conditional expression, the later operands of and/or, or a lambda are refused.
               A function that contains effects must be declared partial (its result is `Option`, `none` = "Python raises").
  walrus     : `(x := e)` in an `if` / `while` test or an assigned expression becomes `let x := e` before the statement (refused when `x`
               is read elsewhere in the same expression, so the order of evaluation cannot matter).
  x = []     : an empty list literal assigned to the variable the function RETURNS has the declared result type (other empty literals
               need a declared type, as in the base translator).
  iterators  : `it = iter(xs)` (type `OQ.Py.Iter α` = the items not yet consumed).
  generators : a generator FUNCTION (`yield e` statements) is translated as the list of everything it yields (`__yield`), a generator
               EXPRESSION as the list of its elements: LAZINESS IS NOT MODELLED – the translated definition describes the complete run of
               the generator (an exception raised on the first `next()` is a `none` of the whole call).
  while      : `while test: body` → `OQ.Py.whileFuel step fuel state`; the fuel (a bound on the number of test evaluations) is DECLARED per
               function as a Python expression (`fuel=["len(items) + 1"]`, one per loop in source order) and translated at the loop;
               running out of fuel is `none` too, so a tie theorem `… = some …` proves that the bound suffices.  A function with a
               `while` must be declared partial.  Tests may be lists (truthiness = non-empty) or ints (non-zero).
  for        : tuple targets (`for k, v in d.items()`), bodies with effects / `while` (→ `OQ.Py.foldlOpt`), nested loops; a variable that
               is first assigned inside a loop body is local to one round (reading it after the loop is refused).
  dicts      : count dictionaries `OQ.Py.Dict κ Int` / `OQ.Py.Counter κ` (insertion-ordered association lists; the key type `κ` is a
               type parameter with `[BEq κ]` – key equality is a PARAMETER): `Counter(d)`, `dict(c)`, `d.items()`, `c[k] += v`
               (= `dictSet c k (counterGet c k + v)`: a missing key counts 0 and is appended), `c[k] = v`.
  further    : `sum(xss, start=[])` / `sum(xss, [])` of a list of lists, `"{0:b}".format(i)`, calls of translated functions whose
               signature mentions the type variable `α` at another type (`_iterate_in_batches` on circuits and on sample counts).
"""
import ast
import copy
import inspect
import textwrap

from . import translate as tr
from .translate import (T, TranslateError, INT, BOOL, LIST, STR, is_list, elem, list_of, paren)

KEY = "κ"
DICT = "OQ.Py.Dict κ Int"
COUNTER = "OQ.Py.Counter κ"
ITEMS = "List (κ × Int)"
_CONSUMERS = {("tuple", 0), ("list", 0), ("reduce", 1), ("sum", 0), ("max", 0), ("min", 0)}


def ITER(t):
    return f"OQ.Py.Iter {paren(t)}"


def is_iter(t):
    return t.startswith("OQ.Py.Iter ")


def iter_elem(t):
    e = t[len("OQ.Py.Iter "):]
    if e.startswith("(") and e.endswith(")") and tr._balanced(e[1:-1]):
        e = e[1:-1]
    return e


def _name(n, ident=None):
    return isinstance(n, ast.Name) and (ident is None or n.id == ident)


def _callname(n):
    return n.func.id if isinstance(n, ast.Call) and isinstance(n.func, ast.Name) else None


def _load(x):
    return ast.Name(id=x, ctx=ast.Load())


def _unify(pattern, actual, subst):
    """match a declared argument type mentioning the type variable α against an actual type"""
    if pattern == actual:
        return True
    if "α" not in pattern:
        return False
    i = pattern.index("α")
    pre, post = pattern[:i], pattern[i + 1:]
    if not actual.startswith(pre) or (post and not actual.endswith(post)) or len(actual) < len(pre) + len(post):
        return False
    mid = actual[len(pre):len(actual) - len(post)] if post else actual[len(pre):]
    if mid.startswith("(") and mid.endswith(")") and tr._balanced(mid[1:-1]):
        mid = mid[1:-1]
    if "α" in post or not mid:
        return False
    if subst.setdefault("α", mid) != mid:
        return False
    return True


def _subst(t, subst):
    if "α" not in subst or "α" not in t:
        return t
    a = subst["α"]
    out = t.replace("(α)", f"({a})").replace("α", paren(a))
    return out


class TI(T):
    def __init__(self, env, ret, partial=False, attrs=None, local_types=None, ctx=None):
        super().__init__(env, ret, partial, attrs, local_types)
        self.ctx = ctx if ctx is not None else {"n": 0, "fuel": [], "known": {}}

    def sub(self, extra):
        return TI({**self.env, **extra}, self.ret, self.partial, self.attrs, self.local_types, self.ctx)

    def fresh(self):
        self.ctx["n"] += 1
        return f"__t{self.ctx['n']}"

    # ------------------------------------------------------------------ which expressions have effects
    def _known(self, f):
        k = self.ctx["known"].get(f)
        if k is None:
            return None
        return tuple(k) + ((False,) if len(k) == 3 else ())

    def _effect_call(self, n):
        f = _callname(n)
        if f is None:
            return False
        k = self._known(f)
        if k is not None and k[3]:
            return True
        if f == "reduce":
            return True
        if f in ("max", "min") and len(n.args) == 1 and not n.keywords:
            return True
        return False

    def impure(self, n):
        """does the expression contain an effect (something hoisted) or a walrus?"""
        for x in ast.walk(n):
            if isinstance(x, ast.NamedExpr) or _callname(x) == "islice" or self._effect_call(x):
                return True
        return False

    def _has_effect(self, n):
        for x in ast.walk(n):
            if _callname(x) == "islice" or self._effect_call(x):
                return True
        return False

    # ------------------------------------------------------------------ hoisting (A-normal form in evaluation order)
    def hoist(self, n, items):
        if not self.impure(n):
            return n
        if isinstance(n, ast.NamedExpr):
            if not isinstance(n.target, ast.Name):
                raise TranslateError("walrus target")
            v = self.hoist(n.value, items)
            items.append(("let", n.target.id, v))
            return _load(n.target.id)
        if isinstance(n, (ast.ListComp, ast.GeneratorExp)):
            g0 = n.generators[0]
            n2 = copy.copy(n)
            n2.generators = [copy.copy(g) for g in n.generators]
            n2.generators[0].iter = self.hoist(g0.iter, items)
            inner = [n2.elt] + [c for g in n2.generators for c in g.ifs] + [g.iter for g in n2.generators[1:]]
            if any(self.impure(x) for x in inner):
                tmp = self.fresh()
                items.append(("comp", tmp, n2))
                return _load(tmp)
            return n2
        if isinstance(n, ast.Call):
            f = _callname(n)
            if f == "islice":
                raise TranslateError("islice outside an eager consumer (tuple / list / reduce / sum / max / min)")
            if f is None:
                if isinstance(n.func, ast.Attribute):
                    n2 = copy.copy(n)
                    n2.func = copy.copy(n.func)
                    n2.func.value = self.hoist(n.func.value, items)
                    n2.args = [self.hoist(a, items) for a in n.args]
                    if any(self.impure(k.value) for k in n.keywords):
                        raise TranslateError("effect in a keyword argument of a method call")
                    return n2
                raise TranslateError("effect under a call of a non-name")
            args = []
            for idx, a in enumerate(n.args):
                if _callname(a) == "islice":
                    if (f, idx) not in _CONSUMERS:
                        raise TranslateError(f"islice as argument {idx} of {f}")
                    if len(a.args) != 2 or a.keywords or not _name(a.args[0]):
                        raise TranslateError("islice(it, k) with a plain iterator variable only")
                    k = self.hoist(a.args[1], items)
                    tmp = self.fresh()
                    items.append(("islice", tmp, a.args[0].id, k))
                    args.append(_load(tmp))
                else:
                    args.append(self.hoist(a, items))
            n2 = copy.copy(n)
            n2.args = args
            n2.keywords = []
            for kw in n.keywords:
                kw2 = copy.copy(kw)
                kw2.value = self.hoist(kw.value, items)
                n2.keywords.append(kw2)
            if self._effect_call(n2):
                tmp = self.fresh()
                items.append(("call", tmp, n2))
                return _load(tmp)
            return n2
        if isinstance(n, (ast.Tuple, ast.List)):
            n2 = copy.copy(n)
            n2.elts = [self.hoist(x, items) for x in n.elts]
            return n2
        if isinstance(n, ast.BinOp):
            n2 = copy.copy(n)
            n2.left = self.hoist(n.left, items)
            n2.right = self.hoist(n.right, items)
            return n2
        if isinstance(n, ast.Compare):
            n2 = copy.copy(n)
            n2.left = self.hoist(n.left, items)
            n2.comparators = [self.hoist(x, items) for x in n.comparators]
            return n2
        if isinstance(n, ast.UnaryOp):
            n2 = copy.copy(n)
            n2.operand = self.hoist(n.operand, items)
            return n2
        if isinstance(n, ast.Subscript) and not isinstance(n.slice, ast.Slice):
            n2 = copy.copy(n)
            n2.value = self.hoist(n.value, items)
            n2.slice = self.hoist(n.slice, items)
            return n2
        if isinstance(n, ast.BoolOp):
            if any(self.impure(v) for v in n.values[1:]):
                raise TranslateError("effect in a short-circuited operand")
            n2 = copy.copy(n)
            n2.values = [self.hoist(n.values[0], items)] + n.values[1:]
            return n2
        if isinstance(n, ast.IfExp):
            if self.impure(n.body) or self.impure(n.orelse):
                raise TranslateError("effect in a branch of a conditional expression")
            n2 = copy.copy(n)
            n2.test = self.hoist(n.test, items)
            return n2
        raise TranslateError(f"effect inside {type(n).__name__}")

    def hoist_checked(self, n, items):
        """hoist + the side condition that makes moving a walrus in front of the statement sound"""
        targets = [x.target.id for x in ast.walk(n) if isinstance(x, ast.NamedExpr) and isinstance(x.target, ast.Name)]
        for t in targets:
            uses = [x for x in ast.walk(n) if _name(x, t) and isinstance(x.ctx, ast.Load)]
            if uses or targets.count(t) > 1:
                raise TranslateError(f"walrus target {t} is also read in the same expression")
        return self.hoist(n, items)

    # ------------------------------------------------------------------ rendering of hoisted items
    def emit(self, items, cont):
        """items in evaluation order, then `cont(translator)` (a text of an Option type when any item is an effect)"""
        if not items:
            return cont(self)
        kind = items[0][0]
        if kind == "let":
            _, name, node = items[0]
            v, t = self.e(node)
            if name in self.env and self.env[name] != t:
                raise TranslateError(f"walrus changes the type of {name}")
            return f"let {name} : {t} := {v}\n  " + self.sub({name: t}).emit(items[1:], cont)
        if not self.partial:
            raise TranslateError("an expression that may raise in a function not declared partial")
        if kind == "islice":
            _, tmp, itname, knode = items[0]
            tit = self.env.get(itname, "")
            if not is_iter(tit):
                raise TranslateError(f"islice of {itname}, which is not an iterator variable")
            k, tk = self.e(knode)
            if tk != INT:
                raise TranslateError("islice count")
            tl = list_of(iter_elem(tit))
            rest = self.sub({tmp: tl}).emit(items[1:], cont)
            return (f"(OQ.Py.islice {itname} {k}).bind (fun __r =>\n  let {tmp} : {tl} := __r.1\n  "
                    f"let {itname} : {tit} := __r.2\n  {rest})")
        if kind == "call":
            _, tmp, node = items[0]
            v, t = self.effect_call(node)
            rest = self.sub({tmp: t}).emit(items[1:], cont)
            return f"({v}).bind (fun ({tmp} : {t}) =>\n  {rest})"
        if kind == "comp":
            _, tmp, node = items[0]
            v, t, iters = self.effect_comp(node)
            rest = self.sub({tmp: t}).emit(items[1:], cont)
            if not iters:
                return f"({v}).bind (fun ({tmp} : {t}) =>\n  {rest})"
            back = "".join(f"let {x} : {self.env[x]} := {self._proj('__r.2', k, len(iters))}\n  "
                           for k, x in enumerate(iters))
            return f"({v}).bind (fun __r =>\n  let {tmp} : {t} := __r.1\n  {back}{rest})"
        raise TranslateError(kind)

    @staticmethod
    def _proj(base, k, n):
        if n == 1:
            return base
        return base + ".2" * k + ("" if k == n - 1 else ".1")

    def effect_call(self, n):
        """the Option-valued Lean text of a hoisted call (its arguments are pure by now) and the type of its value"""
        f = _callname(n)
        k = self._known(f)
        if k is not None:
            return self._known_call(n, k)
        if f == "reduce":
            if len(n.args) != 2 or n.keywords:
                raise TranslateError("reduce with an initial value / keywords")
            if not _name(n.args[0]):
                raise TranslateError("reduce of a non-name")
            kf = self._known(n.args[0].id)
            if kf is None or kf[3]:
                raise TranslateError("reduce needs a translated total function")
            lean, ats, rt, _ = kf
            xs, txs = self.e(n.args[1])
            if len(ats) != 2 or ats[0] != rt or ats[1] != rt or txs != list_of(rt):
                raise TranslateError(f"reduce typing: {ats} -> {rt} over {txs}")
            return f"OQ.Py.reduce1 {lean} {xs}", rt
        if f in ("max", "min"):
            xs, txs = self.e(n.args[0])
            if txs != LIST:
                raise TranslateError(f"{f} of {txs}")
            return f"OQ.Py.{f}List {xs}", INT
        raise TranslateError(f"effect call {f}")

    def _known_call(self, n, k):
        lean, ats, rt, partial = k
        if n.keywords:
            raise TranslateError("keyword arguments")
        args = [self.e(a) for a in n.args]
        if len(args) != len(ats):
            raise TranslateError("arity of a translated function")
        subst = {}
        for (_, t), p in zip(args, ats):
            if not _unify(p, t, subst):
                raise TranslateError(f"call of {lean} with {[t for _, t in args]}, declared {list(ats)}")
        return f"{lean} " + " ".join(a for a, _ in args), _subst(rt, subst)

    def effect_comp(self, n):
        if len(n.generators) != 1:
            raise TranslateError("effects in a comprehension with several generators")
        g = n.generators[0]
        if any(self.impure(c) for c in g.ifs):
            raise TranslateError("effect in a comprehension filter")
        it, tit = self.e(g.iter)
        if not is_list(tit):
            raise TranslateError("comprehension over non-list")
        te = elem(tit)
        var = g.target.id if isinstance(g.target, ast.Name) else "p0"
        if var == "_":
            var = "_u0"
        env, lets, _ = self._bind_target(g.target, te, var)
        if isinstance(g.target, ast.Name) and g.target.id == "_":
            env = {}
        inner = self.sub(env)
        src = it
        for cond in g.ifs:
            c, tc = inner.e(cond)
            if tc != BOOL:
                raise TranslateError("comprehension filter")
            src = f"({src}.filter (fun ({var} : {te}) => {lets}{c}))"
        items = []
        elt = inner.hoist_checked(n.elt, items)
        iters = []
        for x in ast.walk(n.elt):
            if _callname(x) == "islice" and x.args and _name(x.args[0]) and x.args[0].id not in iters:
                iters.append(x.args[0].id)
        for x in iters:
            if x in env or not is_iter(self.env.get(x, "")):
                raise TranslateError(f"islice of {x}, which is not an iterator variable of the enclosing scope")
        got = {}

        def cont(t):
            v, tv = t.e(elt)
            got["t"] = tv
            if iters:
                return f"some ({v}, ({', '.join(iters)}))"
            return f"some {v}"
        body = inner.emit(items, cont)
        lets_nl = lets.replace("; ", "\n  ")
        if not iters:
            return f"OQ.Py.mapOpt (fun ({var} : {te}) =>\n  {lets_nl}{body}) {src}", list_of(got["t"]), []
        st_ty = " × ".join(f"({self.env[x]})" for x in iters)
        binds = "".join(f"let {x} : {self.env[x]} := {self._proj('st', k, len(iters))}\n  " for k, x in enumerate(iters))
        return (f"OQ.Py.mapAccumOpt (fun (st : {st_ty}) ({var} : {te}) =>\n  {binds}{lets_nl}{body}) "
                f"({', '.join(iters)}) {src}"), list_of(got["t"]), iters

    # ------------------------------------------------------------------ pure expressions added to the base subset
    def e(self, n):
        if isinstance(n, ast.NamedExpr) or _callname(n) == "islice":
            raise TranslateError("walrus / islice in a position where it cannot be hoisted")
        return super().e(n)

    def call(self, n):
        f = _callname(n)
        if f is not None:
            k = self._known(f)
            if k is not None:
                if k[3]:
                    raise TranslateError(f"call of the partial function {f} in a position where it cannot be hoisted")
                v, t = self._known_call(n, k)
                return f"({v})", t
            if f in ("reduce",) or (f in ("max", "min") and len(n.args) == 1 and not n.keywords):
                raise TranslateError(f"{f} in a position where it cannot be hoisted")
            if f == "sum" and ((len(n.args) == 1 and len(n.keywords) == 1 and n.keywords[0].arg == "start")
                               or (len(n.args) == 2 and not n.keywords)):
                start = n.keywords[0].value if n.keywords else n.args[1]
                if isinstance(start, (ast.List, ast.Tuple)) and not start.elts:
                    xs, txs = self.e(n.args[0])
                    if is_list(txs) and is_list(elem(txs)):
                        return f"(OQ.Py.sumLists {xs})", elem(txs)
                raise TranslateError("sum with a start value other than an empty list")
            if f == "Counter" and len(n.args) == 1 and not n.keywords:
                d, td = self.e(n.args[0])
                if td == DICT:
                    return f"(OQ.Py.counterOfDict {d})", COUNTER
                raise TranslateError(f"Counter({td})")
            if f == "dict" and len(n.args) == 1 and not n.keywords:
                d, td = self.e(n.args[0])
                if td in (DICT, COUNTER):
                    return f"(OQ.Py.dictOfCounter {d})", DICT
                raise TranslateError(f"dict({td})")
        if isinstance(n.func, ast.Attribute) and not n.keywords:
            recv, meth = n.func.value, n.func.attr
            if meth == "items" and not n.args:
                d, td = self.e(recv)
                if td in (DICT, COUNTER):
                    return f"(OQ.Py.dictItems {d})", ITEMS
                raise TranslateError(f"items() of {td}")
            if meth == "format" and isinstance(recv, ast.Constant) and recv.value == "{0:b}" and len(n.args) == 1:
                v, tv = self.e(n.args[0])
                if tv == INT:
                    return f"(OQ.Py.formatB {v})", STR
                raise TranslateError("format of a non-int")
        return super().call(n)

    def truthy(self, n):
        v, t = self.e(n)
        if t == BOOL:
            return v
        if is_list(t):
            return f"(!({v}).isEmpty)"
        if t == INT:
            return f"({v} != 0)"
        raise TranslateError(f"truth value of {t}")

    # ------------------------------------------------------------------ statements
    def block(self, stmts, tail=None):
        if not stmts:
            return super().block(stmts, tail)
        s, rest = stmts[0], stmts[1:]
        # yield e  ==  __yield.append(e)   (the generator is translated as the list of what it yields)
        if isinstance(s, ast.Expr) and isinstance(s.value, ast.Yield):
            if "__yield" not in self.env or s.value.value is None:
                raise TranslateError("yield outside a function declared as a generator")
            app = ast.Expr(value=ast.Call(func=ast.Attribute(value=_load("__yield"), attr="append", ctx=ast.Load()),
                                          args=[s.value.value], keywords=[]))
            return self.block([app] + rest, tail)
        # x = []  where x is what the function returns: its type is the declared result type (no per-name declaration needed,
        # so renaming the variable does not leave the subset)
        if isinstance(s, ast.Assign) and len(s.targets) == 1 and _name(s.targets[0]) \
                and isinstance(s.value, (ast.List, ast.Tuple)) and not s.value.elts \
                and s.targets[0].id not in self.local_types and s.targets[0].id in self.ctx.get("returned", ()):
            self.local_types[s.targets[0].id] = self.ret
        # it = iter(xs)
        if isinstance(s, ast.Assign) and len(s.targets) == 1 and _name(s.targets[0]) and _callname(s.value) == "iter":
            if len(s.value.args) != 1 or s.value.keywords:
                raise TranslateError("iter with a sentinel")
            items = []
            arg = self.hoist_checked(s.value.args[0], items)

            def cont(t):
                xs, txs = t.e(arg)
                if not is_list(txs):
                    raise TranslateError("iter of a non-list")
                name, ti = s.targets[0].id, ITER(elem(txs))
                return f"let {name} : {ti} := OQ.Py.iter {xs}\n  {t.sub({name: ti}).block(rest, tail)}"
            return self.emit(items, cont)
        if isinstance(s, ast.While):
            return self._while(s, rest, tail)
        if isinstance(s, ast.For) and not s.orelse:
            items = []
            it = self.hoist_checked(s.iter, items)
            if items:
                s2 = copy.copy(s)
                s2.iter = it
                return self.emit(items, lambda t: t.block([s2] + rest, tail))
            plain = (isinstance(s.target, ast.Name) and not any(self.impure(x) for x in s.body)
                     and not any(isinstance(x, (ast.While, ast.For, ast.Yield)) for b in s.body for x in ast.walk(b))
                     and all(x in self.env for x in _assigned2(s.body)))
            is_enum = _callname(s.iter) == "enumerate"
            if not plain and not is_enum:
                return self._for2(s, rest, tail)
        # c[k] = v / c[k] += v on a count dictionary
        if isinstance(s, (ast.Assign, ast.AugAssign)):
            tgt = s.targets[0] if isinstance(s, ast.Assign) else s.target
            if (isinstance(tgt, ast.Subscript) and _name(tgt.value) and self.env.get(tgt.value.id) in (DICT, COUNTER)
                    and (isinstance(s, ast.AugAssign) or len(s.targets) == 1)):
                name = tgt.value.id
                td = self.env[name]
                items = []
                key = self.hoist_checked(tgt.slice, items)
                val = self.hoist_checked(s.value, items)

                def cont(t):
                    k, tk = t.e(key)
                    v, tv = t.e(val)
                    if tk != KEY or tv != INT:
                        raise TranslateError(f"dict item assignment with key {tk}, value {tv}")
                    if isinstance(s, ast.AugAssign):
                        if td != COUNTER or not isinstance(s.op, ast.Add):
                            raise TranslateError("augmented item assignment on a plain dict (KeyError not modelled) / not +=")
                        v = f"(OQ.Py.counterGet {name} {k} + {v})"
                    return f"let {name} : {td} := OQ.Py.dictSet {name} {k} {v}\n  {t.block(rest, tail)}"
                return self.emit(items, cont)
        # everything else: hoist the effects of the statement's own expressions, then the base translator
        items = []
        s2 = self._hoist_stmt(s, items)
        if items:
            return self.emit(items, lambda t: t.block([s2] + rest, tail))
        return super().block(stmts, tail)

    def _hoist_stmt(self, s, items):
        if isinstance(s, ast.Return) and s.value is not None and self.impure(s.value):
            s2 = copy.copy(s)
            s2.value = self.hoist_checked(s.value, items)
            return s2
        if isinstance(s, (ast.Assign, ast.AugAssign)) and self.impure(s.value):
            tgt = s.targets[0] if isinstance(s, ast.Assign) else s.target
            if not _name(tgt):
                raise TranslateError("effect assigned to a non-name")
            s2 = copy.copy(s)
            s2.value = self.hoist_checked(s.value, items)
            return s2
        if isinstance(s, ast.Expr) and isinstance(s.value, ast.Call) and isinstance(s.value.func, ast.Attribute) \
                and s.value.func.attr == "append" and any(self.impure(a) for a in s.value.args):
            s2 = copy.copy(s)
            s2.value = copy.copy(s.value)
            s2.value.args = [self.hoist_checked(a, items) for a in s.value.args]
            return s2
        if isinstance(s, ast.If) and self.impure(s.test):
            s2 = copy.copy(s)
            s2.test = self.hoist_checked(s.test, items)
            return s2
        if isinstance(s, (ast.Raise, ast.Expr)) or tr._is_sys_exit(s):
            return s
        for x in ast.iter_child_nodes(s):
            if isinstance(x, ast.expr) and self.impure(x):
                raise TranslateError(f"effect in a {type(s).__name__} statement")
        return s

    def _state(self, names):
        state = [x for x in names if x in self.env]
        tys = [self.env[x] for x in state]
        st_ty = " × ".join(f"({t})" for t in tys)

        def tup(env_t):
            for x, t in zip(state, tys):
                if env_t.env.get(x) != t:
                    raise TranslateError(f"loop changes the type of {x}")
            return "(" + ", ".join(state) + ")"
        binds = "".join(f"let {x} : {t} := {self._proj('st', k, len(state))}\n    " for k, (x, t) in enumerate(zip(state, tys)))
        return state, st_ty, tup, binds

    def _while(self, s, rest, tail):
        if not self.partial:
            raise TranslateError("while loop in a function not declared partial (running out of the declared fuel is `none`)")
        if s.orelse:
            raise TranslateError("while … else")
        if not self.ctx["fuel"]:
            raise TranslateError("while loop without a declared fuel expression")
        f, tf = self.e(ast.parse(self.ctx["fuel"].pop(0), mode="eval").body)
        if tf != INT:
            raise TranslateError("fuel expression")
        state, st_ty, tup, binds = self._state(_assigned2([ast.Expr(value=s.test)] + s.body))
        if not state:
            raise TranslateError("loop without effect")
        items = []
        test = self.hoist_checked(s.test, items)

        def cont(t):
            body = t.block(s.body, tail=lambda e: f"some (true, {tup(e)})")
            return f"if {t.truthy(test)} then\n    {body}\n    else\n    some (false, {tup(t)})"
        step = self.emit(items, cont)
        after = binds.replace("\n    ", "\n  ")
        return (f"(OQ.Py.whileFuel (fun (st : {st_ty}) =>\n    {binds}{step}) (Int.toNat {f}) ({', '.join(state)})).bind "
                f"(fun (st : {st_ty}) =>\n  {after}{self.block(rest, tail)})")

    def _for2(self, s, rest, tail):
        it, tit = self.e(s.iter)
        if not is_list(tit):
            raise TranslateError("for over non-list")
        te = elem(tit)
        var = s.target.id if isinstance(s.target, ast.Name) else "p0"
        env_t, lets, _ = self._bind_target(s.target, te, var)
        names = _assigned2(s.body)
        for x in env_t:
            if x in names:
                raise TranslateError("loop variable reassigned")
        state, st_ty, tup, binds = self._state(names)
        if not state:
            raise TranslateError("loop without effect")
        lets_nl = lets.replace("; ", "\n    ")
        monadic = any(self.impure(x) for x in s.body) or any(isinstance(x, ast.While) for b in s.body for x in ast.walk(b))
        inner = self.sub(env_t)
        after = binds.replace("\n    ", "\n  ")
        if monadic:
            if not self.partial:
                raise TranslateError("a loop body that may raise in a function not declared partial")
            body = inner.block(s.body, tail=lambda e: f"some {tup(e)}")
            return (f"(OQ.Py.foldlOpt (fun (st : {st_ty}) ({var} : {te}) =>\n    {binds}{lets_nl}{body}) "
                    f"({', '.join(state)}) {it}).bind (fun (st : {st_ty}) =>\n  {after}{self.block(rest, tail)})")
        body = inner.block(s.body, tail=tup)
        return (f"let st : {st_ty} := {it}.foldl (fun (st : {st_ty}) ({var} : {te}) =>\n    {binds}{lets_nl}{body}) "
                f"({', '.join(state)})\n  {after}{self.block(rest, tail)}")


def _assigned2(stmts):
    """names a loop (re)binds, in order of first occurrence: assignment / walrus targets, receivers of append, iterators
    consumed by islice, the hidden list of a generator's yields"""
    out = []

    def add(x):
        if x not in out:
            out.append(x)

    class V(ast.NodeVisitor):
        def generic_visit(self, n):
            if isinstance(n, (ast.Return, ast.Break, ast.Continue)):
                raise TranslateError(f"{type(n).__name__} inside a loop body")
            if isinstance(n, ast.Assign):
                for t in n.targets:
                    add(tr._target_name(t))
            elif isinstance(n, ast.AugAssign):
                add(tr._target_name(n.target))
            elif isinstance(n, ast.NamedExpr):
                add(tr._target_name(n.target))
            elif isinstance(n, ast.Yield):
                add("__yield")
            elif isinstance(n, ast.Call) and isinstance(n.func, ast.Attribute) and n.func.attr == "append" \
                    and isinstance(n.func.value, ast.Name):
                add(n.func.value.id)
            elif _callname(n) == "islice" and n.args and _name(n.args[0]):
                add(n.args[0].id)
            super().generic_visit(n)

    for s in stmts:
        V().visit(s)
    return out


def translate_function(fn, lean_name, arg_types, ret, partial=False, attrs=None, local_types=None, known=None,
                       fuel=None, generator=False, **_other):
    """as translate.translate_function, with the T2 subset; `known` entries may carry a 4th component (partial?),
    `fuel` lists one Python expression per while loop, `generator=True` declares a generator function (ret = the list of its yields)"""
    fn = getattr(fn, "__wrapped__", fn)
    src = textwrap.dedent(inspect.getsource(fn))
    node = ast.parse(src).body[0]
    if not isinstance(node, ast.FunctionDef):
        raise TranslateError("not a function")
    names = [a.arg for a in node.args.args]
    if len(names) != len(arg_types):
        raise TranslateError("arity")
    env = dict(zip(names, arg_types))
    body = list(node.body)
    local_types = dict(local_types or {})
    has_yield = any(isinstance(x, (ast.Yield, ast.YieldFrom)) for x in ast.walk(node))
    if has_yield != bool(generator):
        raise TranslateError("generator declaration does not match the source (yield present: %s)" % has_yield)
    if generator:
        if any(isinstance(x, ast.YieldFrom) for x in ast.walk(node)) or \
                any(isinstance(x, ast.Return) and x.value is not None for x in ast.walk(node)):
            raise TranslateError("yield from / return with a value in a generator")
        local_types["__yield"] = ret
        body = [ast.Assign(targets=[ast.Name(id="__yield", ctx=ast.Store())], value=ast.List(elts=[], ctx=ast.Load()))] \
            + body + [ast.Return(value=_load("__yield"))]
    T.KNOWN = {}
    ctx = {"n": 0, "fuel": list(fuel or []), "known": dict(known or {}),
           "returned": {x.value.id for x in ast.walk(node) if isinstance(x, ast.Return) and _name(x.value)}}
    text = TI(env, ret, partial, attrs, local_types, ctx).block(body)
    if ctx["fuel"]:
        raise TranslateError("more fuel expressions declared than while loops present")
    binders = " ".join(f"({n} : {t})" for n, t in zip(names, arg_types))
    alltypes = list(arg_types) + [ret]
    pre = ""
    if attrs or any(tr.OPAQUE in t for t in alltypes):
        pre += "{α : Type} " + "".join(f"(attr_{k.replace('.', '_')} : α → {t}) " for k, t in (attrs or {}).items())
    if any(KEY in t for t in alltypes):
        pre += "{κ : Type} [BEq κ] "
    where = f"{inspect.getsourcefile(fn).split('/src/')[-1]}:{fn.__name__}"
    rt = f"Option ({ret})" if partial else ret
    note = " (a generator: the list of everything it yields; laziness is not modelled)" if generator else ""
    return f"/-- translated from `{where}`{note} -/\ndef {lean_name} {pre}{binders} : {rt} :=\n  {text}\n"


# ---------------------------------------------------------------------- JSON glue for the driver and canonical forms for the check
def parse_type(t):
    t = t.strip()
    while t.startswith("(") and t.endswith(")") and tr._balanced(t[1:-1]):
        t = t[1:-1].strip()
    parts = tr.prod_parts(t)
    if len(parts) > 1:
        return ("prod", [parse_type(p) for p in parts])
    if t in (DICT, COUNTER):
        return ("dict",)
    if t == STR:
        return ("str",)
    if t.startswith("List "):
        return ("list", parse_type(t[5:]))
    if t.startswith("Option "):
        return ("option", parse_type(t[7:]))
    if t in ("Int", "Bool"):
        return (t.lower(),)
    if t in ("α", "κ"):
        return ("var", t)
    raise TranslateError(f"no JSON form for the type {t}")


def lean_dec(p):
    """Lean text of a decoder `Json → Except String τ` (type variables are instantiated with String)"""
    k = p[0]
    if k == "int":
        return "intOfJson"
    if k == "bool":
        return "boolOfJson"
    if k == "str":
        return "strOf"
    if k == "var":
        return "strOfJson"
    if k == "list":
        return f"(listOfJson {lean_dec(p[1])})"
    if k == "dict":
        return "(listOfJson (pairOfJson strOfJson intOfJson))"
    if k == "prod" and len(p[1]) == 2:
        return f"(pairOfJson {lean_dec(p[1][0])} {lean_dec(p[1][1])})"
    raise TranslateError(f"no decoder for {p}")


def lean_enc(p):
    """Lean text of an encoder `τ → Json`; ints are written as decimal strings"""
    k = p[0]
    if k == "int":
        return "intJ"
    if k == "bool":
        return "Json.bool"
    if k == "str":
        return "strJ"
    if k == "var":
        return "Json.str"
    if k == "list":
        return f"(fun l => Json.arr ((l.map {lean_enc(p[1])}).toArray))"
    if k == "dict":
        return "(fun (d : List (String × Int)) => Json.arr ((d.map (fun p => Json.arr #[Json.str p.1, intJ p.2])).toArray))"
    if k == "prod":
        n = len(p[1])
        fields = ", ".join(f"{lean_enc(q)} p{'.2' * i}{'' if i == n - 1 else '.1'}" for i, q in enumerate(p[1]))
        return f"(fun p => Json.arr #[{fields}])"
    raise TranslateError(f"no encoder for {p}")


def lean_type(t):
    """the concrete type the driver runs a definition at"""
    return t.replace("α", "String").replace("κ", "String")


def canon_py(p, v):
    """canonical JSON-able form of a PYTHON value of (translator) type p – what lean_enc prints for the same value"""
    k = p[0]
    if k == "int":
        if isinstance(v, bool) or not isinstance(v, int):
            raise TypeError(f"expected int, got {v!r}")
        return str(v)
    if k == "bool":
        return bool(v)
    if k in ("str", "var"):
        if not isinstance(v, str):
            raise TypeError(f"expected str, got {v!r}")
        return v
    if k == "list":
        return [canon_py(p[1], x) for x in v]
    if k == "dict":
        return [[key, canon_py(("int",), val)] for key, val in v.items()]
    if k == "prod":
        v = tuple(v)
        if len(v) != len(p[1]):
            raise TypeError("tuple arity")
        return [canon_py(q, x) for q, x in zip(p[1], v)]
    raise TypeError(str(p))
