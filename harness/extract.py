"""Regenerate the Lean tables from /repo's current source (written only when content changed)."""
import os

from . import common

GEN = os.path.join(common.LEAN, "OQ", "Generated")


def _write(name, text):
    os.makedirs(GEN, exist_ok=True)
    p = os.path.join(GEN, name)
    old = open(p).read() if os.path.exists(p) else None
    if old != text:
        with open(p, "w") as f:
            f.write(text)
        return "rewritten"
    return "unchanged"


TABLES = []  # (file name, function returning text)


def table(name):
    def deco(fn):
        TABLES.append((name, fn))
        return fn
    return deco


def write_all():
    common.use_repo()
    notes = {}
    for name, fn in TABLES:
        try:
            notes[name] = _write(name, fn())
        except Exception as e:  # a table that cannot be extracted is written as an error marker
            notes[name] = "extract-failed: " + repr(e)[:200]
            _write(name, f"-- extraction failed: {e!r}\n#eval (throw (IO.userError \"extraction failed\") : IO Unit)\n")
    common.write_driver_all()
    return notes


from . import tables  # noqa: E402,F401  (registers the tables)
