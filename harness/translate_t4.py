"""Translator extension T4 (on top of harness/translate.py): dictionary-valued code over an ABSTRACT numeric value type, with the
CLASS of every exception (properties C17: outcome distributions, C10: measurement counts).

`T4` subclasses `translate.T`: every pure int / list / str expression form of the base subset is inherited.  Added here:

  result     : a function that may raise is declared partial and returns `Except OQ.Py.Exc4 τ` (`Exc4` = runtime | value | index | key |
               type | zeroDiv); `raise RuntimeError(...)` is `Except.error OQ.Py.Exc4.runtime`, and so on for ValueError, IndexError,
               KeyError, TypeError, ZeroDivisionError (any other class: TranslateError).  A `raise` may occur inside a loop body.
  values     : the type `ν` of probabilities / floats is a TYPE PARAMETER with `[OQ.Py.PyNum ν]` (`+ - * /`, `==`, `<=`, `<`, int literals);
               an int meeting a `ν` is cast (`((k : Int) : ν)`), a float literal must be integral (`1.0` is `((1 : Int) : ν)`).
               FLOAT ROUNDING IS NOT MODELLED.  `sum(d.values())` is `OQ.Py.sumNum`.
  effects    : expressions that may raise are hoisted in Python's evaluation order into `Except.bind`s:
                 `xs[i]` on a list / tuple (`OQ.Py.indexE`: negative indices from the end, IndexError), `d[k]` on a dict
                 (`OQ.Py.dictGetE`: KeyError), `a / b` (`OQ.Py.divE` / `divIntE`: ZeroDivisionError), `int(s)` of a str / character
                 (`OQ.Py.intOfStr`: ValueError), `max(xs)` (`OQ.Py.maxListE`), `tuple(map(int, xs))` (`OQ.Py.mapE`), calls of translated
                 partial functions / constructors / methods, comprehensions whose element may raise (`OQ.Py.mapE`).
               `a and b` / `a or b` / `x if c else y` whose LATER operands may raise are accepted at the top of a `return` / assignment
               (lowered to `if` statements, which is what short-circuit evaluation means); elsewhere they are refused.
  dicts      : `OQ.Py.Dict κ ν` (insertion-ordered association lists) for concrete key types (`List Int` tuples, `List Char` strs,
               `OQ.Py.PyKey` = str | tuple | other): `{}` / `[]` (typed per function: `empties=[…]`, one type per empty literal in source
               order – renaming the variable or moving the statement keeps the translation), `d[k] = v` (right-hand side evaluated
               first, then the key, as Python does), `d[k] op= v`
               (reads `d[k]` first: KeyError), `d.keys()`, `d.values()`, `d.items()`, `d.get(k, dflt)`, `for k in d`, `len(d)`, `d == {}`,
               dict comprehensions, `Counter(xs)` of a list, `dict(c)`.  A loop over a dict may only assign `d[<the loop's key>]`
               (anything else could change the dict's size during iteration: refused).
               A dict with tuple (str) keys passed where `str | tuple` keys are expected is upcast (`OQ.Py.dictTupKeys` / `dictStrKeys`).
  isinstance : `if isinstance(x, str)` / `isinstance(x, tuple)` on a NAME of type `OQ.Py.PyKey` becomes a `match` that rebinds `x` at the
               narrower type (also in conditional expressions; a `str` / tuple meeting a `PyKey` in the other branch is injected);
               `isinstance(x, …)` on a value whose declared type already decides it is a constant.  `x is None` / `x is not None` on a
               NAME of an `Option` type likewise.
  strings    : `"c" in s` for a ONE-character constant (`s.contains 'c'`), `s.split("c")` (`OQ.Py.split1`), iterating a str where a list of
               strs is the alternative (`OQ.Py.strChars`).
  further    : chained comparisons (`0 < x < m`, middle operand evaluated once), `all(...)` / `any(...)` of a generator with pure element,
               `len(set(xs))` (`OQ.Py.lenSet`, independent of the set's order), `[x] * k` for any element type, `copy.deepcopy(e)` = `e`
               (all values are immutable mathematical values here), `warnings.warn(...)` skipped (no effect on the result – tie theorems
               say so), annotated assignments, keyword arguments and defaults in calls of translated functions.
  externals  : `math.isclose`, `sys.float_info.min` (declared per function in `ext`) are PARAMETERS `ext_…` of the translated definition
               and of every translated function that calls it.
  methods    : `self` is replaced by its attributes: the declared input attributes (`self_in`) are parameters `self_<attr>`, `self.a = e`
               and `self.a += e` REBIND `self_a`; the result is (the declared output attributes `self_out` after the call, the returned
               value if `value`).  `self.m(...)` and `obj.m(...)` / `cls()` on declared object classes call the translated methods; a
               method call statement on a local object rebinds its state.
  callees    : a translated function that calls another one names it in `known` (built from the callee's own spec, `specs_t4.K`); if the
               callee is not translatable NOW, the caller is not either (both definitions are then missing and their tie theorems fail).
  value semantics: in-place mutation of a PARAMETER (`p[k] = v`) is rendered as a new value that the function returns / carries; at a call
               of such a function the argument must be a local name that is not read afterwards (checked; otherwise refused).
"""
import ast
import copy
import inspect
import textwrap

from . import translate as tr
from .translate import T, TranslateError, INT, BOOL, CHAR, LIST, STR, is_list, elem, list_of, paren

NU = "ν"
PYKEY = "OQ.Py.PyKey"
EXC = {"RuntimeError": "runtime", "ValueError": "value", "IndexError": "index", "KeyError": "key", "TypeError": "type",
       "ZeroDivisionError": "zeroDiv"}


def DICT(k, v):
    return f"OQ.Py.Dict {paren(k)} {paren(v)}"


def is_dict(t):
    return t.startswith("OQ.Py.Dict ")


def _tokens(t):
    """top-level space separated tokens of a type application"""
    out, depth, cur = [], 0, ""
    for c in t:
        if c == "(":
            depth += 1
        elif c == ")":
            depth -= 1
        if c == " " and depth == 0:
            if cur:
                out.append(cur)
            cur = ""
        else:
            cur += c
    if cur:
        out.append(cur)
    return out


def _unparen(t):
    t = t.strip()
    while t.startswith("(") and t.endswith(")") and tr._balanced(t[1:-1]):
        t = t[1:-1].strip()
    return t


def dict_kv(t):
    toks = _tokens(t)
    if len(toks) != 3:
        raise TranslateError(f"dict type {t}")
    return _unparen(toks[1]), _unparen(toks[2])


def is_opt(t):
    return t.startswith("Option ")


def opt_elem(t):
    return _unparen(t[len("Option "):])


def ok(v):
    return f"(Except.ok {v})"


def err(c):
    return f"(Except.error OQ.Py.Exc4.{c})"


def _name(n, ident=None):
    return isinstance(n, ast.Name) and (ident is None or n.id == ident)


def _callname(n):
    return n.func.id if isinstance(n, ast.Call) and isinstance(n.func, ast.Name) else None


def _load(x):
    return ast.Name(id=x, ctx=ast.Load())


def _dotted(n):
    parts = []
    while isinstance(n, ast.Attribute):
        parts.append(n.attr)
        n = n.value
    if isinstance(n, ast.Name):
        parts.append(n.id)
        return ".".join(reversed(parts))
    return None


def _isinstance_test(n):
    """isinstance(<Name>, str|tuple)  ->  (name, 'str'|'tup')"""
    if _callname(n) == "isinstance" and len(n.args) == 2 and not n.keywords and _name(n.args[0]) and _name(n.args[1]) \
            and n.args[1].id in ("str", "tuple"):
        return n.args[0].id, {"str": "str", "tuple": "tup"}[n.args[1].id]
    return None


def _none_test(n):
    """<Name> is None / is not None  ->  (name, is_none?)"""
    if isinstance(n, ast.Compare) and len(n.ops) == 1 and isinstance(n.ops[0], (ast.Is, ast.IsNot)) and _name(n.left) \
            and isinstance(n.comparators[0], ast.Constant) and n.comparators[0].value is None:
        return n.left.id, isinstance(n.ops[0], ast.Is)
    return None


class Ctx:
    def __init__(self, fn, partial, known, ext, empties, self_in, self_out, value, objects):
        self.fn = fn
        self.partial = partial
        self.known = dict(known or {})
        self.ext = list(ext or [])          # (python dotted name, lean parameter name, lean type)
        self.empties = list(empties or [])  # declared types of the empty `[]` / `{}` literals, in source order
        self.self_in = dict(self_in or {})  # attribute -> type (parameters self_<attr>)
        self.self_out = list(self_out or [])
        self.value = value
        self.objects = dict(objects or {})  # class name -> [state attribute names] (single attribute: the state IS its value)
        self.n = 0
        self.loop = 0
        self.globals = getattr(fn, "__globals__", {})
        self.params = []

    def ext_by_py(self, dotted):
        for py, lean, t in self.ext:
            if py == dotted:
                return lean, t
        return None


class T4(T):
    def __init__(self, env, ret, ctx, objs=None):
        super().__init__(env, ret, ctx.partial, None, None)
        self.ctx = ctx
        self.objs = dict(objs or {})
        self._rest = []

    def sub(self, extra, objs=None):
        o = dict(self.objs)
        for k in extra:
            o.pop(k, None)
        o.update(objs or {})
        return T4({**self.env, **extra}, self.ret, self.ctx, o)

    def fresh(self):
        self.ctx.n += 1
        return f"__t{self.ctx.n}"

    # ================================================================== pure expressions
    def num(self, v, t):
        if t == NU:
            return v
        if t == INT:
            import re
            if re.fullmatch(r"\(-?\d+ : Int\)", v):
                return f"({v} : ν)"
            return f"(({v} : Int) : ν)"
        raise TranslateError(f"a numeric value expected, got {t}")

    def e(self, n):
        if isinstance(n, ast.Constant) and isinstance(n.value, float):
            if n.value != int(n.value):
                raise TranslateError(f"non-integral float literal {n.value!r}")
            return f"(({int(n.value)} : Int) : ν)", NU
        if isinstance(n, ast.Constant) and n.value is None:
            raise TranslateError("None in a position without a declared Option type")
        if isinstance(n, ast.Attribute):
            d = _dotted(n)
            if d is not None and d.startswith("self.") and d.count(".") == 1:
                v = "self_" + n.attr
                if v in self.env:
                    return v, self.env[v]
                raise TranslateError(f"attribute {d} is not set at this point")
            x = self.ctx.ext_by_py(d) if d else None
            if x is not None and "→" not in x[1]:
                return x[0], x[1]
            raise TranslateError(f"attribute {d}")
        if isinstance(n, ast.IfExp):
            return self.ifexp(n)
        if isinstance(n, ast.List) and n.elts:
            parts = [self.e(v) for v in n.elts]
            if all(t == parts[0][1] for _, t in parts):
                return "[" + ", ".join(p for p, _ in parts) + "]", list_of(parts[0][1])
        if isinstance(n, ast.BinOp) and isinstance(n.op, ast.Div):
            raise TranslateError("division in a position where it cannot be hoisted")
        if isinstance(n, ast.Subscript) and not isinstance(n.slice, ast.Slice):
            raise TranslateError("indexing in a position where it cannot be hoisted")
        if isinstance(n, ast.DictComp):
            return self.dictcomp(n)
        if isinstance(n, ast.BoolOp):
            parts = [self.e(v) for v in n.values]
            if any(t != BOOL for _, t in parts):
                raise TranslateError("and/or on non-bool operands")
            j = " && " if isinstance(n.op, ast.And) else " || "
            return "(" + j.join(p for p, _ in parts) + ")", BOOL
        return super().e(n)

    def unify(self, a, ta, b, tb):
        if ta == tb:
            return a, b, ta
        inj = {STR: "OQ.Py.PyKey.str", LIST: "OQ.Py.PyKey.tup"}
        if ta == PYKEY and tb in inj:
            return a, f"({inj[tb]} {b})", PYKEY
        if tb == PYKEY and ta in inj:
            return f"({inj[ta]} {a})", b, PYKEY
        if {ta, tb} == {NU, INT}:
            return self.num(a, ta), self.num(b, tb), NU
        raise TranslateError(f"conditional expression with branches of types {ta} and {tb}")

    def narrow(self, test):
        """(scrutinee name, lean pattern, type in the positive branch, positive-first?) for an isinstance / None test on a name"""
        it = _isinstance_test(test)
        if it and self.env.get(it[0]) == PYKEY:
            return it[0], f"OQ.Py.PyKey.{it[1]} {it[0]}", {"str": STR, "tup": LIST}[it[1]], True
        nt = _none_test(test)
        if nt and is_opt(self.env.get(nt[0], "")):
            return nt[0], f"some {nt[0]}", opt_elem(self.env[nt[0]]), not nt[1]
        return None

    def ifexp(self, n):
        nar = self.narrow(n.test)
        if nar:
            x, pat, tpos, pos_first = nar
            pos_node, neg_node = (n.body, n.orelse) if pos_first else (n.orelse, n.body)
            a, ta = self.sub({x: tpos}).e(pos_node)
            b, tb = self.e(neg_node)
            a, b, t = self.unify(a, ta, b, tb)
            return f"(match {x} with | {pat} => {a} | _ => {b})", t
        c, tc = self.e(n.test)
        a, ta = self.e(n.body)
        b, tb = self.e(n.orelse)
        if tc != BOOL:
            raise TranslateError("ifexp test")
        a, b, t = self.unify(a, ta, b, tb)
        return f"(if {c} then {a} else {b})", t

    def static_isinstance(self, n):
        """isinstance(e, C) decided by e's declared type"""
        v, t = self.e(n.args[0])
        cls = n.args[1]
        names = [x for x in (cls.elts if isinstance(cls, ast.Tuple) else [cls])]
        labels = set()
        for x in names:
            d = _dotted(x) if isinstance(x, ast.Attribute) else (x.id if _name(x) else None)
            if d is None:
                raise TranslateError("isinstance class")
            labels.add(d)
        if t == INT and labels <= {"int", "np.integer", "numpy.integer"} and "int" in labels:
            return "true", BOOL
        if t == INT and not (labels & {"int", "np.integer", "numpy.integer", "object"}):
            return "false", BOOL
        if t in (STR, LIST) and labels <= {"str", "tuple"}:
            mine = "str" if t == STR else "tuple"
            return ("true" if mine in labels else "false"), BOOL
        if t == PYKEY and len(labels) == 1 and labels <= {"str", "tuple"}:
            pat = "OQ.Py.PyKey.str _" if "str" in labels else "OQ.Py.PyKey.tup _"
            return f"(match {v} with | {pat} => true | _ => false)", BOOL
        raise TranslateError(f"isinstance({t}, {sorted(labels)})")

    def binop(self, n):
        if isinstance(n.op, ast.Div):
            raise TranslateError("division in a position where it cannot be hoisted")
        a, ta = self.e(n.left)
        b, tb = self.e(n.right)
        if NU in (ta, tb) and {ta, tb} <= {NU, INT}:
            sym = {ast.Add: "+", ast.Sub: "-", ast.Mult: "*"}.get(type(n.op))
            if sym:
                return f"({self.num(a, ta)} {sym} {self.num(b, tb)})", NU
        if isinstance(n.op, ast.Mult) and ((is_list(ta) and tb == INT) or (is_list(tb) and ta == INT)):
            k, l, tl = (b, a, ta) if tb == INT else (a, b, tb)
            return f"((List.replicate (Int.toNat {k}) {l}).flatten)", tl
        return super().binop(n)

    def compare(self, n):
        if len(n.ops) > 1:
            operands = [n.left] + list(n.comparators)
            for mid in operands[1:-1]:
                if not isinstance(mid, (ast.Name, ast.Constant)):
                    raise TranslateError("chained comparison with a compound middle operand")
            parts = [self.compare(ast.Compare(left=operands[k], ops=[n.ops[k]], comparators=[operands[k + 1]]))[0]
                     for k in range(len(n.ops))]
            return "(" + " && ".join(parts) + ")", BOOL
        op = n.ops[0]
        # `d == {}`
        if isinstance(op, (ast.Eq, ast.NotEq)):
            for x, y in ((n.left, n.comparators[0]), (n.comparators[0], n.left)):
                if isinstance(y, ast.Dict) and not y.keys:
                    d, td = self.e(x)
                    if not is_dict(td):
                        raise TranslateError("comparison of a non-dict with {}")
                    c = f"({d}.isEmpty)"
                    return (f"(!{c})" if isinstance(op, ast.NotEq) else c), BOOL
        # "c" in s
        if isinstance(op, (ast.In, ast.NotIn)) and isinstance(n.left, ast.Constant) and isinstance(n.left.value, str):
            s, ts = self.e(n.comparators[0])
            if ts == STR:
                if len(n.left.value) != 1:
                    raise TranslateError("substring test with a constant that is not one character")
                c = f"({s}.contains {tr.char_lit(n.left.value)})"
                return (f"(!{c})" if isinstance(op, ast.NotIn) else c), BOOL
        a, ta = self.e(n.left)
        b, tb = self.e(n.comparators[0])
        if NU in (ta, tb) and {ta, tb} <= {NU, INT}:
            a, b = self.num(a, ta), self.num(b, tb)
            if isinstance(op, ast.Eq):
                return f"({a} == {b})", BOOL
            if isinstance(op, ast.NotEq):
                return f"(!({a} == {b}))", BOOL
            if isinstance(op, ast.LtE):
                return f"(OQ.Py.PyNum.le {a} {b})", BOOL
            if isinstance(op, ast.GtE):
                return f"(OQ.Py.PyNum.le {b} {a})", BOOL
            if isinstance(op, ast.Lt):
                return f"(OQ.Py.PyNum.lt {a} {b})", BOOL
            if isinstance(op, ast.Gt):
                return f"(OQ.Py.PyNum.lt {b} {a})", BOOL
        return super().compare(n)

    def iter_of(self, n):
        """(lean list, element type) of an iterable expression"""
        if isinstance(n, ast.IfExp):
            c, tc = self.e(n.test)
            a, ta = self.iter_of(n.body)
            b, tb = self.iter_of(n.orelse)
            if tc != BOOL:
                raise TranslateError("ifexp test")
            # a str iterated where a list of strs is the alternative: its one-character strings
            if ta == CHAR and tb == STR:
                a, ta = f"(OQ.Py.strChars {self.e(n.body)[0]})", STR
            if tb == CHAR and ta == STR:
                b, tb = f"(OQ.Py.strChars {self.e(n.orelse)[0]})", STR
            if ta != tb:
                raise TranslateError(f"iterable branches of element types {ta}, {tb}")
            return f"(if {c} then {a} else {b})", ta
        v, t = self.e(n)
        if is_dict(t):
            return f"(OQ.Py.dictKeys {v})", dict_kv(t)[0]
        if is_list(t):
            return v, elem(t)
        raise TranslateError(f"iteration over {t}")

    def _gen(self, gens, elt_node, depth=0):
        g = gens[0]
        it, te = self.iter_of(g.iter)
        var = g.target.id if isinstance(g.target, ast.Name) else f"p{depth}"
        if var == "_":
            var = f"_u{depth}"
        env, lets, _ = self._bind_target(g.target, te, var)
        if isinstance(g.target, ast.Name) and g.target.id == "_":
            env = {}
        sub = self.sub(env)
        src = it
        for cond in g.ifs:
            c, tc = sub.e(cond)
            if tc != BOOL:
                raise TranslateError("comprehension filter")
            src = f"({src}.filter (fun ({var} : {te}) => {lets}{c}))"
        if len(gens) == 1:
            el, tel = sub.e(elt_node)
            return f"({src}.map (fun ({var} : {te}) => {lets}{el}))", list_of(tel)
        inner, tin = sub._gen(gens[1:], elt_node, depth + 1)
        return f"({src}.flatMap (fun ({var} : {te}) => {lets}{inner}))", tin

    def dictcomp(self, n):
        if len(n.generators) != 1 or n.generators[0].ifs:
            raise TranslateError("dict comprehension with several generators / filters")
        g = n.generators[0]
        it, te = self.iter_of(g.iter)
        env, lets, _ = self._bind_target(g.target, te, "p0")
        var = g.target.id if isinstance(g.target, ast.Name) else "p0"
        sub = self.sub(env)
        k, tk = sub.e(n.key)
        v, tv = sub.e(n.value)
        td = DICT(tk, tv)
        return (f"({it}.foldl (fun (acc : {td}) ({var} : {te}) => {lets}OQ.Py.dictSet acc {k} {v}) [])"), td

    def known_entry(self, n):
        """the `known` entry a call node refers to (and the receiver's state arguments), or None"""
        if isinstance(n.func, ast.Name):
            k = self.ctx.known.get(n.func.id)
            return (k, []) if k else None
        if isinstance(n.func, ast.Attribute) and _name(n.func.value):
            recv, meth = n.func.value.id, n.func.attr
            if recv == "self":
                k = self.ctx.known.get("self." + meth)
                if k:
                    args = []
                    for a in k["self_in"]:
                        if "self_" + a not in self.env:
                            raise TranslateError(f"self.{a} is not set at the call of self.{meth}")
                        args.append("self_" + a)
                    return k, args
            if recv in self.objs:
                k = self.ctx.known.get(self.objs[recv] + "." + meth)
                if k:
                    return k, [recv]
        return None

    def known_call(self, n, k, recv_args):
        """(lean text, type, partial?) of a call of a translated function; arguments are pure by now"""
        params, types = list(k["params"]), list(k["args"])
        given = {}
        if len(n.args) > len(params):
            raise TranslateError("too many arguments")
        for p, a in zip(params, n.args):
            given[p] = a
        for kw in n.keywords:
            if kw.arg not in params or kw.arg in given:
                raise TranslateError(f"keyword argument {kw.arg}")
            given[kw.arg] = kw.value
        texts = []
        for p, t in zip(params, types):
            if p in given:
                v, tv = self.e(given[p])
                if tv != t:
                    if is_dict(tv) and is_dict(t) and dict_kv(t)[0] == PYKEY and dict_kv(tv)[1] == dict_kv(t)[1] \
                            and dict_kv(tv)[0] in (LIST, STR):
                        v = f"(OQ.Py.{'dictTupKeys' if dict_kv(tv)[0] == LIST else 'dictStrKeys'} {v})"
                    elif is_opt(t) and opt_elem(t) == tv:
                        v = f"(some {v})"
                    elif t == NU and tv == INT:
                        v = self.num(v, tv)
                    else:
                        raise TranslateError(f"argument {p} of {k['lean']}: {tv}, declared {t}")
                if k["params"].index(p) in k.get("mutates", []):
                    self.check_dead_after(given[p], k["lean"])
                texts.append(v)
            elif p in k.get("defaults", {}):
                texts.append(k["defaults"][p])
            else:
                raise TranslateError(f"missing argument {p}")
        exts = []
        for x in k.get("ext", []):
            if not any(lean == x for _, lean, _ in self.ctx.ext):
                raise TranslateError(f"the callee's external {x} is not declared for this function")
            exts.append(x)
        return "(" + " ".join([k["lean"]] + exts + recv_args + texts) + ")", k["ret"], k["partial"]

    def check_dead_after(self, arg, callee):
        if not _name(arg):
            raise TranslateError(f"{callee} mutates its argument in place: the argument must be a local name")
        if self.ctx.loop:
            raise TranslateError(f"{callee} mutates its argument in place: not supported inside a loop")
        if arg.id in self.ctx.params:
            raise TranslateError(f"{callee} mutates its argument in place, and that argument is a parameter of this function")
        for s in self._rest:
            for x in ast.walk(s):
                if _name(x, arg.id) and isinstance(x.ctx, ast.Load):
                    raise TranslateError(f"{callee} mutates {arg.id} in place and {arg.id} is read afterwards (aliasing not modelled)")

    def call(self, n):
        f = _callname(n)
        ke = self.known_entry(n)
        if ke is not None:
            v, t, partial = self.known_call(n, *ke)
            if partial:
                raise TranslateError(f"call of the partial function {ke[0]['lean']} in a position where it cannot be hoisted")
            return v, t
        if isinstance(n.func, ast.Attribute):
            d = _dotted(n.func)
            x = self.ctx.ext_by_py(d) if d else None
            if x is not None and "→" in x[1]:
                if n.keywords:
                    raise TranslateError("keyword arguments of an external")
                sig = [s.strip() for s in x[1].split("→")]
                args = [self.e(a) for a in n.args]
                if len(args) != len(sig) - 1:
                    raise TranslateError(f"arity of {d}")
                texts = []
                for (v, tv), ts in zip(args, sig[:-1]):
                    if ts == NU and tv == INT:
                        v = self.num(v, tv)
                    elif tv != ts:
                        raise TranslateError(f"argument of {d}: {tv}, declared {ts}")
                    texts.append(v)
                return "(" + " ".join([x[0]] + texts) + ")", sig[-1]
            if d == "copy.deepcopy" and len(n.args) == 1 and not n.keywords and self.ctx.globals.get("copy") is copy:
                return self.e(n.args[0])
            meth = n.func.attr
            if meth in ("keys", "values", "items") and not n.args and not n.keywords:
                r, trv = self.e(n.func.value)
                if is_dict(trv):
                    k, v = dict_kv(trv)
                    if meth == "keys":
                        return f"(OQ.Py.dictKeys {r})", list_of(k)
                    if meth == "values":
                        return f"(OQ.Py.dictValues {r})", list_of(v)
                    return f"(OQ.Py.dictItems {r})", list_of(f"{paren(k)} × {paren(v)}")
                raise TranslateError(f"{meth}() of {trv}")
            if meth == "get" and len(n.args) == 2 and not n.keywords:
                r, trv = self.e(n.func.value)
                if is_dict(trv):
                    k, v = dict_kv(trv)
                    kk, tk = self.e(n.args[0])
                    dd, tdd = self.e(n.args[1])
                    if tk != k:
                        raise TranslateError(f"get with a key of type {tk} on {trv}")
                    if v == NU and tdd == INT:
                        dd, tdd = self.num(dd, tdd), NU
                    if tdd != v:
                        raise TranslateError("get default type")
                    return f"(OQ.Py.dictGetD {r} {kk} {dd})", v
            if meth == "split" and len(n.args) == 1 and not n.keywords and isinstance(n.args[0], ast.Constant) \
                    and isinstance(n.args[0].value, str) and len(n.args[0].value) == 1:
                r, trv = self.e(n.func.value)
                if trv == STR:
                    return f"(OQ.Py.split1 {tr.char_lit(n.args[0].value)} {r})", tr.LSTR
            return super().call(n)
        if f == "isinstance" and len(n.args) == 2 and not n.keywords:
            return self.static_isinstance(n)
        if f in ("all", "any") and len(n.args) == 1 and not n.keywords:
            a = n.args[0]
            if isinstance(a, (ast.GeneratorExp, ast.ListComp)) and len(a.generators) == 1 and not a.generators[0].ifs:
                g = a.generators[0]
                it, te = self.iter_of(g.iter)
                var = g.target.id if isinstance(g.target, ast.Name) else "p0"
                env, lets, _ = self._bind_target(g.target, te, var)
                c, tc = self.sub(env).e(a.elt)
                if tc != BOOL:
                    raise TranslateError(f"{f} of non-bools")
                return f"({it}.{f} (fun ({var} : {te}) => {lets}{c}))", BOOL
            v, t = self.e(a)
            if t == list_of(BOOL):
                return f"({v}.{f} id)", BOOL
            raise TranslateError(f"{f}({t})")
        if f == "len" and len(n.args) == 1 and not n.keywords:
            a = n.args[0]
            if _callname(a) == "set" and len(a.args) == 1 and not a.keywords:
                v, t = self.e(a.args[0])
                if is_list(t):
                    return f"(OQ.Py.lenSet {v})", INT
                raise TranslateError(f"len(set({t}))")
            v, t = self.e(a)
            if is_dict(t):
                return f"(({v}.length : Nat) : Int)", INT
        if f == "sum" and len(n.args) == 1 and not n.keywords:
            v, t = self.e(n.args[0])
            if t == list_of(NU):
                return f"(OQ.Py.sumNum {v})", NU
        if f == "Counter" and len(n.args) == 1 and not n.keywords:
            v, t = self.e(n.args[0])
            if is_list(t):
                return f"(OQ.Py.counterOfList {v})", DICT(elem(t), INT)
            raise TranslateError(f"Counter({t})")
        if f == "dict" and len(n.args) == 1 and not n.keywords:
            v, t = self.e(n.args[0])
            if is_dict(t):
                return v, t
            raise TranslateError(f"dict({t})")
        if f in ("list", "tuple") and len(n.args) == 1 and not n.keywords:
            v, t = self.e(n.args[0])
            if is_dict(t):
                return f"(OQ.Py.dictKeys {v})", list_of(dict_kv(t)[0])
        if f == "int" and len(n.args) == 1 and not n.keywords:
            v, t = self.e(n.args[0])
            if t == INT:
                return v, t
            raise TranslateError("int(...) of a non-int in a position where it cannot be hoisted")
        if f in ("max", "min") and len(n.args) == 1:
            raise TranslateError(f"{f} in a position where it cannot be hoisted")
        return super().call(n)

    # ================================================================== effects: hoisting in evaluation order
    def effect_node(self, n):
        if isinstance(n, ast.Subscript) and not isinstance(n.slice, ast.Slice):
            return True
        if isinstance(n, ast.BinOp) and isinstance(n.op, ast.Div):
            return True
        if isinstance(n, ast.Call):
            f = _callname(n)
            if f == "int" and len(n.args) == 1:
                return True
            if f in ("max", "min") and len(n.args) == 1 and not n.keywords:
                return True
            if f == "map" and len(n.args) == 2 and _name(n.args[0], "int"):
                return True
            ke = None
            try:
                ke = self.known_entry(n)
            except TranslateError:
                return True
            if ke is not None and ke[0]["partial"]:
                return True
        return False

    def impure(self, n):
        return any(self.effect_node(x) for x in ast.walk(n))

    def hoist(self, n, items):
        if not self.impure(n):
            return n
        if isinstance(n, ast.Subscript) and not isinstance(n.slice, ast.Slice):
            v = self.hoist(n.value, items)
            i = self.hoist(n.slice, items)
            tmp = self.fresh()
            items.append(("index", tmp, v, i))
            return _load(tmp)
        if isinstance(n, ast.Subscript):
            n2 = copy.copy(n)
            n2.value = self.hoist(n.value, items)
            s = copy.copy(n.slice)
            for fld in ("lower", "upper", "step"):
                if getattr(s, fld) is not None:
                    setattr(s, fld, self.hoist(getattr(s, fld), items))
            n2.slice = s
            return n2
        if isinstance(n, ast.BinOp):
            l = self.hoist(n.left, items)
            r = self.hoist(n.right, items)
            if isinstance(n.op, ast.Div):
                tmp = self.fresh()
                items.append(("div", tmp, l, r))
                return _load(tmp)
            n2 = copy.copy(n)
            n2.left, n2.right = l, r
            return n2
        if isinstance(n, ast.Compare):
            n2 = copy.copy(n)
            n2.left = self.hoist(n.left, items)
            n2.comparators = [self.hoist(x, items) for x in n.comparators]
            return n2
        if isinstance(n, ast.UnaryOp):
            n2 = copy.copy(n)
            n2.operand = self.hoist(n.operand, items)
            return n2
        if isinstance(n, ast.BoolOp):
            if any(self.impure(v) for v in n.values[1:]):
                raise TranslateError("an operand of and/or that may raise, below the top of a return / assignment")
            n2 = copy.copy(n)
            n2.values = [self.hoist(n.values[0], items)] + n.values[1:]
            return n2
        if isinstance(n, ast.IfExp):
            if self.impure(n.body) or self.impure(n.orelse):
                raise TranslateError("a branch of a conditional expression that may raise, below the top of a return / assignment")
            n2 = copy.copy(n)
            n2.test = self.hoist(n.test, items)
            return n2
        if isinstance(n, (ast.Tuple, ast.List)):
            n2 = copy.copy(n)
            n2.elts = [self.hoist(x, items) for x in n.elts]
            return n2
        if isinstance(n, ast.Attribute):
            n2 = copy.copy(n)
            n2.value = self.hoist(n.value, items)
            return n2
        if isinstance(n, (ast.ListComp, ast.GeneratorExp)):
            n2 = copy.copy(n)
            n2.generators = [copy.copy(g) for g in n.generators]
            n2.generators[0].iter = self.hoist(n.generators[0].iter, items)
            inner = [n2.elt] + [c for g in n2.generators for c in g.ifs] + [g.iter for g in n2.generators[1:]]
            if any(self.impure(x) for x in inner):
                tmp = self.fresh()
                items.append(("comp", tmp, n2))
                return _load(tmp)
            return n2
        if isinstance(n, ast.Call):
            n2 = copy.copy(n)
            if isinstance(n.func, ast.Attribute):
                n2.func = copy.copy(n.func)
                if not (_name(n.func.value) and (n.func.value.id == "self" or n.func.value.id in self.objs)):
                    n2.func.value = self.hoist(n.func.value, items)
            elif not isinstance(n.func, ast.Name):
                raise TranslateError("effect under a call of a non-name")
            f = _callname(n)
            if f == "map" and len(n.args) == 2 and _name(n.args[0], "int") and not n.keywords:
                x = self.hoist(n.args[1], items)
                tmp = self.fresh()
                items.append(("mapint", tmp, x))
                return _load(tmp)
            n2.args = [self.hoist(a, items) for a in n.args]
            n2.keywords = []
            for kw in n.keywords:
                kw2 = copy.copy(kw)
                kw2.value = self.hoist(kw.value, items)
                n2.keywords.append(kw2)
            if self.effect_node(n2):
                tmp = self.fresh()
                items.append(("call", tmp, n2))
                return _load(tmp)
            return n2
        raise TranslateError(f"effect inside {type(n).__name__}")

    def emit(self, items, cont):
        if not items:
            return cont(self)
        kind, tmp = items[0][0], items[0][1]

        def go(text, t, pure=False):
            rest = self.sub({tmp: t}).with_rest(self._rest).emit(items[1:], cont)
            if pure:
                return f"let {tmp} : {t} := {text}\n  {rest}"
            if not self.partial:
                raise TranslateError("an expression that may raise in a function not declared partial")
            return f"Except.bind {text} (fun ({tmp} : {t}) =>\n  {rest})"
        if kind == "let":
            v, tv = self.e(items[0][2])
            return go(v, tv, pure=True)
        if kind == "index":
            v, tv = self.e(items[0][2])
            i, ti = self.e(items[0][3])
            if is_list(tv) and ti == INT:
                return go(f"(OQ.Py.indexE {v} {i})", elem(tv))
            if is_dict(tv) and ti == dict_kv(tv)[0]:
                return go(f"(OQ.Py.dictGetE {v} {i})", dict_kv(tv)[1])
            raise TranslateError(f"subscript of {tv} with {ti}")
        if kind == "div":
            a, ta = self.e(items[0][2])
            b, tb = self.e(items[0][3])
            if ta == INT and tb == INT:
                return go(f"(OQ.Py.divIntE {a} {b})", NU)
            if {ta, tb} <= {NU, INT}:
                return go(f"(OQ.Py.divE {self.num(a, ta)} {self.num(b, tb)})", NU)
            raise TranslateError(f"division of {ta} by {tb}")
        if kind == "mapint":
            xs, te = self.iter_of(items[0][2])
            if te == STR:
                return go(f"(OQ.Py.mapE OQ.Py.intOfStr {xs})", LIST)
            if te == CHAR:
                return go(f"(OQ.Py.mapE (fun (c : Char) => OQ.Py.intOfStr [c]) {xs})", LIST)
            if te == INT:
                return go(xs, LIST, pure=True)
            raise TranslateError(f"map(int, …) over elements of type {te}")
        if kind == "call":
            n = items[0][2]
            f = _callname(n)
            ke = self.known_entry(n)
            if ke is not None:
                v, t, partial = self.known_call(n, *ke)
                if ke[0].get("obj"):
                    self.ctx.tmp_objs[tmp] = ke[0]["obj"]
                return go(v, t, pure=not partial)
            if f == "int":
                v, t = self.e(n.args[0])
                if t == INT:
                    return go(v, INT, pure=True)
                if t == STR:
                    return go(f"(OQ.Py.intOfStr {v})", INT)
                if t == CHAR:
                    return go(f"(OQ.Py.intOfStr [{v}])", INT)
                raise TranslateError(f"int({t})")
            if f in ("max", "min"):
                v, t = self.e(n.args[0])
                if t == LIST and f == "max":
                    return go(f"(OQ.Py.maxListE {v})", INT)
                raise TranslateError(f"{f}({t})")
            raise TranslateError(f"effect call {f}")
        if kind == "comp":
            n = items[0][2]
            if len(n.generators) != 1:
                raise TranslateError("effects in a comprehension with several generators")
            g = n.generators[0]
            if any(self.impure(c) for c in g.ifs):
                raise TranslateError("effect in a comprehension filter")
            it, te = self.iter_of(g.iter)
            var = g.target.id if isinstance(g.target, ast.Name) else "p0"
            env, lets, _ = self._bind_target(g.target, te, var)
            inner = self.sub(env)
            src = it
            for cond in g.ifs:
                c, tc = inner.e(cond)
                if tc != BOOL:
                    raise TranslateError("comprehension filter")
                src = f"({src}.filter (fun ({var} : {te}) => {lets}{c}))"
            its = []
            elt = inner.hoist(n.elt, its)
            got = {}

            def c2(t):
                v, tv = t.e(elt)
                got["t"] = tv
                return ok(v)
            body = inner.emit(its, c2)
            lets_nl = lets.replace("; ", "\n  ")
            return go(f"(OQ.Py.mapE (fun ({var} : {te}) =>\n  {lets_nl}{body}) {src})", list_of(got["t"]))
        raise TranslateError(kind)

    def with_rest(self, rest):
        self._rest = rest
        return self

    # ================================================================== statements
    def wrap(self, v):
        return ok(v) if self.partial else v

    def result_text(self, value=None):
        """what the function returns: (output attributes of self …, the returned value)"""
        parts = []
        for a in self.ctx.self_out:
            if "self_" + a not in self.env:
                raise TranslateError(f"self.{a} is not set when the method returns")
            parts.append("self_" + a)
        if self.ctx.value:
            if value is None:
                raise TranslateError("a path returns no value")
            parts.append(value)
        if not parts:
            raise TranslateError("nothing to return")
        return self.wrap(parts[0] if len(parts) == 1 else "(" + ", ".join(parts) + ")")

    def _lower(self, s, value):
        """`return a and b` / `x = a if c else b` with later operands that may raise  ->  if statements"""
        def again(v):
            s2 = copy.copy(s)
            s2.value = v
            return s2
        if isinstance(value, ast.BoolOp) and any(self.impure(v) for v in value.values[1:]):
            first, others = value.values[0], value.values[1:]
            rest_v = others[0] if len(others) == 1 else ast.BoolOp(op=value.op, values=others)
            if isinstance(value.op, ast.And):
                return ast.If(test=first, body=[again(rest_v)], orelse=[again(ast.Constant(value=False))])
            return ast.If(test=first, body=[again(ast.Constant(value=True))], orelse=[again(rest_v)])
        if isinstance(value, ast.IfExp) and (self.impure(value.body) or self.impure(value.orelse)):
            return ast.If(test=value.test, body=[again(value.body)], orelse=[again(value.orelse)])
        return None

    def block(self, stmts, tail=None):
        if not stmts:
            if tail is None:
                return self.result_text(None)
            return tail(self)
        s, rest = stmts[0], stmts[1:]
        self._rest = rest
        if isinstance(s, ast.Expr) and isinstance(s.value, ast.Constant) and isinstance(s.value.value, str):
            return self.block(rest, tail)
        # warnings.warn(...): no effect on the result
        if isinstance(s, ast.Expr) and isinstance(s.value, ast.Call) and _dotted(s.value.func) == "warnings.warn":
            import warnings
            if self.ctx.globals.get("warnings") is warnings:
                return self.block(rest, tail)
        if isinstance(s, ast.AnnAssign) and s.value is not None:
            s = ast.Assign(targets=[s.target], value=s.value)
        if isinstance(s, ast.Return):
            if tail is not None:
                raise TranslateError("return inside a loop body")
            if s.value is None:
                return self.result_text(None)
            low = self._lower(s, s.value)
            if low is not None:
                return self.block([low] + rest, tail)
            items = []
            v = self.hoist(s.value, items)

            def cont(t):
                x, tx = t.e(v)
                want = t.ctx.value_type
                if tx != want:
                    if want == NU and tx == INT:
                        x = t.num(x, tx)
                    else:
                        raise TranslateError(f"return type {tx}, declared {want}")
                return t.result_text(x)
            return self.emit(items, cont)
        if isinstance(s, ast.Raise):
            if not self.partial:
                raise TranslateError("raise in a function not declared partial")
            exc = s.exc.func if isinstance(s.exc, ast.Call) else s.exc
            if not _name(exc) or exc.id not in EXC:
                raise TranslateError("raise of an unknown exception class")
            return err(EXC[exc.id])
        if isinstance(s, ast.Assign) and len(s.targets) == 1:
            tgt = s.targets[0]
            # self.a = e  ->  rebinding of self_a
            if isinstance(tgt, ast.Attribute) and _name(tgt.value, "self"):
                s = ast.Assign(targets=[ast.Name(id="self_" + tgt.attr, ctx=ast.Store())], value=s.value)
                tgt = s.targets[0]
            if isinstance(tgt, ast.Name):
                name = tgt.id
                if (isinstance(s.value, (ast.List, ast.Tuple)) and not s.value.elts) or \
                        (isinstance(s.value, ast.Dict) and not s.value.keys):
                    pos = (s.value.lineno, s.value.col_offset)
                    if pos not in self.ctx.empty_types:
                        raise TranslateError(f"empty literal for {name}: no declared type left")
                    t = self.ctx.empty_types[pos]
                    if isinstance(s.value, ast.Dict) != is_dict(t):
                        raise TranslateError(f"empty literal for {name}: declared type {t} does not fit")
                    return f"let {name} : {t} := []\n  {self.sub({name: t}).block(rest, tail)}"
                low = self._lower(s, s.value)
                if low is not None:
                    return self.block([low] + rest, tail)
                items = []
                v = self.hoist(s.value, items)

                def cont(t):
                    x, tx = t.e(v)
                    objs = {}
                    ke = t.known_entry(v) if isinstance(v, ast.Call) else None
                    if _name(v) and v.id in t.objs:
                        objs[name] = t.objs[v.id]
                    # a temp bound to a constructor call carries its class
                    if _name(v) and v.id in t.ctx.tmp_objs:
                        objs[name] = t.ctx.tmp_objs[v.id]
                    if ke is not None and ke[0].get("obj"):
                        objs[name] = ke[0]["obj"]
                    return f"let {name} : {tx} := {x}\n  {t.sub({name: tx}, objs).block(rest, tail)}"
                return self.emit(items, cont)
            if isinstance(tgt, ast.Subscript) and _name(tgt.value) and not isinstance(tgt.slice, ast.Slice) \
                    and is_dict(self.env.get(tgt.value.id, "")):
                name = tgt.value.id
                td = self.env[name]
                items = []
                val = self.hoist(s.value, items)   # Python evaluates the right-hand side first, then the target's subscript
                key = self.hoist(tgt.slice, items)

                def cont(t):
                    k, tk = t.e(key)
                    v, tv = t.e(val)
                    kk, vv = dict_kv(td)
                    if vv == NU and tv == INT:
                        v, tv = t.num(v, tv), NU
                    if tk != kk or tv != vv:
                        raise TranslateError(f"item assignment on {td} with key {tk}, value {tv}")
                    return f"let {name} : {td} := OQ.Py.dictSet {name} {k} {v}\n  {t.block(rest, tail)}"
                return self.emit(items, cont)
        if isinstance(s, ast.AugAssign):
            tgt = s.target
            if isinstance(tgt, ast.Attribute) and _name(tgt.value, "self"):
                tgt = ast.Name(id="self_" + tgt.attr, ctx=ast.Store())
            if isinstance(tgt, ast.Name):
                name = tgt.id
                if name not in self.env:
                    raise TranslateError(f"augmented assignment to the unknown name {name}")
                items = []
                val = self.hoist(s.value, items)

                def cont(t):
                    x, tx = t.e(ast.BinOp(left=_load(name), op=s.op, right=val)) if not isinstance(s.op, ast.Div) else (None, None)
                    if x is None:
                        raise TranslateError("/= on a name")
                    if tx != t.env[name]:
                        raise TranslateError("augmented assignment changes type")
                    return f"let {name} : {tx} := {x}\n  {t.block(rest, tail)}"
                return self.emit(items, cont)
            if isinstance(tgt, ast.Subscript) and _name(tgt.value) and not isinstance(tgt.slice, ast.Slice) \
                    and is_dict(self.env.get(tgt.value.id, "")):
                # d[k] op= v : load d[k] (KeyError), evaluate v, combine, store
                name = tgt.value.id
                td = self.env[name]
                items = []
                key = self.hoist(tgt.slice, items)
                if not isinstance(key, (ast.Name, ast.Constant)):
                    ktmp = self.fresh()
                    items.append(("let", ktmp, key))
                    key = _load(ktmp)
                old = self.fresh()
                items.append(("index", old, _load(name), key))
                new = self.hoist(ast.BinOp(left=_load(old), op=s.op, right=s.value), items)

                def cont(t):
                    k, tk = t.e(key)
                    v, tv = t.e(new)
                    kk, vv = dict_kv(td)
                    if tk != kk or tv != vv:
                        raise TranslateError(f"augmented item assignment on {td} with key {tk}, value {tv}")
                    return f"let {name} : {td} := OQ.Py.dictSet {name} {k} {v}\n  {t.block(rest, tail)}"
                return self.emit(items, cont)
        if isinstance(s, ast.Expr) and isinstance(s.value, ast.Call) and isinstance(s.value.func, ast.Attribute) \
                and _name(s.value.func.value):
            recv, meth = s.value.func.value.id, s.value.func.attr
            if meth == "append" and recv in self.env and is_list(self.env[recv]) and len(s.value.args) == 1:
                items = []
                a = self.hoist(s.value.args[0], items)

                def cont(t):
                    v, tv = t.e(a)
                    if t.env[recv] != list_of(tv):
                        raise TranslateError("append type")
                    return f"let {recv} : {t.env[recv]} := {recv} ++ [{v}]\n  {t.block(rest, tail)}"
                return self.emit(items, cont)
            # obj.m(args) on a local object: the method's final state rebinds the object
            if recv in self.objs and (self.objs[recv] + "." + meth) in self.ctx.known:
                k = self.ctx.known[self.objs[recv] + "." + meth]
                if k["self_out"] != k["self_in"] or len(k["self_in"]) != 1 or k["value"]:
                    raise TranslateError("method call statement on an object whose method does not return exactly its state")
                items = []
                call = copy.copy(s.value)
                call.args = [self.hoist(a, items) for a in s.value.args]

                def cont(t):
                    v, tv, partial = t.known_call(call, k, [recv])
                    if tv != t.env[recv]:
                        raise TranslateError("object state type")
                    inner = t.block(rest, tail)
                    if partial:
                        return f"Except.bind {v} (fun ({recv} : {tv}) =>\n  {inner})"
                    return f"let {recv} : {tv} := {v}\n  {inner}"
                return self.emit(items, cont)
        if isinstance(s, ast.If):
            nar = self.narrow(s.test)
            a_stmts = s.body + ([] if tr._ends(s.body) else rest)
            b_stmts = (s.orelse or []) + ([] if (s.orelse and tr._ends(s.orelse)) else rest)
            if nar:
                x, pat, tpos, pos_first = nar
                pos, neg = (a_stmts, b_stmts) if pos_first else (b_stmts, a_stmts)
                a = self.sub({x: tpos}).block(pos, tail)
                b = self.block(neg, tail)
                return f"(match {x} with\n  | {pat} =>\n  {a}\n  | _ =>\n  {b})"
            items = []
            test = self.hoist(s.test, items)

            def cont(t):
                c, tc = t.e(test)
                if tc != BOOL:
                    raise TranslateError("if test")
                a = t.block(a_stmts, tail)
                b = t.block(b_stmts, tail)
                return f"if {c} then\n  {a}\n  else\n  {b}"
            return self.emit(items, cont)
        if isinstance(s, ast.For) and not s.orelse:
            items = []
            it = self.hoist(s.iter, items)
            s2 = copy.copy(s)
            s2.iter = it
            return self.emit(items, lambda t: t._for4(s2, rest, tail))
        raise TranslateError(f"statement {type(s).__name__}")

    def _for4(self, s, rest, tail):
        it, te = self.iter_of(s.iter)
        # a loop over a dict may only assign d[<loop key>]
        src = s.iter
        if isinstance(src, ast.Call) and isinstance(src.func, ast.Attribute) and src.func.attr in ("keys", "items", "values") \
                and not src.args:
            src = src.func.value
        if _name(src) and is_dict(self.env.get(src.id, "")):
            keyvar = s.target.id if isinstance(s.target, ast.Name) else (
                s.target.elts[0].id if isinstance(s.target, ast.Tuple) and _name(s.target.elts[0]) else None)
            if isinstance(s.iter, ast.Call) and s.iter.func.attr == "values":
                keyvar = None
            for x in ast.walk(ast.Module(body=s.body, type_ignores=[])):
                tg = None
                if isinstance(x, ast.Assign):
                    tg = x.targets[0]
                elif isinstance(x, ast.AugAssign):
                    tg = x.target
                elif isinstance(x, ast.Delete):
                    raise TranslateError("del inside a loop over a dict")
                if isinstance(tg, ast.Subscript) and _name(tg.value, src.id) and not (keyvar and _name(tg.slice, keyvar)):
                    raise TranslateError(f"the loop over {src.id} assigns an item other than the loop's key (size may change)")
                if isinstance(tg, ast.Name) and tg.id == src.id:
                    raise TranslateError(f"the loop over {src.id} rebinds it")
        var = s.target.id if isinstance(s.target, ast.Name) else "p0"
        env_t, lets, _ = self._bind_target(s.target, te, var)
        names = _assigned4(s.body)
        for x in env_t:
            if x in names:
                raise TranslateError("loop variable reassigned")
        state = [x for x in names if x in self.env]
        if not state:
            raise TranslateError("loop without effect")
        tys = [self.env[x] for x in state]
        st_ty = " × ".join(f"({t})" for t in tys)

        def proj(k):
            if len(state) == 1:
                return "st"
            return "st" + ".2" * k + ("" if k == len(state) - 1 else ".1")

        def tup(env_t2):
            for x, t in zip(state, tys):
                if env_t2.env.get(x) != t:
                    raise TranslateError(f"loop changes the type of {x}")
            return "(" + ", ".join(state) + ")" if len(state) > 1 else state[0]
        binds = "".join(f"let {x} : {t} := {proj(k)}\n    " for k, (x, t) in enumerate(zip(state, tys)))
        lets_nl = lets.replace("; ", "\n    ")
        effectful = any(self.impure(x) for x in s.body) or any(isinstance(x, ast.Raise) for b in s.body for x in ast.walk(b))
        inner = self.sub(env_t)
        after = binds.replace("\n    ", "\n  ")
        init = "(" + ", ".join(state) + ")" if len(state) > 1 else state[0]
        self.ctx.loop += 1
        try:
            if effectful:
                if not self.partial:
                    raise TranslateError("a loop body that may raise in a function not declared partial")
                body = inner.block(s.body, tail=lambda e: ok(tup(e)))
            else:
                body = inner.block(s.body, tail=tup)
        finally:
            self.ctx.loop -= 1
        cont = self.with_rest(rest).block(rest, tail)
        if effectful:
            return (f"Except.bind (OQ.Py.foldlE (fun (st : {st_ty}) ({var} : {te}) =>\n    {binds}{lets_nl}{body}) "
                    f"{init} {it}) (fun (st : {st_ty}) =>\n  {after}{cont})")
        return (f"let st : {st_ty} := {it}.foldl (fun (st : {st_ty}) ({var} : {te}) =>\n    {binds}{lets_nl}{body}) "
                f"{init}\n  {after}{cont}")


def _assigned4(stmts):
    """names a loop (re)binds, in order of first occurrence (self.a counts as self_a; d[k] = v rebinds d)"""
    out = []

    def add(x):
        if x not in out:
            out.append(x)

    def tname(t):
        if isinstance(t, ast.Name):
            return t.id
        if isinstance(t, ast.Attribute) and _name(t.value, "self"):
            return "self_" + t.attr
        if isinstance(t, ast.Subscript) and isinstance(t.value, ast.Name):
            return t.value.id
        raise TranslateError("assignment target")

    class V(ast.NodeVisitor):
        def generic_visit(self, n):
            if isinstance(n, (ast.Return, ast.Break, ast.Continue, ast.While)):
                raise TranslateError(f"{type(n).__name__} inside a loop body")
            if isinstance(n, ast.Assign):
                for t in n.targets:
                    add(tname(t))
            elif isinstance(n, ast.AnnAssign) and n.value is not None:
                add(tname(n.target))
            elif isinstance(n, ast.AugAssign):
                add(tname(n.target))
            elif isinstance(n, ast.Expr) and isinstance(n.value, ast.Call) and isinstance(n.value.func, ast.Attribute) \
                    and isinstance(n.value.func.value, ast.Name) and n.value.func.value.id != "self":
                add(n.value.func.value.id)  # x.append(e) / obj.m(...)
            super().generic_visit(n)

    for s in stmts:
        V().visit(s)
    return out


def mutated_params(fn):
    """indices (among the non-self parameters) of the parameters the function mutates in place"""
    fn = getattr(fn, "__wrapped__", fn)
    node = ast.parse(textwrap.dedent(inspect.getsource(fn))).body[0]
    names = [a.arg for a in node.args.args if a.arg not in ("self", "cls")]
    out = set()
    for x in ast.walk(node):
        tg = None
        if isinstance(x, ast.Assign):
            tg = x.targets[0]
        elif isinstance(x, ast.AugAssign):
            tg = x.target
        if isinstance(tg, ast.Subscript) and _name(tg.value) and tg.value.id in names:
            out.add(names.index(tg.value.id))
        if isinstance(x, ast.Call) and isinstance(x.func, ast.Attribute) and _name(x.func.value) and x.func.value.id in names \
                and x.func.attr in ("append", "extend", "pop", "update", "clear", "remove", "insert", "sort", "reverse", "popitem",
                                    "setdefault"):
            out.add(names.index(x.func.value.id))
    return sorted(out)


def ret_type(ret, self_out_types, value):
    parts = list(self_out_types) + ([ret] if value else [])
    if len(parts) == 1:
        return parts[0]
    return " × ".join(f"({p})" for p in parts)


def translate_function(fn, lean_name, arg_types, ret, partial=False, attrs=None, local_types=None, known=None,
                       ext=None, empties=None, self_in=None, self_out=None, self_out_types=None, value=True, objects=None, **_other):
    """arg_types: the types of the parameters other than self / cls; ret: the type of the RETURNED VALUE (ignored when value=False).
    The definition's result type is (self_out_types …, ret)."""
    fn = getattr(fn, "__wrapped__", fn)
    fn = getattr(fn, "__func__", fn)
    src = textwrap.dedent(inspect.getsource(fn))
    node = ast.parse(src).body[0]
    if not isinstance(node, ast.FunctionDef):
        raise TranslateError("not a function")
    if node.args.vararg or node.args.kwarg or node.args.kwonlyargs:
        raise TranslateError("*args / **kwargs / keyword-only parameters")
    if any(isinstance(d, ast.Name) and d.id == "classmethod" for d in node.decorator_list):
        pass
    names = [a.arg for a in node.args.args]
    has_self = bool(names) and names[0] in ("self", "cls")
    pnames = names[1:] if has_self else names
    if len(pnames) != len(arg_types):
        raise TranslateError("arity")
    self_in = dict(self_in or {})
    self_out = list(self_out or [])
    self_out_types = list(self_out_types or [])
    if (self_in or self_out) and not has_self:
        raise TranslateError("self attributes declared for a function without self")
    full_ret = ret_type(ret, self_out_types, value)
    ctx = Ctx(fn, partial, known, ext, empties, self_in, self_out, value, objects)
    ctx.value_type = ret
    ctx.params = list(pnames)
    ctx.tmp_objs = {}
    env = {"self_" + a: t for a, t in self_in.items()}
    env.update(dict(zip(pnames, arg_types)))
    T.KNOWN = {}
    # the declared types of the empty `[]` / `{}` literals, by source position (in source order: renaming variables or moving the
    # statement does not matter, and a statement that is rendered on several paths keeps its type)
    lits = sorted((x.value.lineno, x.value.col_offset) for x in ast.walk(node)
                  if isinstance(x, (ast.Assign, ast.AnnAssign)) and x.value is not None
                  and ((isinstance(x.value, (ast.List, ast.Tuple)) and not x.value.elts)
                       or (isinstance(x.value, ast.Dict) and not x.value.keys)))
    if len(lits) != len(ctx.empties):
        raise TranslateError(f"{len(lits)} empty literals in the source, {len(ctx.empties)} types declared")
    ctx.empty_types = dict(zip(lits, ctx.empties))
    # a callee that is not translatable now makes the caller untranslatable too (its definition would not compile)
    for kname, k in ctx.known.items():
        sp = k.get("spec")
        if sp is not None:
            try:
                opt = {x: y for x, y in sp[5].items() if x not in ("translator", "driver", "imports")}
                sp[5]["translator"](sp[0], sp[1], sp[2], sp[3], sp[4], **opt)
            except Exception as e:
                raise TranslateError(f"the callee {kname} is not translatable now ({e})")
    body = T4(env, ret, ctx).block(list(node.body))
    alltypes = list(arg_types) + [full_ret] + list(self_in.values())
    pre = ""
    if any(NU in t for t in alltypes) or any(NU in t for _, _, t in (ext or [])) or NU in body:
        pre += "{ν : Type} [OQ.Py.PyNum ν] "
    pre += "".join(f"({lean} : {t}) " for _, lean, t in (ext or []))
    binders = " ".join([f"(self_{a} : {t})" for a, t in self_in.items()] + [f"({n} : {t})" for n, t in zip(pnames, arg_types)])
    where = f"{inspect.getsourcefile(fn).split('/src/')[-1]}:{fn.__qualname__}"
    rt = f"Except OQ.Py.Exc4 ({full_ret})" if partial else full_ret
    return f"/-- translated from `{where}` -/\ndef {lean_name} {pre}{binders} : {rt} :=\n  {body}\n"


# ---------------------------------------------------------------------- JSON glue for the driver, canonical forms for the check
def parse_type(t):
    t = _unparen(t)
    parts = tr.prod_parts(t)
    if len(parts) > 1:
        return ("prod", [parse_type(p) for p in parts])
    if is_dict(t):
        k, v = dict_kv(t)
        return ("dict", parse_type(k), parse_type(v))
    if t == STR:
        return ("str",)
    if t == PYKEY:
        return ("pykey",)
    if t == NU:
        return ("num",)
    if t.startswith("List "):
        return ("list", parse_type(t[5:]))
    if t.startswith("Option "):
        return ("option", parse_type(t[7:]))
    if t in ("Int", "Bool"):
        return (t.lower(),)
    raise TranslateError(f"no JSON form for the type {t}")


def lean_type(t):
    return t.replace(NU, "Rat")


def lean_dec(p):
    k = p[0]
    if k == "int":
        return "intOfJson"
    if k == "bool":
        return "boolOfJson"
    if k == "str":
        return "strOf"
    if k == "num":
        return "ratOfJson"
    if k == "pykey":
        return "pyKeyOf"
    if k == "list":
        return f"(listOfJson {lean_dec(p[1])})"
    if k == "option":
        return f"(optOf {lean_dec(p[1])})"
    if k == "dict":
        return f"(listOfJson (pairOf {lean_dec(p[1])} {lean_dec(p[2])}))"
    if k == "prod" and len(p[1]) == 2:
        return f"(pairOf {lean_dec(p[1][0])} {lean_dec(p[1][1])})"
    raise TranslateError(f"no decoder for {p}")


def lean_enc(p):
    k = p[0]
    if k == "int":
        return "intJ"
    if k == "bool":
        return "Json.bool"
    if k == "str":
        return "strJ"
    if k == "num":
        return "ratToJson"
    if k == "pykey":
        return "pyKeyJ"
    if k == "list":
        return f"(fun l => Json.arr ((l.map {lean_enc(p[1])}).toArray))"
    if k == "dict":
        return f"(fun d => Json.arr ((d.map (fun p => Json.arr #[{lean_enc(p[1])} p.1, {lean_enc(p[2])} p.2])).toArray))"
    if k == "prod":
        n = len(p[1])
        fields = ", ".join(f"{lean_enc(q)} p{'.2' * i}{'' if i == n - 1 else '.1'}" for i, q in enumerate(p[1]))
        return f"(fun p => Json.arr #[{fields}])"
    raise TranslateError(f"no encoder for {p}")


def canon_py(p, v):
    """canonical JSON-able form of a PYTHON value of (translator) type p – what lean_enc prints for the same value"""
    from fractions import Fraction
    k = p[0]
    if k == "int":
        import numpy as np
        if isinstance(v, bool) or not isinstance(v, (int, np.integer)):
            raise TypeError(f"expected int, got {v!r}")
        return str(int(v))
    if k == "bool":
        if not isinstance(v, bool):
            raise TypeError(f"expected bool, got {v!r}")
        return v
    if k == "str":
        if not isinstance(v, str):
            raise TypeError(f"expected str, got {v!r}")
        return v
    if k == "num":
        f = v.q if hasattr(v, "q") else Fraction(v)
        return str(f.numerator) if f.denominator == 1 else f"{f.numerator}/{f.denominator}"
    if k == "pykey":
        if isinstance(v, str):
            return {"s": v}
        if isinstance(v, tuple):
            return {"t": [canon_py(("int",), x) for x in v]}
        return {"o": 0}
    if k == "list":
        return [canon_py(p[1], x) for x in v]
    if k == "dict":
        return [[canon_py(p[1], key), canon_py(p[2], val)] for key, val in v.items()]
    if k == "prod":
        v = tuple(v)
        if len(v) != len(p[1]):
            raise TypeError("tuple arity")
        return [canon_py(q, x) for q, x in zip(p[1], v)]
    raise TypeError(str(p))
