"""Python -> Lean translator for METHODS THAT MUTATE `self` (work package T5; expression level = harness/translate.py).

A class is translated per CONCRETE class, following Python's MRO (`getattr(cls, name)` decides which function body a method
name means; an override in the subclass therefore replaces the base-class body in the subclass's set of definitions and the
base-class methods that call it are re-emitted for the subclass with the call resolved to the override):

  structure <NS>.State …   the fields of `self` the spec declares (the ones the methods read or assign), plus one field
                           `world : ω` – everything outside the object that the external calls may read or change (the wrapped
                           runner's own state, the file system, a call log, …)
  structure <NS>.Ext …     the EXTERNALS, as parameters: abstract methods of `self` (`self._run_and_measure`), methods of objects
                           held in fields (`self.inner_backend.run_and_measure`), methods of opaque values
                           (`measurements.get_distribution()`), module-level functions (`to_dict`, `repr`), and attribute reads
                           of opaque values (`circuit.operations`, pure).  Every external CALL has the type
                               State → args → State × Result r
                           i.e. it may do anything to the state – also to the counters – and it may raise; frame laws ("does not
                           touch the counters") are HYPOTHESES of the tie theorems, not built into the translation.
  def <NS>.<method> (ext : Ext) (self : State) (args…) : State × Result r
                           STATE PASSING.  The returned state is the object's state at the moment the method returns OR RAISES:
                           Python does not roll back the assignments made before an exception, neither does the translation.

Supported statements (anything else raises TranslateError; the definition is then missing and its tie theorem does not build):
  `self.f = e`, `self.f: T = e`, `self.f += e` (f a declared field), `self.f.append(e)` (f a list field), `x = e`, `x: T` (skipped),
  `d["k"] = e` (d a local dict), `v[i] = e` (v an opaque value with a declared `__setitem__` external, which returns the updated
  object), `return e`, `return`, `raise ExcClass(...)` (the class is kept, the message is not),
  `if c: … [else: …]` with fall-through, the narrowing tests `x is None` / `x is not None` (x : Option t) and
  `isinstance(x, int)` (x : Int ⊕ List Int) → `match`, `for t in xs: body` whose body may call stateful things and raise
  (→ `PyS.forEach`, left to right, stops at the first exception; loop-carried = `self` and the locals that exist before the loop
  and are assigned in it), expression statements that are calls, docstrings, `super().__init__()` (the next class in the MRO that
  defines `__init__`: translated if it is one of the classes of the spec, a no-op for ABC / Protocol / object – assumption).
Expressions: everything of harness/translate.py, plus `self.f`, attribute reads of opaque values, `None` tests, `isinstance` on the
  declared union (also as first operand of `and`, and as test of a conditional expression – with narrowing), `any(…)` / `all(…)`
  over a generator, a bound method of `self` passed as a value (declared in `method_refs`, a pure parameter `ref_…`), omitted trailing
  arguments of a translated method whose default is `None`, dict displays with constant string keys (→ `PyS.Dict`, value constructor chosen by static type), truthiness of
  `Option Bool` / lists in `if`, `map(int, xs)`, and CALLS of stateful things anywhere Python evaluates them unconditionally: they
  are hoisted in evaluation order (receiver, arguments left to right, then the call) into a chain
      match <call> with | (self, .raised e) => (self, .raised e) | (self, .ok v) => …
  A stateful call under `and`/`or` (after the first operand), in the branches of a conditional expression, or inside a comprehension
  is refused, except the one supported comprehension form `[<expr with stateful calls> for t in xs]` (one generator, no filter) →
  `PyS.collectEach`, a left-to-right fold threading the state that stops at the first exception.
  `with <external call> as f: body` (not nested, not in a loop): the call's result is the handle, `<T>.__exit__(f)` is an external
  that runs on EVERY way out of the body – fall-through, `return`, `raise`, an exception raised by a call – and, if it raises
  itself, replaces the pending exception (assumptions: `__enter__` returns the object itself and `__exit__` never suppresses an
  exception – true of file objects).  A dict display holding a list of dicts (`{"raw-data": self.raw_data}`) is a `PyS.Dict2`.
Not translated: exception messages (f-strings), default argument values, keyword arguments at call sites, `try`, `while`,
  `break` / `continue`, nested functions.
Types are declared per class in the spec (harness/tables_runners.py); the translator checks them structurally.
"""
import ast
import inspect
import textwrap

from . import translate as tr
from .translate import BOOL, INT, LIST, STR, TranslateError, elem, is_list, list_of

UNIT = "Unit"
OPTINT = tr.OPTINT
OPTBOOL = "Option Bool"
INT_OR_LIST = "Int ⊕ (List Int)"
INTLISTS = "List (List Int)"

EXC = {"ValueError": ".ValueError", "TypeError": ".TypeError", "NotImplementedError": "(.other 1)",
       "AttributeError": "(.other 2)", "KeyError": "(.other 3)", "RuntimeError": "(.other 4)", "IndexError": "(.other 5)"}
LEAN_KEYWORDS = {"from", "at", "end", "open", "fun", "let", "in", "do", "then", "else", "if", "match", "with", "where", "have",
                 "show", "by", "def", "theorem", "structure", "instance", "namespace", "section", "variable", "type", "class",
                 "deriving", "import", "export", "mutual", "private", "protected", "universe", "example", "abbrev", "axiom",
                 "inductive", "macro", "syntax", "notation", "local", "set_option", "return", "for", "unless", "try", "catch"}
OWN_NAMES = {"ext", "st", "e", "b"}   # names the translation itself binds


def sum_parts(t):
    if " ⊕ " not in t:
        return None
    a, b = t.split(" ⊕ ", 1)
    b = b.strip()
    if b.startswith("(") and b.endswith(")"):
        b = b[1:-1]
    return a.strip(), b


def opt_part(t):
    return t[len("Option "):].strip("()") if t.startswith("Option ") else None


class ClassCtx:
    """what the translator knows about the class being translated (from the spec)"""

    def __init__(self, spec):
        self.spec = spec
        self.cls = spec["cls"]
        self.ns = spec["lean"]
        self.fields = dict(spec["fields"])
        self.methods = dict(spec["methods"])          # python name (or "Class.name" for super-resolved) -> (arg types, ret)
        self.externals = dict(spec.get("externals", {}))  # key -> (arg types, ret)
        self.attrs = dict(spec.get("attrs", {}))      # (opaque type, "a.b") -> type   (pure)
        self.opaque = list(spec.get("type_params", []))
        self.payload = spec.get("payload")            # the opaque type allowed inside dicts (Val.ext)
        self.method_refs = dict(spec.get("method_refs", {}))   # methods of self only ever passed as values -> their type
        self.state_params = list(spec["state_params"])
        self.translated_classes = list(spec.get("classes", [self.cls]))
        self.done = {}     # method key -> lean name (successfully translated)
        self.failed = {}   # method key -> message
        self.noop_supers = []
        self.counter = 0

    @property
    def state_t(self):
        return f"{self.ns}.State " + " ".join(self.state_params) if self.state_params else f"{self.ns}.State"

    @property
    def ext_t(self):
        return f"{self.ns}.Ext " + " ".join(self.opaque)

    def ext_field(self, key):
        return key.replace(".", "_") if "." in key else "fn_" + key   # module-level functions: fn_open, fn_to_dict, …

    def fresh(self):
        self.counter += 1
        return f"c__{self.counter}"

    def lean_method_name(self, key):
        if "." in key:
            c, m = key.split(".")
            return ("init" if m == "__init__" else m) + "_of_" + c
        return "init" if key == "__init__" else key

    def function_of(self, key):
        """the Python function a method key means for this concrete class (MRO resolution)"""
        if "." in key:
            cname, m = key.split(".")
            for k in self.cls.__mro__:
                if k.__name__ == cname:
                    f = k.__dict__[m]
                    break
            else:
                raise TranslateError(f"no class {cname} in the MRO")
        else:
            f = inspect.getattr_static(self.cls, key)
        if isinstance(f, property):
            f = f.fget
        if isinstance(f, (staticmethod, classmethod)):
            raise TranslateError("static / class method")
        if getattr(f, "__isabstractmethod__", False):
            raise TranslateError(f"{key} is abstract in {self.cls.__name__} (declare it as an external)")
        return f


def _name(x):
    if x in OWN_NAMES:
        return x + "_py"
    return f"«{x}»" if x in LEAN_KEYWORDS else x


class TS(tr.T):
    """expression + statement translator for one method body"""

    def __init__(self, env, ret, ctx, pack="self", owner=None, in_loop=False, cleanup=None):
        super().__init__(env, ret)
        self.ctx = ctx
        self.pack = pack      # lean text of the state component returned on return / raise (`self`, or `(self, a, b)` in a loop)
        self.owner = owner    # the class whose body is being translated (for `super()`)
        self.in_loop = in_loop
        self.cleanup = cleanup  # inside a `with` block: lean text of the `__exit__` call that runs on EVERY way out

    def sub(self, extra):
        return TS({**self.env, **extra}, self.ret, self.ctx, self.pack, self.owner, self.in_loop, self.cleanup)

    def _leaving(self, inner):
        """on the way out of a `with` block `__exit__` runs first; if it raises, that exception replaces everything"""
        if self.cleanup is None:
            return inner
        return (f"(match {self.cleanup} with\n  | (self, .raised e_exit) => ({self.pack}, .raised e_exit)\n"
                f"  | (self, .ok _) => {inner})")

    def ok(self, v):
        return self._leaving(f"({self.pack}, .ok {v})")

    def fail(self, e):
        return self._leaving(f"({self.pack}, .raised {e})")

    # ------------------------------------------------------------------ pure expressions
    def e(self, n):
        ctx = self.ctx
        if isinstance(n, ast.Name) and n.id in self.env:
            return _name(n.id), self.env[n.id]
        if isinstance(n, ast.Attribute):
            chain, cur = [], n
            while isinstance(cur, ast.Attribute):
                chain.append(cur.attr)
                cur = cur.value
            chain.reverse()
            if isinstance(cur, ast.Name) and cur.id == "self" and "self" not in self.env:
                if len(chain) == 1 and chain[0] in ctx.fields:
                    return f"self.{_fld(chain[0])}", ctx.fields[chain[0]]
                if len(chain) == 1 and chain[0] in ctx.method_refs:
                    # a bound method passed as a value (`split_circuit(circuit, self.is_natively_supported)`): a pure parameter
                    return f"ext.ref_{chain[0]}", ctx.method_refs[chain[0]]
                raise TranslateError(f"self.{'.'.join(chain)} is not a declared field")
            if isinstance(cur, ast.Name) and cur.id in self.env:
                key = (self.env[cur.id], ".".join(chain))
                if key in ctx.attrs:
                    return f"(ext.attr_{key[0]}_{key[1].replace('.', '_')} {_name(cur.id)})", ctx.attrs[key]
            raise TranslateError(f"attribute {'.'.join(chain)}")
        if isinstance(n, ast.UnaryOp) and isinstance(n.op, ast.Not):
            nar = self.narrowing(n)
            if nar is None:
                v, _ = self.truthy(n.operand)
                return f"(!{v})", BOOL
        if isinstance(n, ast.Compare) and len(n.ops) == 1 and isinstance(n.ops[0], (ast.Is, ast.IsNot)) \
                and isinstance(n.comparators[0], ast.Constant) and n.comparators[0].value is None:
            v, t = self.e(n.left)
            if opt_part(t) is None:
                raise TranslateError(f"`is None` on {t}")
            return (f"({v}).isNone" if isinstance(n.ops[0], ast.Is) else f"({v}).isSome"), BOOL
        if isinstance(n, ast.BoolOp) and isinstance(n.op, ast.And):
            nar = self.narrowing(n.values[0])
            if nar and nar[1] == "int":
                v, (ta, tb) = nar[0], sum_parts(self.env[nar[0]])
                rest = n.values[1:]
                node = rest[0] if len(rest) == 1 else ast.BoolOp(op=ast.And(), values=rest)
                body, tbody = self.sub({v: ta}).e(node)
                if tbody != BOOL:
                    raise TranslateError("boolop on non-bool")
                return f"(match {_name(v)} with | .inl {_name(v)} => {body} | .inr _ => false)", BOOL
        if isinstance(n, ast.IfExp):
            nar = self.narrowing(n.test)
            if nar and nar[1] in ("int", "notint"):
                v, (ta, tb) = nar[0], sum_parts(self.env[nar[0]])
                yes, no = (n.body, n.orelse) if nar[1] == "int" else (n.orelse, n.body)
                a, t1 = self.sub({v: ta}).e(yes)
                b, t2 = self.sub({v: tb}).e(no)
                if t1 != t2:
                    raise TranslateError("ifexp types")
                return f"(match {_name(v)} with | .inl {_name(v)} => {a} | .inr {_name(v)} => {b})", t1
        if isinstance(n, ast.Call) and isinstance(n.func, ast.Name) and not n.keywords:
            f = n.func.id
            if f == "isinstance":
                nar = self.narrowing(n)
                if nar:
                    return f"(match {_name(nar[0])} with | .inl _ => true | .inr _ => false)", BOOL
                raise TranslateError("isinstance")
            if f in ("any", "all") and len(n.args) == 1 and isinstance(n.args[0], (ast.GeneratorExp, ast.ListComp)):
                g = n.args[0]
                if len(g.generators) == 1 and not g.generators[0].ifs and isinstance(g.generators[0].target, ast.Name):
                    it, tit = self.e(g.generators[0].iter)
                    if not is_list(tit):
                        raise TranslateError(f"{f} over non-list")
                    var = g.generators[0].target.id
                    c, tc = self.sub({var: elem(tit)}).e(g.elt)
                    if tc != BOOL:
                        raise TranslateError(f"{f} of non-bool")
                    return f"({it}.{f} (fun ({_name(var)} : {elem(tit)}) => {c}))", BOOL
                xs, txs = self.e(g)
                if txs != "List Bool":
                    raise TranslateError(f"{f} of {txs}")
                return f"({xs}.{f} (fun b => b))", BOOL
            if f == "map" and len(n.args) == 2 and isinstance(n.args[0], ast.Name) and n.args[0].id == "int":
                x, tx = self.e(n.args[1])
                if tx == LIST:
                    return x, LIST
                raise TranslateError("map(int, non-int-list)")
        if isinstance(n, ast.Dict):
            items, deep = [], False
            for k, v in zip(n.keys, n.values):
                if not (isinstance(k, ast.Constant) and isinstance(k.value, str)):
                    raise TranslateError("dict key is not a string constant")
            if any(self.e(v)[1] == list_of(self.dict_t()) for v in n.values):
                # a dict holding lists of dicts (the tracker's file content): values are PyS.Val2
                for k, v in zip(n.keys, n.values):
                    x, t = self.e(v)
                    inj = f"(OQ.PyS.Val2.dicts {x} : OQ.PyS.Val2 {self.ctx.payload})" if t == list_of(self.dict_t()) \
                        else f"(OQ.PyS.Val2.val {self.val(v)} : OQ.PyS.Val2 {self.ctx.payload})"
                    items.append(f"({self.e(k)[0]}, {inj})")
                return f"(OQ.PyS.dictOf [{', '.join(items)}])", f"OQ.PyS.Dict2 {self.ctx.payload}"
            for k, v in zip(n.keys, n.values):
                items.append(f"({self.e(k)[0]}, {self.val(v)})")
            return f"(OQ.PyS.dictOf [{', '.join(items)}])", self.dict_t()
        return super().e(n)

    def dict_t(self):
        if not self.ctx.payload:
            raise TranslateError("dict display in a class without a declared payload type")
        return f"OQ.PyS.Dict {self.ctx.payload}"

    def val(self, node):
        """a value stored in a dict: constructor of PyS.Val chosen by the static type"""
        v, t = self.e(node)
        con = {STR: "str", INT: "int", OPTINT: "optInt", INTLISTS: "intLists", self.ctx.payload: "ext"}.get(t)
        if con is None:
            raise TranslateError(f"value of type {t} in a dict")
        return f"(OQ.PyS.Val.{con} {v} : OQ.PyS.Val {self.ctx.payload})"

    def truthy(self, node):
        v, t = self.e(node)
        if t == BOOL:
            return v, BOOL
        if t == OPTBOOL:
            return f"({v} == some true)", BOOL
        if is_list(t):
            return f"(!({v}).isEmpty)", BOOL
        if t == INT:
            return f"({v} != 0)", BOOL
        raise TranslateError(f"truth value of {t}")

    def narrowing(self, test):
        """(variable, 'none' | 'notnone' | 'int' | 'notint') when the test refines the declared type of a local variable"""
        if isinstance(test, ast.UnaryOp) and isinstance(test.op, ast.Not):
            inner = self.narrowing(test.operand)
            flip = {"none": "notnone", "notnone": "none", "int": "notint", "notint": "int"}
            return (inner[0], flip[inner[1]]) if inner else None
        if isinstance(test, ast.Compare) and len(test.ops) == 1 and isinstance(test.ops[0], (ast.Is, ast.IsNot)) \
                and isinstance(test.left, ast.Name) and isinstance(test.comparators[0], ast.Constant) \
                and test.comparators[0].value is None and opt_part(self.env.get(test.left.id, "")) is not None:
            return test.left.id, ("none" if isinstance(test.ops[0], ast.Is) else "notnone")
        if isinstance(test, ast.Call) and isinstance(test.func, ast.Name) and test.func.id == "isinstance" \
                and len(test.args) == 2 and isinstance(test.args[0], ast.Name) and isinstance(test.args[1], ast.Name) \
                and test.args[1].id == "int" and not test.keywords:
            t = self.env.get(test.args[0].id, "")
            sp = sum_parts(t)
            if sp and sp[0] == INT:
                return test.args[0].id, "int"
            raise TranslateError(f"isinstance(…, int) on {t}")
        return None

    # ------------------------------------------------------------------ stateful calls
    def classify(self, n):
        """None for a pure call; otherwise (kind, key, receiver node or None)"""
        ctx = self.ctx
        if not isinstance(n, ast.Call):
            return None
        f = n.func
        if isinstance(f, ast.Attribute):
            # super().__init__()
            if isinstance(f.value, ast.Call) and isinstance(f.value.func, ast.Name) and f.value.func.id == "super" \
                    and not f.value.args:
                return ("super", f.attr, None)
            if isinstance(f.value, ast.Name) and f.value.id == "self" and "self" not in self.env:
                if f.attr in ctx.methods:
                    return ("method", f.attr, None)
                if "self." + f.attr in ctx.externals:
                    return ("external", "self." + f.attr, None)
                raise TranslateError(f"self.{f.attr}(…) is neither a declared method nor a declared external")
            if isinstance(f.value, ast.Attribute) and isinstance(f.value.value, ast.Name) and f.value.value.id == "self" \
                    and "self" not in self.env:
                key = f"self.{f.value.attr}.{f.attr}"
                if key in ctx.externals:
                    return ("external", key, None)
                if f.value.attr in ctx.fields and f.attr == "append":
                    return None
                raise TranslateError(f"{key}(…) is not a declared external")
            if isinstance(f.value, ast.Name) and f.value.id in self.env:
                key = f"{self.env[f.value.id]}.{f.attr}"
                if key in ctx.externals:
                    return ("external", key, f.value)
            if isinstance(f.value, ast.Name) and f.value.id not in self.env:
                key = f"{f.value.id}.{f.attr}"   # module.function
                if key in ctx.externals:
                    return ("external", key, None)
            return None
        if isinstance(f, ast.Name) and f.id in ctx.externals and f.id not in self.env:
            return ("external", f.id, None)
        return None

    def has_stateful(self, node):
        for x in ast.walk(node):
            if isinstance(x, ast.Call) and self.classify(x):
                return True
        return False

    def call_text(self, kind, key, args):
        """args: [(lean text, type)] -> (lean text of the call applied to `self`, result type)"""
        ctx = self.ctx
        if kind == "method":
            ats, rt = ctx.methods[key]
            translate_method(ctx, key)  # make sure the callee exists (raises if it cannot be translated)
            head = f"{ctx.ns}.{ctx.lean_method_name(key)} ext self"
            if len(args) < len(ats):
                # omitted trailing parameters: only the default `None` of an `Option` parameter is translated
                fa = ast.parse(textwrap.dedent(inspect.getsource(ctx.function_of(key)))).body[0].args
                params = [a.arg for a in fa.args][1:]
                defaults = dict(zip(reversed(params), reversed(fa.defaults)))
                args = list(args)
                for pname, t in list(zip(params, ats))[len(args):]:
                    d = defaults.get(pname)
                    if not (isinstance(d, ast.Constant) and d.value is None and opt_part(t) is not None):
                        raise TranslateError(f"call of {key} omits parameter {pname} whose default is not None")
                    args.append((f"(none : {t})", t))
        else:
            ats, rt = ctx.externals[key]
            head = f"ext.{ctx.ext_field(key)} self"
        got = [t for _, t in args]
        if got != list(ats):
            raise TranslateError(f"call of {key} with argument types {got}, declared {list(ats)}")
        return "(" + " ".join([head] + [a for a, _ in args]) + ")", rt

    def hoist(self, node):
        """-> (translator whose env knows the temporaries, [(tmp, call text, type)], rewritten node without stateful calls)"""
        h = _Hoist(self)
        new = h.visit(node)
        return h.t, h.binds, new

    def chain(self, binds, inner):
        for v, text, t in reversed(binds):
            pat = "_" if v is None else _name(v)
            inner = (f"match {text} with\n  | (self, .raised e) => {self.fail('e')}\n  | (self, .ok {pat}) =>\n  {inner}")
        return inner

    # ------------------------------------------------------------------ statements
    def block(self, stmts, tail=None):
        ctx = self.ctx
        if not stmts:
            if tail is not None:
                return tail(self)
            if self.ret == UNIT:
                return self.ok("()")
            raise TranslateError("block falls off the end of a method that returns a value")
        s, rest = stmts[0], stmts[1:]
        if isinstance(s, ast.Expr) and isinstance(s.value, ast.Constant) and isinstance(s.value.value, str):
            return self.block(rest, tail)
        if isinstance(s, ast.Pass):
            return self.block(rest, tail)
        if isinstance(s, ast.AnnAssign) and s.value is None:
            return self.block(rest, tail)      # `state: StateVector` – a bare annotation does nothing
        if isinstance(s, ast.AnnAssign):
            s = ast.Assign(targets=[s.target], value=s.value)
        if isinstance(s, ast.Return):
            if self.in_loop:
                raise TranslateError("return inside a loop body")
            if s.value is None:
                if self.ret != UNIT:
                    raise TranslateError("bare return in a method that returns a value")
                return self.ok("()")
            t2, binds, node = self.hoist(s.value)
            v, t = t2.e(node)
            if t != self.ret:
                raise TranslateError(f"return type {t}, declared {self.ret}")
            if binds and isinstance(node, ast.Name) and node.id == binds[-1][0] and self.pack == "self" \
                    and self.cleanup is None:
                # `return <stateful call>`: the call's (state, result) IS the method's (state, result)
                return self.chain(binds[:-1], binds[-1][1])
            return self.chain(binds, t2.ok(v))
        if isinstance(s, ast.Raise):
            cls = s.exc.func if isinstance(s.exc, ast.Call) else s.exc
            if not isinstance(cls, ast.Name) or cls.id not in EXC:
                raise TranslateError("raise of an unknown exception class")
            if s.exc is not None and self.has_stateful(s.exc):
                raise TranslateError("stateful call in an exception message")
            return self.fail(EXC[cls.id])
        if isinstance(s, (ast.Assign, ast.AugAssign)):
            tgt = s.targets[0] if isinstance(s, ast.Assign) else s.target
            if isinstance(s, ast.Assign) and len(s.targets) != 1:
                raise TranslateError("multiple assignment targets")
            # ---- self.f = e / self.f += e
            if isinstance(tgt, ast.Attribute) and isinstance(tgt.value, ast.Name) and tgt.value.id == "self":
                f = tgt.attr
                if f not in ctx.fields:
                    raise TranslateError(f"assignment to undeclared field self.{f}")
                value = s.value if isinstance(s, ast.Assign) else ast.BinOp(
                    left=ast.Attribute(value=ast.Name(id="self", ctx=ast.Load()), attr=f, ctx=ast.Load()), op=s.op,
                    right=s.value)
                if isinstance(value, (ast.List, ast.Tuple)) and not value.elts and is_list(ctx.fields[f]):
                    t2, binds, v, t = self, [], "[]", ctx.fields[f]
                else:
                    t2, binds, node = self.hoist(value)
                    v, t = t2.e(node)
                if t != ctx.fields[f]:
                    raise TranslateError(f"self.{f} : {ctx.fields[f]} assigned a value of type {t}")
                return self.chain(binds, f"let self := {{ self with {_fld(f)} := {v} }}\n  {t2.block(rest, tail)}")
            # ---- d["k"] = e
            if isinstance(tgt, ast.Subscript) and isinstance(tgt.value, ast.Name) and isinstance(s, ast.Assign) \
                    and self.env.get(tgt.value.id, "").startswith("OQ.PyS.Dict"):
                if not (isinstance(tgt.slice, ast.Constant) and isinstance(tgt.slice.value, str)):
                    raise TranslateError("dict key is not a string constant")
                t2, binds, node = self.hoist(s.value)
                d = tgt.value.id
                return self.chain(binds, f"let {_name(d)} : {self.env[d]} := OQ.PyS.dictSet {self.e(tgt.slice)[0]} "
                                         f"{t2.val(node)} {_name(d)}\n  {t2.block(rest, tail)}")
            # ---- v[i] = e on an opaque value (a numpy array): the external `<T>.__setitem__` returns the updated object
            if isinstance(tgt, ast.Subscript) and isinstance(tgt.value, ast.Name) and isinstance(s, ast.Assign) \
                    and f"{self.env.get(tgt.value.id, '?')}.__setitem__" in ctx.externals \
                    and not isinstance(tgt.slice, ast.Slice):
                v = tgt.value.id
                call = ast.Call(func=ast.Attribute(value=ast.Name(id=v, ctx=ast.Load()), attr="__setitem__", ctx=ast.Load()),
                                args=[tgt.slice, s.value], keywords=[])
                return self.block([ast.Assign(targets=[ast.Name(id=v, ctx=ast.Store())], value=call)] + rest, tail)
            # ---- x = e / x += e
            if isinstance(tgt, ast.Name):
                name = tgt.id
                value = s.value if isinstance(s, ast.Assign) else ast.BinOp(left=ast.Name(id=name, ctx=ast.Load()),
                                                                            op=s.op, right=s.value)
                t2, binds, node = self.hoist(value)
                if binds and isinstance(node, ast.Name) and node.id == binds[-1][0]:
                    binds[-1] = (name, binds[-1][1], binds[-1][2])   # x = <stateful call>: bind the result directly
                    return self.chain(binds, t2.sub({name: binds[-1][2]}).block(rest, tail))
                v, t = t2.e(node)
                if name in self.env and self.env[name] != t and self.in_loop:
                    raise TranslateError(f"loop changes the type of {name}")
                return self.chain(binds, f"let {_name(name)} : {t} := {v}\n  {t2.sub({name: t}).block(rest, tail)}")
            raise TranslateError("assignment target")
        if isinstance(s, ast.Expr) and isinstance(s.value, ast.Call):
            c = s.value
            # self.f.append(e)
            if isinstance(c.func, ast.Attribute) and c.func.attr == "append" and isinstance(c.func.value, ast.Attribute) \
                    and isinstance(c.func.value.value, ast.Name) and c.func.value.value.id == "self" \
                    and c.func.value.attr in ctx.fields and len(c.args) == 1 and not c.keywords:
                f = c.func.value.attr
                t2, binds, node = self.hoist(c.args[0])
                v, t = t2.e(node)
                if ctx.fields[f] != list_of(t):
                    raise TranslateError(f"append of {t} to self.{f} : {ctx.fields[f]}")
                return self.chain(binds, f"let self := {{ self with {_fld(f)} := self.{_fld(f)} ++ [{v}] }}\n  "
                                         f"{t2.block(rest, tail)}")
            if not self.classify(c):
                raise TranslateError("expression statement that is not a stateful call")
            t2, binds, node = self.hoist(c)
            if not (isinstance(node, ast.Constant) and node.value is None):   # (a no-op super().__init__() leaves nothing)
                binds[-1] = (None, binds[-1][1], binds[-1][2])
            return self.chain(binds, t2.block(rest, tail))
        if isinstance(s, ast.If):
            t2, binds, test = self.hoist(s.test)
            ends_a, ends_b = tr._ends(s.body), bool(s.orelse) and tr._ends(s.orelse)
            a_stmts = s.body + ([] if ends_a else rest)
            b_stmts = (s.orelse or []) + ([] if ends_b else rest)
            nar = t2.narrowing(test)
            if nar:
                v, kind = nar
                if kind in ("notnone", "notint"):
                    a_stmts, b_stmts = b_stmts, a_stmts
                if kind in ("none", "notnone"):
                    inner_t = opt_part(t2.env[v])
                    a = t2.block(a_stmts, tail)
                    b = t2.sub({v: inner_t}).block(b_stmts, tail)
                    return self.chain(binds, f"match {_name(v)} with\n  | none =>\n  ({a})\n  | some {_name(v)} =>\n  ({b})")
                ta, tb = sum_parts(t2.env[v])
                a = t2.sub({v: ta}).block(a_stmts, tail)
                b = t2.sub({v: tb}).block(b_stmts, tail)
                return self.chain(binds, f"match {_name(v)} with\n  | .inl {_name(v)} =>\n  ({a})\n  | .inr {_name(v)} =>\n  ({b})")
            c, _ = t2.truthy(test)
            a = t2.block(a_stmts, tail)
            b = t2.block(b_stmts, tail)
            return self.chain(binds, f"if {c} then\n  ({a})\n  else\n  ({b})")
        if isinstance(s, ast.For) and not s.orelse:
            return self._for(s, rest, tail)
        if isinstance(s, ast.With):
            return self._with(s, rest, tail)
        raise TranslateError(f"statement {type(s).__name__}")

    def _with(self, s, rest, tail):
        """`with <stateful call> as f: body` – the call's result is the handle (a file object: `__enter__` returns the object
        itself), `<T>.__exit__(f)` is an external that runs on every way out of the body (fall-through, `return`, `raise`, an
        exception of a call) and never suppresses an exception (assumption; true of file objects)"""
        if self.in_loop or self.cleanup is not None:
            raise TranslateError("`with` inside a loop / nested `with`")
        if len(s.items) != 1 or not isinstance(s.items[0].optional_vars, ast.Name):
            raise TranslateError("`with` form")
        f = s.items[0].optional_vars.id
        t2, binds, node = self.hoist(s.items[0].context_expr)
        if not (binds and isinstance(node, ast.Name) and node.id == binds[-1][0]):
            raise TranslateError("`with` over something that is not an external call")
        ft = binds[-1][2]
        binds[-1] = (f, binds[-1][1], ft)
        key = f"{ft}.__exit__"
        if key not in self.ctx.externals:
            raise TranslateError(f"{key} is not a declared external")
        exit_call = f"(ext.{self.ctx.ext_field(key)} self {_name(f)})"
        inside = TS({**t2.env, f: ft}, self.ret, self.ctx, self.pack, self.owner, False, exit_call)

        def after(t):
            out = TS(t.env, t.ret, t.ctx, t.pack, t.owner, False, None)
            return (f"match {exit_call} with\n  | (self, .raised e) => {out.fail('e')}\n  | (self, .ok _) =>\n  "
                    f"{out.block(rest, tail)}")
        return self.chain(binds, inside.block(s.body, tail=after))

    def _for(self, s, rest, tail):
        ctx = self.ctx
        t2, binds, it_node = self.hoist(s.iter)
        it, tit = t2.e(it_node)
        if not is_list(tit):
            raise TranslateError("for over non-list")
        te = elem(tit)
        carried = [x for x in _assigned_locals(s.body) if x in t2.env]
        targets = [x.id for x in ast.walk(s.target) if isinstance(x, ast.Name)]
        if any(x in carried for x in targets):
            raise TranslateError("loop variable reassigned")
        tys = [t2.env[x] for x in carried]
        sigma = " × ".join([f"({ctx.state_t})"] + [f"({t})" for t in tys])
        pack = "self" if not carried else "(" + ", ".join(["self"] + [_name(x) for x in carried]) + ")"

        def unpack(var):
            if not carried:
                return f"let self := {var}\n    "
            out = f"let self := {var}.1\n    "
            for k, (x, t) in enumerate(zip(carried, tys)):
                proj = var + ".2" * (k + 1) + ("" if k == len(carried) - 1 else ".1")
                out += f"let {_name(x)} : {t} := {proj}\n    "
            return out

        var = s.target.id if isinstance(s.target, ast.Name) else "p__"
        env, lets, _ = t2._bind_target(s.target, te, var)
        body_t = TS({**t2.env, **env}, UNIT, ctx, pack, self.owner, in_loop=True)
        body = body_t.block(s.body, tail=lambda t: t.ok("()"))
        lets = lets.replace("; ", "\n    ")
        after = t2.block(rest, tail)
        loop = (f"match OQ.PyS.forEach (fun (st : {sigma}) ({_name(var)} : {te}) =>\n    {unpack('st')}{lets}{body}) {pack} {it} with\n"
                f"  | (st, .raised e) =>\n    ({unpack('st')}{t2.fail('e')})\n"
                f"  | (st, .ok _) =>\n    {unpack('st')}{after}")
        return self.chain(binds, loop)


def _fld(f):
    return f"«{f}»" if f in LEAN_KEYWORDS else f


def _assigned_locals(stmts):
    out = []

    class V(ast.NodeVisitor):
        def generic_visit(self, n):
            if isinstance(n, (ast.Return, ast.Break, ast.Continue, ast.While, ast.Try, ast.With, ast.FunctionDef, ast.Lambda)):
                raise TranslateError(f"{type(n).__name__} inside a loop body")
            tgts = []
            if isinstance(n, ast.Assign):
                tgts = n.targets
            elif isinstance(n, (ast.AugAssign, ast.AnnAssign)):
                tgts = [n.target]
            elif isinstance(n, ast.For):
                tgts = [x for x in ast.walk(n.target) if isinstance(x, ast.Name)]
            for t in tgts:
                if isinstance(t, ast.Name):
                    if t.id not in out:
                        out.append(t.id)
                elif isinstance(t, ast.Subscript) and isinstance(t.value, ast.Name):
                    if t.value.id not in out:
                        out.append(t.value.id)
                elif isinstance(t, ast.Attribute):
                    pass  # self.f – part of `self`
                else:
                    raise TranslateError("assignment target in a loop")
            super().generic_visit(n)

    for s in stmts:
        V().visit(s)
    return out


class _Hoist:
    """rewrites an expression so that every stateful call becomes a temporary bound beforehand, in evaluation order"""

    def __init__(self, t):
        self.t = t
        self.binds = []

    def refuse(self, node, where):
        if node is not None and self.t.has_stateful(node):
            raise TranslateError(f"stateful call {where}")

    def visit(self, n):
        t = self.t
        if n is None or not t.has_stateful(n):
            return n
        if isinstance(n, ast.Call):
            k = t.classify(n)
            if k:
                kind, key, recv = k
                if n.keywords:
                    raise TranslateError("keyword arguments in a stateful call")
                if kind == "super":
                    return self._super(n, key)
                arg_nodes = ([recv] if recv is not None else []) + [self.visit(a) for a in n.args]
                args = [self.t.e(a) for a in arg_nodes]
                text, rt = self.t.call_text(kind, key, args)
                return self._bind(text, rt)
            return ast.Call(func=self.visit_func(n.func), args=[self.visit(a) for a in n.args], keywords=n.keywords)
        if isinstance(n, ast.BoolOp):
            first = self.visit(n.values[0])
            for v in n.values[1:]:
                self.refuse(v, "under a short-circuit operator")
            return ast.BoolOp(op=n.op, values=[first] + n.values[1:])
        if isinstance(n, ast.IfExp):
            test = self.visit(n.test)
            self.refuse(n.body, "in a conditional expression")
            self.refuse(n.orelse, "in a conditional expression")
            return ast.IfExp(test=test, body=n.body, orelse=n.orelse)
        if isinstance(n, ast.ListComp):
            return self._comprehension(n)
        if isinstance(n, (ast.GeneratorExp, ast.SetComp, ast.DictComp, ast.Lambda)):
            raise TranslateError("stateful call inside a generator / lambda")
        if isinstance(n, ast.BinOp):
            left = self.visit(n.left)
            return ast.BinOp(left=left, op=n.op, right=self.visit(n.right))
        if isinstance(n, ast.UnaryOp):
            return ast.UnaryOp(op=n.op, operand=self.visit(n.operand))
        if isinstance(n, ast.Compare):
            left = self.visit(n.left)
            return ast.Compare(left=left, ops=n.ops, comparators=[self.visit(c) for c in n.comparators])
        if isinstance(n, (ast.Tuple, ast.List)):
            return type(n)(elts=[self.visit(x) for x in n.elts], ctx=ast.Load())
        if isinstance(n, ast.Dict):
            ks, vs = [], []
            for k_, v_ in zip(n.keys, n.values):
                ks.append(self.visit(k_))
                vs.append(self.visit(v_))
            return ast.Dict(keys=ks, values=vs)
        if isinstance(n, ast.Subscript):
            val = self.visit(n.value)
            return ast.Subscript(value=val, slice=self.visit(n.slice), ctx=ast.Load())
        if isinstance(n, ast.Attribute):
            return ast.Attribute(value=self.visit(n.value), attr=n.attr, ctx=ast.Load())
        raise TranslateError(f"stateful call inside {type(n).__name__}")

    def visit_func(self, f):
        if isinstance(f, ast.Attribute):
            return ast.Attribute(value=self.visit(f.value), attr=f.attr, ctx=ast.Load())
        return f

    def _bind(self, text, rt):
        tmp = self.t.ctx.fresh()
        self.binds.append((tmp, text, rt))
        self.t = self.t.sub({tmp: rt})
        return ast.Name(id=tmp, ctx=ast.Load())

    def _super(self, n, meth):
        t, ctx = self.t, self.t.ctx
        if meth != "__init__" or n.args:
            raise TranslateError("super() call other than super().__init__()")
        mro = list(ctx.cls.__mro__)
        for k in mro[mro.index(t.owner) + 1:]:
            if "__init__" in k.__dict__:
                break
        else:
            raise TranslateError("no __init__ after the owner in the MRO")
        if k in ctx.translated_classes:
            key = f"{k.__name__}.__init__"
            if key not in ctx.methods:
                raise TranslateError(f"{key} is not declared in the spec")
            text, rt = t.call_text("method", key, [])
            return self._bind(text, rt)
        if getattr(k.__dict__["__init__"], "__module__", None) not in ("builtins", "abc", "typing"):
            raise TranslateError(f"super().__init__() resolves to {k.__module__}.{k.__name__}, which is not translated")
        if k.__name__ not in ctx.noop_supers:
            ctx.noop_supers.append(k.__name__)
        return ast.Constant(value=None)   # object / ABC / Protocol __init__: nothing happens

    def _comprehension(self, n):
        """[<elt with stateful calls> for t in xs] -> PyS.collectEach"""
        if len(n.generators) != 1 or n.generators[0].ifs or n.generators[0].is_async:
            raise TranslateError("stateful comprehension with several generators / a filter")
        g = n.generators[0]
        it_node = self.visit(g.iter)
        t = self.t
        it, tit = t.e(it_node)
        if not is_list(tit):
            raise TranslateError("comprehension over non-list")
        te = elem(tit)
        var = g.target.id if isinstance(g.target, ast.Name) else "p__"
        env, lets, _ = t._bind_target(g.target, te, var)
        body_t = TS({**t.env, **env}, None, t.ctx, "self", t.owner)
        t2, binds, node = body_t.hoist(n.elt)
        v, tv = t2.e(node)
        if binds and isinstance(node, ast.Name) and node.id == binds[-1][0]:
            body = body_t.chain(binds[:-1], binds[-1][1])
        else:
            body = body_t.chain(binds, t2.ok(v))
        lets = lets.replace("; ", "\n    ")
        text = (f"(OQ.PyS.collectEach (fun (self : {t.ctx.state_t}) ({_name(var)} : {te}) =>\n    {lets}{body}) self {it})")
        return self._bind(text, list_of(tv))


def translate_method(ctx, key):
    """translate one method of the concrete class (and, through call_text, the methods it calls); memoised in ctx"""
    if key in ctx.done:
        return ctx.done[key]
    if key in ctx.failed:
        raise TranslateError(f"depends on {key}: {ctx.failed[key]}")
    if key in ctx.spec.setdefault("_in_progress", set()):
        raise TranslateError(f"recursive method {key}")
    ctx.spec["_in_progress"].add(key)
    try:
        fn = ctx.function_of(key)
        src = textwrap.dedent(inspect.getsource(fn))
        node = ast.parse(src).body[0]
        if not isinstance(node, ast.FunctionDef):
            raise TranslateError("not a function")
        a = node.args
        if a.vararg or a.kwarg or a.posonlyargs:
            raise TranslateError("*args / **kwargs")
        names = [x.arg for x in a.args] + [x.arg for x in a.kwonlyargs]
        if not names or names[0] != "self":
            raise TranslateError("first parameter is not self")
        names = names[1:]
        ats, ret = ctx.methods[key]
        if len(names) != len(ats):
            raise TranslateError(f"{key}: {len(names)} parameters, {len(ats)} declared types")
        if "ext" in names or "self" in names:
            raise TranslateError("parameter name clashes with the translation's own names")
        owner = next(k for k in ctx.cls.__mro__ if k.__qualname__ == fn.__qualname__.rsplit(".", 1)[0])
        body = TS(dict(zip(names, ats)), ret, ctx, "self", owner).block(node.body)
        lean = ctx.lean_method_name(key)
        tps = " ".join(ctx.opaque)
        binders = " ".join(f"({_name(n)} : {t})" for n, t in zip(names, ats))
        where = f"{inspect.getsourcefile(fn).split('/src/')[-1]}:{fn.__qualname__}"
        text = (f"/-- translated from `{where}` (as resolved for `{ctx.cls.__name__}`) -/\n"
                f"def {ctx.ns}.{lean} {{{tps} : Type}} (ext : {ctx.ext_t}) (self : {ctx.state_t}) {binders} : "
                f"{ctx.state_t} × OQ.PyS.Result {tr.paren(ret)} :=\n  {body}\n")
        ctx.done[key] = lean
        ctx.spec.setdefault("_texts", []).append((key, text))
        return lean
    except Exception as e:
        ctx.failed[key] = f"{type(e).__name__}: {e}"
        raise
    finally:
        ctx.spec["_in_progress"].discard(key)


def translate_class(spec):
    """-> (lean text of State, Ext and every method that could be translated, {method key: error message})"""
    spec = dict(spec)
    for k in ("_texts", "_in_progress"):
        spec.pop(k, None)
    ctx = ClassCtx(spec)
    for key in ctx.methods:
        try:
            translate_method(ctx, key)
        except Exception:
            pass
    sp = " ".join(f"({p} : Type)" for p in ctx.state_params)
    out = [f"/-- the fields of a `{ctx.cls.__name__}` object that its methods read or assign, and `world`: everything outside the "
           f"object that external calls may read or change -/",
           f"structure {ctx.ns}.State {sp} where"]
    for f, t in ctx.fields.items():
        out.append(f"  {_fld(f)} : {t}")
    out += ["  world : ω", "deriving DecidableEq, Repr", ""]
    tp = " ".join(f"({p} : Type)" for p in ctx.opaque)
    out += [f"/-- the externals of `{ctx.cls.__name__}`: calls may change the state in any way and may raise -/",
            f"structure {ctx.ns}.Ext {tp} where"]
    for key in sorted(ctx.externals):
        ats, rt = ctx.externals[key]
        sig = " → ".join([ctx.state_t] + [tr.paren(t) if " " in t else t for t in ats] +
                         [f"{tr.paren(ctx.state_t)} × OQ.PyS.Result {tr.paren(rt)}"])
        out.append(f"  /-- `{key}(…)` -/\n  {ctx.ext_field(key)} : {sig}")
    for (ty, chain) in sorted(ctx.attrs):
        out.append(f"  /-- attribute `{chain}` of a value of type `{ty}` (pure) -/\n"
                   f"  attr_{ty}_{chain.replace('.', '_')} : {ty} → {ctx.attrs[(ty, chain)]}")
    for name in sorted(ctx.method_refs):
        out.append(f"  /-- the bound method `self.{name}` passed as a value (pure) -/\n  ref_{name} : {ctx.method_refs[name]}")
    if not ctx.externals and not ctx.attrs:
        out.append("  unit : Unit := ()")
    out.append("")
    for key, text in spec.get("_texts", []):
        out.append(text)
    for key, msg in ctx.failed.items():
        out.append(f"-- {ctx.ns}.{ctx.lean_method_name(key)}: NOT TRANSLATABLE ({msg}) — the current source left the supported subset\n")
    if ctx.noop_supers:
        out.append(f"-- assumption: `super().__init__()` reaching {', '.join(ctx.noop_supers)} does nothing\n")
    return "\n".join(out), dict(ctx.failed)
