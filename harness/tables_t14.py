"""T14: generated driver glue for the translated shot-bookkeeping definitions (see harness/translated_check_t14.py)."""
from .extract import table


@table("TranslatedDriverT14.lean")
def translated_driver_t14():
    from . import translated_check_t14
    return translated_check_t14.driver_text()
