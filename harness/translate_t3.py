"""Extension of the Python -> Lean translator (harness/translate.py) to functions over OPAQUE objects with METHODS, to callables,
overloaded operators, sets, `None` defaults and recursion on lists (work package T3: properties C08, C16, C18).

Everything of harness/translate.py stays available (this module subclasses `translate.T`).  Added:

Opaque types.  A spec names several opaque types (Greek letters, e.g. ρ = a decomposition rule, ω = an operation, γ = a circuit);
  they become implicit type parameters `{ρ ω γ : Type}` of the translated definition.  The function may only pass such objects
  around and use them through DECLARED EXTERNALS; every external is an explicit parameter of the translated definition (all
  declared externals, in declared order, so the signature does not depend on the function body):
    "ρ.predicate(_)"             a method call  `r.predicate(op)`                 ->  meth_predicate : ρ → ω → Bool
    "γ.operations"               an attribute   `c.operations` (chains compose)   ->  attr_operations : γ → List ω
    "Circuit(_,n_qubits=_)"      a call of a module-level name with that shape    ->  ext_Circuit : List ω → Int → γ
    "Circuit()"                  (each call shape is its own external)            ->  ext_Circuit0 : γ
    "φ(_)" / "φ(*_)"             calling an opaque VALUE (`gate_factory(qubit)`, `gate_factory(*row)`)
    "γ+ω", "τ/Int"               an overloaded binary operator on opaque operands.  `x += e` on an opaque `x` is rendered as the
                                 REBINDING `x = x + e` (value semantics) only if the spec names the Python class of the type and that
                                 class defines no `__iadd__` (checked on the imported class on every run) – otherwise TranslateError.
    "set(_)"                     `set(xs)` for a list of ints: a Python set is represented by the list of its elements in ITERATION
                                 ORDER (`OQ.Py.PySet Int`, an abbreviation of `List Int`); the order is the external
                                 `ext_set_order : List Int → PySet Int` (its law – duplicate-free, same elements – is a hypothesis of
                                 theorems, not of the translation).  On a set only `len`, `for … in`, `zip(s, …)` and `in` are rendered.
    "isinstance(ω,GateOperation)"  `isinstance(x, C)`                             ->  isinstance_GateOperation : ω → Bool
  All externals are TOTAL functions: the translated definition describes the Python function on the domain where the objects'
  methods / constructors / operators do not raise (a raising external aborts the Python function; tie theorems say so).
Statements.
  * `if not xs: <returns>` immediately followed by `a, *b = xs` (same list `xs`)   ->   `match xs with | [] => … | a :: b => …`
    (`not xs` holds exactly for the empty list; the unpacking binds head and tail of a non-empty one).  A bare `a, *b = xs` is
    accepted in partial functions only (`[]` raises ValueError -> `none`).
  * recursion: a call of the function being translated is accepted iff at the position of a list parameter `xs` it passes the tail
    `b` bound by `a, *b = xs` (and `b` was not reassigned): the definition is then emitted with `termination_by structural xs`,
    no `partial`.  Any other self-call raises TranslateError (e.g. recursing on `xs` itself, which need not terminate).
  * `assert c` (partial functions) -> `if c then … else none`;  `warn(…)` where `warn` is `warnings.warn` is SKIPPED (no effect on
    the returned value; stated in the tie theorems' docstrings).
  * `if x is not None:` / `if x is None:` on a parameter of type `Option T`  ->  `match x with | some x => … | none => …` (in the
    `some` branch `x : T`); `typing.cast(T, e)` is `e`.
  * `for a, b in <list of pairs>` (tuple targets), nested `for` loops, and names first assigned INSIDE a loop body (they are local to
    one iteration in the rendering; using them after the loop, or before their assignment in the body, is an unknown name ->
    TranslateError).  Loops remain `List.foldl` over the loop-carried variables.
  * `return f(…)` / `x = f(…)` where `f` is an already translated PARTIAL function (`Option`): rendered with a `match` on the result.
  * `try: … except E: raise …` (every handler only re-raises; partial functions): the body (an exception still raises).
Expressions.  `all(…)` / `any(…)` of a list of bools, `type(x)(…)` for an opaque `x` (external "type(γ)(…)": a new object of x's class),
  `x.a(*args)` where `x.a` is a declared attribute holding an opaque callable, `[e, …]` of opaque elements (a list), `(a, *xs)`
  (cons), `not xs` on a list (`xs.isEmpty`), `x is None` / `x is not None`,
  `reversed(xs)`, `chain.from_iterable(xss)` where `chain` is `itertools.chain` (`xss.flatten`), `list` / `tuple` of a list.
Methods of classes are translated like functions (`self` is an ordinary opaque parameter).
"""
import ast
import builtins
import inspect
import itertools
import textwrap
import typing
import warnings

from . import translate as tr
from .translate import TranslateError, INT, BOOL, is_list, elem, list_of

PYSET = "OQ.Py.PySet Int"


def opt_of(t):
    return f"Option ({t})" if " " in t else f"Option {t}"


def is_opt(t):
    return t.startswith("Option ")


def opt_elem(t):
    e = t[len("Option "):]
    if e.startswith("(") and e.endswith(")") and tr._balanced(e[1:-1]):
        e = e[1:-1]
    return e


class Ext:
    def __init__(self, key, name, args, ret):
        self.key, self.name, self.args, self.ret = key, name, list(args), ret

    def lean_type(self):
        return " → ".join([tr.paren(a) if "→" in a or "×" in a else a for a in self.args] + [self.ret])


class Ctx:
    """per-function configuration shared by all sub-translators"""

    def __init__(self, fn, lean_name, names, arg_types, ret, partial, types, ext, classes):
        self.fn, self.lean_name, self.names, self.arg_types, self.ret, self.partial = fn, lean_name, names, arg_types, ret, partial
        self.types = list(types)
        self.ext = {}
        for key, name, args, r in ext:
            if key in self.ext or any(x.name == name for x in self.ext.values()):
                raise TranslateError(f"external {key} / {name} declared twice")
            self.ext[key] = Ext(key, name, args, r)
        self.classes = dict(classes or {})
        self.globals = getattr(fn, "__globals__", {})
        self.py_name = fn.__name__
        self.tails = {}        # list parameter -> name of the tail bound by `a, *b = parameter`
        self.recursive_on = set()

    def opaque(self, t):
        return t in self.types

    def ext_args(self):
        return " ".join(x.name for x in self.ext.values())

    def glob(self, name):
        return self.globals.get(name, getattr(builtins, name, None))


class T3(tr.T):
    KNOWN3 = {}  # python name -> dict(lean=…, args=[…], ret=…, partial=bool, ext=[names of the callee's external parameters])

    def __init__(self, env, ret, partial, ctx, attrs=None, local_types=None):
        super().__init__(env, ret, partial, attrs, local_types)
        self.ctx = ctx

    def sub(self, extra):
        return T3({**self.env, **extra}, self.ret, self.partial, self.ctx, self.attrs, self.local_types)

    # ------------------------------------------------------------------ externals
    def use(self, key, args):
        """args: [(text, type)] -> (lean text, type) of the application of the declared external `key`"""
        x = self.ctx.ext.get(key)
        if x is None:
            raise TranslateError(f"undeclared external {key}")
        ts = [t for _, t in args]
        if ts != x.args:
            raise TranslateError(f"external {key} applied to {ts}, declared {x.args}")
        if not args:
            return x.name, x.ret
        return "(" + x.name + " " + " ".join(a for a, _ in args) + ")", x.ret

    # ------------------------------------------------------------------ expressions
    def e(self, n):
        c = self.ctx
        if isinstance(n, ast.List) and n.elts and not any(isinstance(v, ast.Starred) for v in n.elts):
            parts = [self.e(v) for v in n.elts]
            if all(t == parts[0][1] for _, t in parts):
                return "[" + ", ".join(p for p, _ in parts) + "]", list_of(parts[0][1])
            raise TranslateError("list literal of mixed types")
        if isinstance(n, (ast.Tuple, ast.List)) and any(isinstance(v, ast.Starred) for v in n.elts):
            # (a, b, *xs): only a trailing starred list
            *heads, last = n.elts
            if not isinstance(last, ast.Starred) or any(isinstance(v, ast.Starred) for v in heads):
                raise TranslateError("starred element not in last position")
            xs, txs = self.e(last.value)
            if not is_list(txs):
                raise TranslateError("starred non-list")
            hs = [self.e(v) for v in heads]
            if any(t != elem(txs) for _, t in hs):
                raise TranslateError("starred literal of mixed types")
            out = xs
            for h, _ in reversed(hs):
                out = f"({h} :: {out})"
            return out, txs
        if isinstance(n, ast.UnaryOp) and isinstance(n.op, ast.Not):
            v, t = self.e(n.operand)
            if is_list(t):
                return f"({v}.isEmpty)", BOOL
            if t == BOOL:
                return f"(!{v})", BOOL
            raise TranslateError(f"not on {t}")
        if isinstance(n, ast.Compare) and len(n.ops) == 1 and isinstance(n.ops[0], (ast.Is, ast.IsNot)) \
                and isinstance(n.comparators[0], ast.Constant) and n.comparators[0].value is None:
            v, t = self.e(n.left)
            if not is_opt(t):
                raise TranslateError(f"`is None` on {t}")
            return (f"({v}.isNone)" if isinstance(n.ops[0], ast.Is) else f"({v}.isSome)"), BOOL
        if isinstance(n, ast.Attribute):
            try:
                v, t = self.e(n.value)
            except TranslateError:
                return super().e(n)
            if c.opaque(t):
                return self.use(f"{t}.{n.attr}", [(v, t)])
            return super().e(n)
        if isinstance(n, ast.BinOp):
            a, ta = self.e(n.left)
            b, tb = self.e(n.right)
            if c.opaque(ta) or c.opaque(tb):
                sym = {ast.Add: "+", ast.Sub: "-", ast.Mult: "*", ast.Div: "/", ast.MatMult: "@"}.get(type(n.op))
                if sym is None:
                    raise TranslateError("operator on opaque operands")
                return self.use(f"{ta}{sym}{tb}", [(a, ta), (b, tb)])
            if isinstance(n.op, ast.Add) and ta == tb and is_list(ta):
                return f"({a} ++ {b})", ta
            return super().binop(n)
        return super().e(n)

    def compare(self, n):
        if len(n.ops) == 1 and isinstance(n.ops[0], (ast.In, ast.NotIn)):
            a, ta = self.e(n.left)
            b, tb = self.e(n.comparators[0])
            if tb == PYSET and ta == INT:
                cc = f"({b}.contains {a})"
                return (f"(!{cc})" if isinstance(n.ops[0], ast.NotIn) else cc), BOOL
        return super().compare(n)

    def _shape(self, n):
        pos = []
        for a in n.args:
            pos.append("*_" if isinstance(a, ast.Starred) else "_")
        return "(" + ",".join(pos + [f"{k.arg}=_" for k in n.keywords]) + ")"

    def _call_args(self, n):
        out = []
        for a in n.args:
            out.append(self.e(a.value if isinstance(a, ast.Starred) else a))
        for k in n.keywords:
            if k.arg is None:
                raise TranslateError("**kwargs")
            out.append(self.e(k.value))
        return out

    def call(self, n):
        c = self.ctx
        f = n.func
        # ---- method call on an opaque object / module function such as chain.from_iterable
        if isinstance(f, ast.Attribute):
            if isinstance(f.value, ast.Name) and f.value.id == "chain" and f.attr == "from_iterable" \
                    and f.value.id not in self.env and c.glob("chain") is itertools.chain and len(n.args) == 1 and not n.keywords:
                x, tx = self.e(n.args[0])
                if is_list(tx) and is_list(elem(tx)):
                    return f"({x}.flatten)", elem(tx)
                raise TranslateError("chain.from_iterable of a non-nested list")
            try:
                r, t = self.e(f.value)
            except TranslateError:
                return super().call(n)
            if c.opaque(t):
                key = f"{t}.{f.attr}{self._shape(n)}"
                if key in c.ext or f"{t}.{f.attr}" not in c.ext:
                    return self.use(key, [(r, t)] + self._call_args(n))
                # declared as an attribute holding an opaque callable: `op.gate.dagger(*qs)` = (op.gate.dagger)(*qs)
                r2, t2 = self.e(f)
                if c.opaque(t2):
                    return self.use(f"{t2}{self._shape(n)}", [(r2, t2)] + self._call_args(n))
                raise TranslateError(f"call of an attribute of type {t2}")
            return super().call(n)
        if isinstance(f, ast.Name):
            name = f.id
            # ---- a local / parameter holding an opaque callable
            if name in self.env:
                t = self.env[name]
                if c.opaque(t):
                    return self.use(f"{t}{self._shape(n)}", [(name, t)] + self._call_args(n))
                raise TranslateError(f"call of a local of type {t}")
            # ---- recursion
            if name == c.py_name:
                return self._self_call(n)
            # ---- already translated functions (with externals)
            if name in self.KNOWN3:
                k = self.KNOWN3[name]
                if k["partial"]:
                    raise TranslateError(f"partial function {name} called inside an expression")
                return self._known_call(name, n)
            g = c.glob(name)
            if name == "cast" and g is typing.cast and len(n.args) == 2 and not n.keywords:
                return self.e(n.args[1])
            if name == "isinstance" and len(n.args) == 2 and isinstance(n.args[1], (ast.Name, ast.Attribute)) and not n.keywords:
                v, t = self.e(n.args[0])
                cls = n.args[1].id if isinstance(n.args[1], ast.Name) else n.args[1].attr
                return self.use(f"isinstance({t},{cls})", [(v, t)])
            if name in ("all", "any") and len(n.args) == 1 and not n.keywords:
                v, t = self.e(n.args[0])
                if t == "List Bool":
                    return f"({v}.{name} id)", BOOL
                raise TranslateError(f"{name} of {t}")
            if name == "set" and len(n.args) == 1 and not n.keywords:
                v, t = self.e(n.args[0])
                return self.use("set(_)", [(v, t)])
            if name == "reversed" and len(n.args) == 1 and not n.keywords:
                v, t = self.e(n.args[0])
                if is_list(t):
                    return f"({v}.reverse)", t
                raise TranslateError("reversed of a non-list")
            if name == "len" and len(n.args) == 1 and not n.keywords:
                v, t = self.e(n.args[0])
                if t == PYSET:
                    return f"(({v}.length : Nat) : Int)", INT
            if name == "zip" and len(n.args) == 2 and not n.keywords:
                a, ta = self.e(n.args[0])
                b, tb = self.e(n.args[1])
                la = "List Int" if ta == PYSET else ta
                lb = "List Int" if tb == PYSET else tb
                if is_list(la) and is_list(lb):
                    return f"(List.zip {a} {b})", list_of(f"{tr.paren(elem(la))} × {tr.paren(elem(lb))}")
                raise TranslateError("zip of non-lists")
            # ---- a module-level callable declared as an external (constructor, factory, other function)
            key = f"{name}{self._shape(n)}"
            if key in c.ext:
                if g is None:
                    raise TranslateError(f"{name} is not a global of the module")
                return self.use(key, self._call_args(n))
            if n.keywords or any(isinstance(a, ast.Starred) for a in n.args):
                raise TranslateError(f"call {key} (undeclared)")
            return super().call(n)
        # ---- type(x)(…): a new object of the class of the opaque x (depends on the class only)
        if isinstance(f, ast.Call) and isinstance(f.func, ast.Name) and f.func.id == "type" and "type" not in self.env \
                and len(f.args) == 1 and not f.keywords:
            _, t = self.e(f.args[0])
            if c.opaque(t):
                return self.use(f"type({t}){self._shape(n)}", self._call_args(n))
            raise TranslateError("type(x)(…) of a non-opaque x")
        # ---- calling the result of an expression: gate_factory(*parameter)(qubit)
        r, t = self.e(f)
        if c.opaque(t):
            return self.use(f"{t}{self._shape(n)}", [(r, t)] + self._call_args(n))
        raise TranslateError("call of a non-name")

    def _known_call(self, name, n):
        c = self.ctx
        k = self.KNOWN3[name]
        if n.keywords:
            raise TranslateError("keyword arguments")
        args = [self.e(a) for a in n.args]
        if [t for _, t in args] != list(k["args"]):
            raise TranslateError(f"call of {name} with {[t for _, t in args]}, declared {k['args']}")
        if k.get("spec") is not None:
            # the callee must itself be translatable now (otherwise its definition is missing from the generated file)
            saved = (tr.T.KNOWN, T3.KNOWN3)
            try:
                sp = k["spec"]
                translate_function(sp[0], sp[1], sp[2], sp[3], sp[4], **{kk: v for kk, v in sp[5].items()})
            except Exception as e:
                raise TranslateError(f"callee {name} is not translatable now ({e})")
            finally:
                tr.T.KNOWN, T3.KNOWN3 = saved
        for x in k["ext"]:
            if not any(y.name == x[0] and y.lean_type() == x[1] for y in c.ext.values()):
                raise TranslateError(f"{name} needs the external {x[0]} : {x[1]}, which the caller does not declare")
        pre = " ".join(x[0] for x in k["ext"])
        return "(" + " ".join(p for p in [k["lean"], pre] + [a for a, _ in args] if p) + ")", \
            (opt_of(k["ret"]) if k["partial"] else k["ret"])

    def _self_call(self, n):
        c = self.ctx
        if n.keywords or any(isinstance(a, ast.Starred) for a in n.args) or len(n.args) != len(c.names):
            raise TranslateError("recursive call shape")
        if c.partial:
            raise TranslateError("recursion in a partial function")
        args = [self.e(a) for a in n.args]
        if [t for _, t in args] != list(c.arg_types):
            raise TranslateError(f"recursive call with {[t for _, t in args]}")
        dec = [p for p, a in zip(c.names, n.args) if isinstance(a, ast.Name) and c.tails.get(p) == a.id
               and self.env.get(a.id) == self.env.get(p)]
        if not dec:
            raise TranslateError("recursive call that is not on the tail `b` of a list parameter matched by `a, *b = parameter` "
                                 "(termination is not structural)")
        c.recursive_on.add(dec[0])
        return "(" + " ".join(p for p in [c.lean_name, c.ext_args()] + [a for a, _ in args] if p) + ")", c.ret

    # ------------------------------------------------------------------ statements
    def _drop_tail(self, name):
        for p, b in list(self.ctx.tails.items()):
            if b == name or p == name:
                del self.ctx.tails[p]

    def block(self, stmts, tail=None):
        c = self.ctx
        if not stmts:
            return super().block(stmts, tail)
        s, rest = stmts[0], stmts[1:]
        # ---- warn(...)
        if isinstance(s, ast.Expr) and isinstance(s.value, ast.Call) and isinstance(s.value.func, ast.Name) \
                and s.value.func.id == "warn" and "warn" not in self.env and c.glob("warn") is warnings.warn:
            return self.block(rest, tail)
        # ---- assert
        if isinstance(s, ast.Assert):
            if not self.partial or tail is not None:
                raise TranslateError("assert outside a partial function / inside a loop")
            t, tt = self.e(s.test)
            if tt != BOOL:
                raise TranslateError("assert test")
            return f"if {t} then\n  {self.block(rest, tail)}\n  else\n  none"
        # ---- if not xs: <ends> ; a, *b = xs
        if isinstance(s, ast.If) and not s.orelse and tr._ends(s.body) and rest and self._is_unpack(rest[0]) \
                and isinstance(s.test, ast.UnaryOp) and isinstance(s.test.op, ast.Not) and isinstance(s.test.operand, ast.Name) \
                and isinstance(rest[0].value, ast.Name) and rest[0].value.id == s.test.operand.id and tail is None:
            a = self.block(s.body, tail)
            return self._unpack(rest[0], rest[1:], tail, a)
        if self._is_unpack(s):
            if not self.partial or tail is not None:
                raise TranslateError("`a, *b = xs` without the guard `if not xs: return …` in a total function")
            return self._unpack(s, rest, tail, "none")
        # ---- try: … except E: raise …   (every handler ends in `raise`: an exception in the body still raises)
        if isinstance(s, ast.Try) and not s.finalbody and not s.orelse and s.handlers \
                and all(h.body and isinstance(h.body[-1], ast.Raise) and len(h.body) == 1 for h in s.handlers):
            if not self.partial or tail is not None:
                raise TranslateError("try in a total function / loop body")
            return self.block(s.body + ([] if tr._ends(s.body) else rest), tail)
        # ---- if x is [not] None
        if isinstance(s, ast.If) and isinstance(s.test, ast.Compare) and len(s.test.ops) == 1 \
                and isinstance(s.test.ops[0], (ast.Is, ast.IsNot)) and isinstance(s.test.left, ast.Name) \
                and isinstance(s.test.comparators[0], ast.Constant) and s.test.comparators[0].value is None:
            x = s.test.left.id
            t = self.env.get(x)
            if t is None or not is_opt(t):
                raise TranslateError(f"`{x} is None` on a name of type {t}")
            some_b, none_b = (s.body, s.orelse or []) if isinstance(s.test.ops[0], ast.IsNot) else (s.orelse or [], s.body)
            sb = self.sub({x: opt_elem(t)}).block(some_b + ([] if tr._ends(some_b) else rest), tail)
            env_none = T3({k: v for k, v in self.env.items() if k != x}, self.ret, self.partial, c, self.attrs, self.local_types)
            nb = env_none.block(none_b + ([] if tr._ends(none_b) else rest), tail)
            return f"(match {x} with\n  | some {x} =>\n  {sb}\n  | none =>\n  {nb})"
        # ---- x += e on an opaque x (value semantics, checked)
        if isinstance(s, ast.AugAssign) and isinstance(s.target, ast.Name) and c.opaque(self.env.get(s.target.id, "")):
            name = s.target.id
            t = self.env[name]
            cls = c.classes.get(t)
            if cls is None:
                raise TranslateError(f"augmented assignment on {t}: the spec names no Python class for it")
            meth = {ast.Add: "__iadd__", ast.Sub: "__isub__", ast.Mult: "__imul__", ast.Div: "__itruediv__"}.get(type(s.op))
            if meth is None or hasattr(cls, meth):
                raise TranslateError(f"{cls.__name__} defines {meth}: `{name} {type(s.op).__name__}= …` may mutate in place")
            v, tv = self.e(ast.BinOp(left=ast.Name(id=name, ctx=ast.Load()), op=s.op, right=s.value))
            if tv != t:
                raise TranslateError("augmented assignment changes type")
            self._drop_tail(name)
            return f"let {name} : {t} := {v}\n  {self.block(rest, tail)}"
        # ---- return f(...) / x = f(...) with f a translated partial function
        pc = self._partial_call(s)
        if pc is not None:
            if not self.partial:
                raise TranslateError("call of a partial function in a total one")
            v, t = self._known_call(pc.func.id, pc)
            if isinstance(s, ast.Return):
                if tail is not None:
                    raise TranslateError("return inside a loop body")
                if opt_elem(t) != self.ret:
                    raise TranslateError(f"return type {t}")
                return v
            if tail is not None:
                raise TranslateError("partial call inside a loop body")
            name = s.targets[0].id
            self._drop_tail(name)
            return (f"(match {v} with\n  | none => none\n  | some {name} =>\n  "
                    f"{self.sub({name: opt_elem(t)}).block(rest, tail)})")
        if isinstance(s, ast.Assign) and len(s.targets) == 1 and isinstance(s.targets[0], ast.Name):
            self._drop_tail(s.targets[0].id)
        if isinstance(s, ast.For) and not s.orelse:
            return self._for3(s, rest, tail)
        return super().block(stmts, tail)

    def _partial_call(self, s):
        v = None
        if isinstance(s, ast.Return):
            v = s.value
        elif isinstance(s, ast.Assign) and len(s.targets) == 1 and isinstance(s.targets[0], ast.Name):
            v = s.value
        if isinstance(v, ast.Call) and isinstance(v.func, ast.Name) and v.func.id not in self.env \
                and v.func.id in self.KNOWN3 and self.KNOWN3[v.func.id]["partial"]:
            return v
        return None

    @staticmethod
    def _is_unpack(s):
        return (isinstance(s, ast.Assign) and len(s.targets) == 1 and isinstance(s.targets[0], ast.Tuple)
                and len(s.targets[0].elts) == 2 and isinstance(s.targets[0].elts[0], ast.Name)
                and isinstance(s.targets[0].elts[1], ast.Starred) and isinstance(s.targets[0].elts[1].value, ast.Name))

    def _unpack(self, s, rest, tail, empty_text):
        xs, txs = self.e(s.value)
        if not is_list(txs):
            raise TranslateError("starred unpacking of a non-list")
        a, b = s.targets[0].elts[0].id, s.targets[0].elts[1].value.id
        if a == b:
            raise TranslateError("unpack names")
        self._drop_tail(a)
        self._drop_tail(b)
        if isinstance(s.value, ast.Name) and s.value.id in self.ctx.names and s.value.id not in (a, b):
            self.ctx.tails[s.value.id] = b
        body = self.sub({a: elem(txs), b: txs}).block(rest, tail)
        return f"(match {xs} with\n  | [] =>\n  {empty_text}\n  | {a} :: {b} =>\n  {body})"

    # ---- loops: tuple targets, nested loops, body-local names
    def _for3(self, s, rest, tail):
        it, tit = self.e(s.iter) if not _is_enumerate(s.iter) else (None, None)
        if it is None:
            xs, txs = self.e(s.iter.args[0])
            if not is_list(txs):
                raise TranslateError("enumerate over non-list")
            it, tit = f"(({xs}.zipIdx).map (fun (p : {tr.paren(elem(txs))} × Nat) => (((p.2 : Nat) : Int), p.1)))", \
                list_of(f"Int × {tr.paren(elem(txs))}")
        if tit == PYSET:
            tit = "List Int"
        if not is_list(tit):
            raise TranslateError("for over non-list")
        te = elem(tit)
        assigned = _assigned3(s.body)
        state = [x for x in assigned if x in self.env]
        targets = _target_names(s.target)
        for x in targets:
            if x in state:
                raise TranslateError("loop variable reassigned")
        if not state:
            raise TranslateError("loop without effect")
        for x in state:
            self._drop_tail(x)
        tys = [self.env[x] for x in state]
        st_ty = " × ".join(f"({t})" for t in tys)

        def proj(k):
            if len(state) == 1:
                return "st"
            return "st" + ".2" * k + ("" if k == len(state) - 1 else ".1")

        def tup(env_t):
            for x, t in zip(state, tys):
                if env_t.env.get(x) != t:
                    raise TranslateError(f"loop changes the type of {x}")
            return "(" + ", ".join(state) + ")"

        binds = "".join(f"let {x} : {t} := {proj(k)}\n    " for k, (x, t) in enumerate(zip(state, tys)))
        if isinstance(s.target, ast.Name):
            v = s.target.id if s.target.id != "_" else "_it"
            env = {} if s.target.id == "_" else {s.target.id: te}
        else:
            v = "__p"
            env, lets, _ = self._bind_target(s.target, te, v)
            binds += lets.replace("; ", "\n    ")
        body = self.sub(env).block(s.body, tail=tup)
        after = "".join(f"let {x} : {t} := {proj(k)}\n  " for k, (x, t) in enumerate(zip(state, tys)))
        return (f"let st : {st_ty} := {it}.foldl (fun (st : {st_ty}) ({v} : {te}) =>\n    {binds}{body}) "
                f"({', '.join(state)})\n  {after}{self.block(rest, tail)}")


def _is_enumerate(it):
    return (isinstance(it, ast.Call) and isinstance(it.func, ast.Name) and it.func.id == "enumerate" and len(it.args) == 1
            and not it.keywords)


def _target_names(t):
    if isinstance(t, ast.Name):
        return [t.id]
    if isinstance(t, ast.Tuple) and all(isinstance(x, ast.Name) for x in t.elts):
        return [x.id for x in t.elts]
    raise TranslateError("loop target")


def _assigned3(stmts):
    """names (re)assigned in a loop body (nested loops included), in order of first assignment"""
    out = []

    def add(x):
        if x not in out:
            out.append(x)

    class V(ast.NodeVisitor):
        def generic_visit(self, n):
            if isinstance(n, (ast.Return, ast.Break, ast.Continue, ast.While, ast.Raise, ast.Assert)):
                raise TranslateError(f"{type(n).__name__} inside a loop body")
            if isinstance(n, ast.Assign):
                for t in n.targets:
                    add(tr._target_name(t))
            elif isinstance(n, ast.AugAssign):
                add(tr._target_name(n.target))
            elif isinstance(n, ast.Call) and isinstance(n.func, ast.Attribute) and n.func.attr == "append" \
                    and isinstance(n.func.value, ast.Name):
                add(n.func.value.id)
            super().generic_visit(n)

    for s in stmts:
        V().visit(s)
    return out


def translate_function(fn, lean_name, arg_types, ret, partial=False, attrs=None, local_types=None, known=None, t3=None):
    """`t3` = dict(types=[…], ext=[(key, parameter name, argument types, result type), …], classes={type: Python class},
    known={python name: dict(lean, args, ret, partial, ext=[(parameter name, lean type), …], spec=<the callee's spec entry>)})"""
    t3 = t3 or {}
    fn = getattr(fn, "__wrapped__", fn)
    src = textwrap.dedent(inspect.getsource(fn))
    node = ast.parse(src).body[0]
    if not isinstance(node, ast.FunctionDef):
        raise TranslateError("not a function")
    if node.args.vararg or node.args.kwarg or node.args.kwonlyargs or node.args.posonlyargs:
        raise TranslateError("parameter kinds")
    names = [a.arg for a in node.args.args]
    if len(names) != len(arg_types):
        raise TranslateError("arity")
    ctx = Ctx(fn, lean_name, names, list(arg_types), ret, partial, t3.get("types", []), t3.get("ext", []), t3.get("classes"))
    tr.T.KNOWN = dict(known or {})
    T3.KNOWN3 = dict(t3.get("known") or {})
    body = T3(dict(zip(names, arg_types)), ret, partial, ctx, attrs, local_types).block(node.body)
    binders = ""
    if ctx.types:
        binders += "{" + " ".join(ctx.types) + " : Type} "
    binders += "".join(f"({x.name} : {x.lean_type()}) " for x in ctx.ext.values())
    binders += " ".join(f"({n} : {t})" for n, t in zip(names, arg_types))
    where = f"{inspect.getsourcefile(fn).split('/src/')[-1]}:{fn.__qualname__}"
    rt = opt_of(ret) if partial else ret
    term = ""
    if ctx.recursive_on:
        term = f"termination_by structural {sorted(ctx.recursive_on)[0]}\n"
    return f"/-- translated from `{where}` -/\ndef {lean_name} {binders} : {rt} :=\n  {body}\n{term}"


def signature(spec):
    """(external parameters as (name, lean type)) of a spec entry – what a caller must forward"""
    t3 = spec[5]["t3"]
    return [(name, Ext(key, name, args, r).lean_type()) for key, name, args, r in t3.get("ext", [])]
