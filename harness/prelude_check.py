"""Validation of the translator's Python prelude (lean/OQ/Exec/Py.lean) against CPython itself.

Every prelude function the translated definitions use is evaluated by the compiled model driver and compared with the real
built-in on seeded inputs (boundaries first).  A disagreement means the translator's rendering of Python is wrong, which
is a fault of this machinery, never of /repo: it is reported as an internal error (exit 2) by run.py.
"""
import random

from . import common


def _cases(rng, n):
    ints = [0, 1, 2, 3, 7, 8, 9, 10, 11, 99, 100, 255, 256, 2 ** 31, 2 ** 63 - 1, 2 ** 64, 10 ** 18 + 7, -1, -2, -10, -255]
    ints += [rng.randrange(-10 ** 6, 10 ** 6) for _ in range(n)] + [rng.randrange(0, 2 ** 70) for _ in range(n // 2)]
    reqs, want = [], []
    for k in ints:
        reqs.append(("bin", {"n": common.rat(k)})); want.append(bin(k))
        reqs.append(("str", {"n": common.rat(k)})); want.append(str(k))
    for _ in range(n):
        k = rng.randrange(0, 2 ** rng.randrange(1, 12)); w = rng.randrange(0, 14)
        s = bin(k)[2:]
        reqs.append(("zfill", {"s": s, "w": w})); want.append(s.zfill(w))
        reqs.append(("int2", {"s": s})); want.append(str(int(s, 2)))
    for s, w in [("-5", 4), ("+5", 4), ("", 3), ("abc", 2), ("-", 3)]:
        reqs.append(("zfill", {"s": s, "w": w})); want.append(s.zfill(w))
    for c in "0123456789":
        reqs.append(("digit", {"s": c})); want.append(str(int(c)))
    for _ in range(n // 2):
        parts = ["".join(rng.choice("01ab") for _ in range(rng.randrange(0, 3))) for _ in range(rng.randrange(0, 5))]
        sep = rng.choice(["", ",", "--"])
        reqs.append(("join", {"sep": sep, "parts": parts})); want.append(sep.join(parts))
    for _ in range(n):
        xs = [rng.randrange(-5, 6) for _ in range(rng.randrange(0, 7))]
        a, b = rng.randrange(0, 9), rng.randrange(0, 9)
        reqs.append(("slice", {"xs": xs, "a": a, "b": b})); want.append({"from": xs[a:], "to": xs[:b], "both": xs[a:b]})
    for _ in range(n):
        a, b = rng.randrange(1, 2 ** rng.randrange(1, 40)), rng.randrange(1, 2 ** rng.randrange(1, 40))
        reqs.append(("bits", {"a": common.rat(a), "b": common.rat(b % 64 + 1)}))
        bb = b % 64 + 1
        want.append({"and": str(a & bb), "or": str(a | bb), "shr": str(a >> bb), "lowbit": str(a & -a),
                     "sum": str(a + bb + a), "fdiv": str(a // bb), "fmod": str(a % bb)})
    for a, b in [(-7, 2), (7, -2), (-7, -2), (-8, 2), (0, 5), (5, 7), (-1, 10 ** 12)]:
        reqs.append(("bits", {"a": a, "b": b}))
        want.append({"fdiv": str(a // b), "fmod": str(a % b)})

    # --- T6: digit-group splitting, isdigit, int(str), split, dict lookup, reduce, list comparison of int|str keys.
    # DOMAIN: the digit characters of the strings are ASCII (CPython's `\d`, `str.isdigit` and `int` disagree with each other on
    # non-ASCII digits such as '²'); non-ASCII NON-digit characters are inside the domain and are drawn here.
    import functools
    import re
    alpha = "ab_ -+\t019257éβx"
    def word(lo=0, hi=9, al=alpha):
        return "".join(rng.choice(al) for _ in range(rng.randrange(lo, hi)))
    names = ["", "a", "1", "12ab3", "a1b", "a12", "12", "1a", "beta_10", "x_1_2", "007", "é1β22", "a__1", "9" * 25] \
        + [word() for _ in range(n)]
    for s in names:
        assert not any((c.isdigit() or re.fullmatch(r"\d", c)) and not ("0" <= c <= "9") for c in s)
        reqs.append(("resplit", {"s": s})); want.append(re.split(r"(\d+)", s))
        reqs.append(("isdigit", {"s": s})); want.append(s.isdigit())
        reqs.append(("splitchar", {"s": s, "c": "_"})); want.append(s.split("_"))
        for g in re.split(r"(\d+)", s):
            if g.isdigit():
                reqs.append(("intdigits", {"s": g})); want.append(str(int(g)))
    ints_s = [" 12 ", "+1", "1_0", "-3", "_1", "1_", "1__0", "", " ", "+", "\t5\n", "0x1", "1 2", "--1", "+-1", "00", "-0",
              "1\x0b", "\x0c\r7", "1_2_3", "-_1", "- 1", "1e3", "1.0", "９"[:0]] \
        + [word(0, 6, " \t\n+-_0123456789a") for _ in range(n)]
    for s in ints_s:
        try:
            w = str(int(s))
        except ValueError:
            w = "ValueError"
        reqs.append(("intparse", {"s": s})); want.append(w)
    for _ in range(n // 2):
        ks = [rng.choice(["a", "b", "c", ""]) for _ in range(rng.randrange(0, 6))]
        k = rng.choice(["a", "b", "c", "", "zz"])
        d = {name: i for i, name in enumerate(ks)}
        reqs.append(("dictget", {"pairs": [[name, i] for i, name in enumerate(ks)], "k": k}))
        want.append(str(d[k]) if k in d else "KeyError")
        xs = [rng.randrange(-9, 10) for _ in range(rng.randrange(0, 5))]
        try:
            w = str(functools.reduce(lambda a, b: 2 * a - b, xs))
        except TypeError:
            w = "TypeError"
        reqs.append(("reduce", {"xs": xs})); want.append(w)
    def item():
        return rng.choice([rng.randrange(-3, 4), rng.choice(["", "a", "b", "ab", "é", "B"])])
    def enc(k):
        return [{"i": x} if isinstance(x, int) else {"s": x} for x in k]
    for _ in range(n):
        a = [item() for _ in range(rng.randrange(0, 4))]
        b = a[:rng.randrange(0, len(a) + 1)] + [item() for _ in range(rng.randrange(0, 3))]
        try:
            w = "eq" if a == b else ("lt" if a < b else "gt")
        except TypeError:
            w = "TypeError"
        reqs.append(("cmpkeys", {"a": enc(a), "b": enc(b)})); want.append(w)
    # --- end T6
    _cases_t2(rng, n, reqs, want)
    _cases_t4(rng, n, reqs, want)  # --- T4
    _cases_t14(rng, n, reqs, want)  # --- T14
    _cases_t7(rng, n, reqs, want)  # --- T7
    _cases_t9(rng, n, reqs, want)  # --- T9
    _cases_t15(rng, n, reqs, want)  # --- T15
    _cases_t16(rng, n, reqs, want)  # --- T16
    _cases_t18(rng, n, reqs, want)  # --- T18
    _cases_t19(rng, n, reqs, want)  # --- T19
    # --- T11: `sorted(xs)` of ints (duplicates, negatives, already sorted / reversed inputs)
    for _ in range(n // 2):
        xs = [rng.randrange(-9, 10) for _ in range(rng.randrange(0, 9))]
        xs = rng.choice([xs, sorted(xs), sorted(xs, reverse=True), list(set(xs))])
        reqs.append(("t11_sorted", {"xs": xs})); want.append(sorted(xs))
    # --- end T11
    # --- T12: itertools.groupby with the groups taken as lists (OQ.Py.groupby), int keys and Bool keys
    import itertools
    for _ in range(n // 2):
        xs = [rng.randrange(-6, 7) for _ in range(rng.randrange(0, 9))]
        m = rng.choice([1, 2, 3])
        reqs.append(("t2_groupby", {"xs": xs, "m": m}))
        want.append({"int": [[k, list(g)] for k, g in itertools.groupby(xs, lambda x: x % m)],
                     "bool": [[k, list(g)] for k, g in itertools.groupby(xs, lambda x: x % 2 == 0)],
                     "sorted": sorted(xs)})
    # --- end T12
    return reqs, want


# --- T9: Python numbers that may be complex (dyadic values: float arithmetic is exact on them), str helpers on ASCII strings, the two
# regular expressions of the Pauli term parser, dict(pairs), indexing / comprehension / loop that may raise
def _cases_t9(rng, n, reqs, want):
    import re
    from fractions import Fraction

    def R(f):
        f = Fraction(f)
        return str(f.numerator) if f.denominator == 1 else f"{f.numerator}/{f.denominator}"

    def dy():
        return Fraction(rng.randrange(-40, 41), 2 ** rng.randrange(0, 5))

    def num():
        c = rng.random()
        if c < 0.3:
            return int(rng.randrange(-5, 6))
        if c < 0.6:
            return float(dy())
        return complex(float(dy()), float(rng.choice([Fraction(0), dy()])))

    def enc(z):
        if isinstance(z, complex):
            return {"re": R(Fraction(z.real)), "im": R(Fraction(z.imag))}
        return {"re": R(Fraction(z))}

    for _ in range(n):
        a, b = num(), num()
        reqs.append(("t9_num", {"a": enc(a), "b": enc(b)}))
        want.append(("raw", {"add": enc(a + b), "mul": enc(a * b), "jmul": enc(1j * a), "re": R(Fraction(a.real)),
                             "im": R(Fraction(a.imag)), "iscomplex": isinstance(a, complex), "truthy": bool(a)}))
    alpha = "XYZIxyzi0123456789 **()+-.jab\n"
    strs = ["", " ", "*", "X0", "x12", "I3\n", "Z1\n\n", "Y", "Y-1", "A1", "X1a", " X1", "X 1", "(1+2j)", "(", ")", "()", "a * b", " a*b ", "a  *  b *c",
            "* a", "a *", " * ", "**", "  ", "2.0*I", "(1+2j) * Z0*X12", "i0", "z007", "X0\n", "\n", "X\n"]
    strs += ["".join(rng.choice(alpha) for _ in range(rng.randrange(0, 9))) for _ in range(2 * n)]
    for s in strs:
        p = rng.choice(["(", ")", " ", "", "X", "I", " *", "()", s[:1], s[-1:], s])
        m = re.match(r"([XYZI])([0-9]+)$", s, re.I)
        reqs.append(("t9_str", {"s": s, "p": p}))
        want.append(("raw", {"startswith": s.startswith(p), "endswith": s.endswith(p), "replace": s.replace(" ", p), "strip": s.strip(p),
                             "upper": s.upper(), "resplit": re.split(r"\ *\*\ *", s),
                             "rematch": [m.group(1), m.group(2)] if m else None}))
    for _ in range(n):
        ps = [(rng.randrange(0, 4), rng.choice(["X", "Y", "1", "12", "-3", "a", ""])) for _ in range(rng.randrange(0, 6))]
        i = rng.randrange(-7, 7)

        def ex(thunk, conv):
            try:
                return {"ok": conv(thunk())}
            except (ValueError, IndexError) as e:
                return {"exc": type(e).__name__}

        def fold():
            acc = 1
            for k, v in ps:
                acc = acc * 3 + int(v) + k
            return acc
        reqs.append(("t9_dict", {"pairs": [[k, v] for k, v in ps], "i": i}))
        want.append(("raw", {"dict": [[str(k), v] for k, v in dict(ps).items()], "index": ex(lambda: ps[i], lambda p: [str(p[0]), p[1]]),
                             "map": ex(lambda: [int(v) for _k, v in ps], lambda l: [str(x) for x in l]), "fold": ex(fold, str)}))
# --- end T9


# --- T16: the prelude functions of the `--- T16` block of OQ/Exec/Py.lean (ops `t16_*` of the driver)
def _cases_t16(rng, n, reqs, want):
    """--- T16: `max(a, b)` / `-a` on numeric values (Fractions), the DOMAIN ERROR of `math.log` (ValueError iff the argument is not
    positive; the value is an external), `int(s, 2)` on strings over digits and signs, `set(xs).union(ys)` (compared as the list of
    distinct elements in order of first occurrence AND, as a set, with CPython's own union), and the numpy operations of the kernels of
    `mmd.py` on object / float arrays: `x[:, None] - y[None, :]`, `np.abs`, `** 2`, `astype(float)`, `c * m`, a ufunc applied
    elementwise (`np.frompyfunc`), `np.zeros(m.shape)`, `m + m'`, `m / k`, `u - v`, `u.dot(v)`, `m.dot(v)`.  Expected values come from
    CPython / numpy themselves."""
    import math
    from fractions import Fraction
    import numpy as np

    def R(f):
        f = Fraction(f)
        return str(f.numerator) if f.denominator == 1 else f"{f.numerator}/{f.denominator}"

    def exc(thunk, conv):
        try:
            return {"ok": conv(thunk())}
        except ValueError:
            return {"err": "value"}
    m = max(n // 2, 40)
    for _ in range(m):
        a = Fraction(rng.randrange(-8, 9), rng.choice([1, 2, 3, 8]))
        b = rng.choice([a, Fraction(0), Fraction(rng.randrange(-8, 9), rng.choice([1, 2, 5]))])
        reqs.append(("t16_num", {"a": R(a), "b": R(b)}))
        want.append(("raw", {"max": R(max(a, b)), "neg": R(-a), "log": exc(lambda: (math.log(float(a)), a)[1], R)}))
    strs = ["", "0", "1", "10", "0101", "2", "12", "102", "-1", "+1", "-", "+", "--1", "1-1", "-0", "00", "9", "1" * 70]
    strs += ["".join(rng.choice("0101012-+") for _ in range(rng.randrange(0, 7))) for _ in range(m)]
    for s in strs:  # documented domain of intBase2E: digits and signs (no whitespace / underscore / 0b prefix)
        reqs.append(("t16_int2", {"s": s})); want.append(("raw", exc(lambda: int(s, 2), str)))
    for _ in range(m):
        xs = [rng.randrange(0, 7) for _ in range(rng.randrange(0, 6))]
        ys = [rng.randrange(0, 9) for _ in range(rng.randrange(0, 6))]
        first = list(dict.fromkeys(xs + ys))
        assert set(first) == set(xs).union(ys) and len(first) == len(set(xs).union(ys))
        reqs.append(("t16_set", {"xs": xs, "ys": ys})); want.append(("raw", first))
    for _ in range(m):
        x = [rng.randrange(0, 40) for _ in range(rng.randrange(0, 4))]
        y = [rng.randrange(0, 40) for _ in range(rng.randrange(0, 4))]
        c = Fraction(rng.randrange(-9, 10), rng.choice([1, 2, 4]))
        k = rng.choice([1, 2, 3, 5, -2])
        ln = rng.randrange(1, 4)
        u = [Fraction(rng.randrange(-6, 7), rng.choice([1, 2, 4])) for _ in range(ln)]
        v = [Fraction(rng.randrange(-6, 7), rng.choice([1, 2, 4])) for _ in range(ln)]
        X, Y = np.asarray(x, dtype=object), np.asarray(y, dtype=object)
        U, V = np.array(u, dtype=object), np.array(v, dtype=object)
        o = X[:, None] - Y[None, :]
        e = (np.abs(o) ** 2).astype(float)
        eq = np.array([[Fraction(t) for t in row] for row in e.tolist()], dtype=object).reshape(e.shape)
        sc = c * eq
        sq = np.array([list(u) for _ in u], dtype=object)

        def mat(a, conv):
            return [[conv(t) for t in row] for row in a.tolist()]
        reqs.append(("t16_np", {"x": x, "y": y, "c": R(c), "k": k, "u": [R(t) for t in u], "v": [R(t) for t in v]}))
        want.append(("raw", {
            "outer": mat(o, str), "abs": mat(np.abs(o), str), "pow": mat(np.abs(o) ** 2, str), "float": mat(e, R), "scale": mat(sc, R),
            "map": mat(np.frompyfunc(lambda t: t * t + 1, 1, 1)(sc) if sc.size else sc, R), "zeros": mat(np.zeros(e.shape), R),
            "add": mat(eq + sc, R), "div": mat(sc / k, R), "sub": [R(t) for t in (U - V).tolist()], "dot": R(U.dot(V)),
            "matvec": [R(t) for t in sq.dot(V).tolist()]}))
# --- end T16


# --- T18: the prelude functions of OQ/Exec/PyT18.lean (ops `t18_*` of the driver)
def _cases_t18(rng, n, reqs, want):
    """--- T18: `set(xs)` / `x in s` / `s == t` for objects with their own `__hash__` (v // 4) and a NON-transitive `__eq__` (|v - w| <= 1),
    the non-negativity check on the keys of a dict handed to `PauliTerm`, `sorted` of (index, letter) tuples (taken from a frozenset),
    `functools.reduce` without initial value, `int.bit_length`.  Expected values come from CPython itself."""
    import functools
    m = max(n // 3, 40)

    class E:
        def __init__(self, v):
            self.v = v

        def __hash__(self):
            return self.v // 4

        def __eq__(self, other):
            return abs(self.v - other.v) <= 1

    for _ in range(m):
        xs = [rng.randrange(1, 20) for _ in range(rng.randrange(0, 8))]      # (non-negative: CPython replaces the hash value -1 by -2)
        u = rng.random()
        ys = rng.sample(xs, len(xs)) if u < 0.35 else ([v + rng.choice([0, 0, 1, -1]) for v in xs] if u < 0.7 else
                                                      [rng.randrange(1, 20) for _ in range(rng.randrange(0, 8))])
        A, B = set(E(v) for v in xs), set(E(v) for v in ys)
        # the elements a set keeps depend on the insertion order only: rebuild it in list order
        kept = []
        for v in xs:
            if not any(E(w).__hash__() == E(v).__hash__() and E(w) == E(v) for w in kept):
                kept.append(v)
        assert sorted(e.v for e in A) == sorted(kept), "CPython keeps other elements than first-come"
        reqs.append(("t18_set", {"xs": xs, "ys": ys}))
        want.append(("raw", {"set": kept, "eq": A == B, "mem": [E(v) in A for v in ys]}))
    for _ in range(m):
        d = {rng.randrange(-2 if rng.random() < 0.3 else 0, 9): rng.choice(["X", "Y", "Z", "I"]) for _ in range(rng.randrange(0, 5))}
        reqs.append(("t18_keys", {"d": [[k, v] for k, v in d.items()]}))
        want.append(("raw", {"ok": [[k, v] for k, v in d.items()]} if all(k >= 0 for k in d) else {"err": "value"}))
        d2 = {abs(k): v for k, v in d.items()}
        reqs.append(("t18_sorted", {"d": [[k, v] for k, v in d2.items()]}))
        want.append(("raw", [[k, v] for k, v in sorted(frozenset(d2.items()))]))
        xs = [rng.randrange(-9, 10) for _ in range(rng.randrange(0, 5))]
        reqs.append(("t18_reduce", {"xs": xs}))
        try:
            want.append(("raw", {"ok": functools.reduce(lambda a, b: 3 * a - b, xs)}))
        except TypeError:
            want.append(("raw", {"err": "type"}))
    for k in [0, 1, 2, 3, 4, 7, 8, 255, 256, 2 ** 40, 2 ** 40 - 1, -1, -8, -9] + [rng.randrange(0, 2 ** 20) for _ in range(m)]:
        reqs.append(("t18_bits", {"n": common.rat(k)}))
        want.append(("raw", k.bit_length()))
# --- end T18


# --- T19: `str.strip()` (ASCII whitespace incl. U+001C-U+001F) and the sum-splitting regular expression of `PauliSum.__init__`
def _cases_t19(rng, n, reqs, want):
    import re
    alpha = "+()+ (+) \t\n\x0b\x0c\r\x1c\x1d\x1e\x1f ab1*jZ-."
    fixed = ["", "+", "a+b", "(1+2j)*Z0 + 2*X1", "(a+b", "a+b)", "a+(b+c)+d", "((a+b)+c)+d", "a+b)+(c+d", " \x1c x \x1f\n", "+(+)+", ")+(",
             "(1+2j)*Z0 + (0.5-1j)*X1 + 3.0*I", "\x1f", " ", "a + (b\n+c) + d"]
    for s in fixed + ["".join(rng.choice(alpha) for _ in range(rng.randrange(0, 12))) for _ in range(n)]:
        reqs.append(("t19_text", {"s": s}))
        want.append(("raw", {"strip": s.strip(), "resplit": re.split(r"\+(?![^(]*\))", s)}))
    # sets of hashable objects: `hash` and `==` given per object (`==` = equality of a class label: an equivalence), incl. equal objects
    # with different hashes (never merged) and different objects with equal hashes (never merged either)
    class K:
        def __init__(self, h, c):
            self.h, self.c = h, c

        def __hash__(self):
            return self.h

        def __eq__(self, o):
            return self.c == o.c
    for _ in range(n):
        xs = [(rng.randrange(0, 4), rng.randrange(0, 3)) for _ in range(rng.randrange(0, 7))]
        u = rng.random()
        ys = rng.sample(xs, len(xs)) if u < 0.4 else ([rng.choice(xs) for _ in xs] if xs and u < 0.6 else
                                                       [(rng.randrange(0, 4), rng.randrange(0, 3)) for _ in range(rng.randrange(0, 7))])
        reqs.append(("t19_hset", {"xs": [list(p) for p in xs], "ys": [list(p) for p in ys]}))
        want.append(("raw", {"len": len(set(K(*p) for p in xs)), "eq": set(K(*p) for p in xs) == set(K(*p) for p in ys)}))
# --- end T19


def _cases_t2(rng, n, reqs, want):
    """--- T2: iterators / islice, bounded while, loops that raise, reduce / max / min, sum of lists, Counter semantics, "{0:b}".
    Expected values come from the CPython objects themselves (itertools.islice, functools.reduce, collections.Counter, …)."""
    import functools
    import itertools
    from collections import Counter

    def ints(lo=-3, hi=9, k=7):
        return [rng.randrange(lo, hi) for _ in range(rng.randrange(0, k))]

    def S(v):
        return None if v is None else str(v)
    for _ in range(n):
        xs, k = ints(), rng.choice([0, 1, 2, 3, 5, 9, -1, -4])
        it = iter(xs)
        try:
            taken = list(itertools.islice(it, k))
            w = [taken, list(it)]
        except ValueError:
            w = None
        reqs.append(("t2_islice", {"xs": xs, "k": k})); want.append(("raw", w))
    for _ in range(n // 2):
        m, d, fuel = rng.randrange(-3, 30), rng.randrange(1, 6), rng.randrange(0, 12)
        c, tests, cur = 0, 0, m
        while True:
            tests += 1
            if tests > fuel:
                w = None
                break
            if not cur > 0:
                w = [str(cur), str(c)]
                break
            cur -= d
            c += 1
        reqs.append(("t2_while", {"n": m, "d": d, "fuel": fuel})); want.append(("raw", w))
    for _ in range(n):
        xs = ints(-1 if rng.random() < 0.4 else 0, 9)
        ms = [rng.choice([0, 1, 2, 3, -1]) if rng.random() < 0.2 else rng.randrange(0, 4) for _ in range(rng.randrange(0, 5))]

        def body(x):
            if x < 0:
                raise ValueError
            return x
        try:
            acc = 1
            for x in xs:
                acc = 2 * acc + body(x)
            fo = str(acc)
        except ValueError:
            fo = None
        try:
            mo = [body(x) * body(x) for x in xs]
        except ValueError:
            mo = None
        it = iter(xs)
        try:
            ma = [sum(itertools.islice(it, m)) for m in ms]
            ma = [ma, list(it)]
        except ValueError:
            ma = None
        reqs.append(("t2_loops", {"xs": xs, "ms": ms})); want.append({"fold": fo, "map": mo, "accum": ma})
    for _ in range(n):
        xs = ints(-20, 20)
        try:
            r = str(functools.reduce(lambda a, b: 3 * a - b, xs))
        except TypeError:
            r = None
        reqs.append(("t2_reduce", {"xs": xs}))
        want.append({"reduce": r, "max": S(max(xs)) if xs else None, "min": S(min(xs)) if xs else None})
    for _ in range(n // 2):
        xss = [ints() for _ in range(rng.randrange(0, 5))]
        reqs.append(("t2_sumlists", {"xss": xss})); want.append(("raw", sum(xss, start=[])))
    keys = ["a", "b", "c", "", "00", "01"]
    for _ in range(n):
        d = {k: rng.randrange(-3, 9) for k in rng.sample(keys, rng.randrange(0, 5))}
        ops = [[rng.choice(["add", "add", "set"]), rng.choice(keys), rng.randrange(-4, 9)] for _ in range(rng.randrange(0, 7))]
        c = Counter(d)
        for kind, k, v in ops:
            if kind == "add":
                c[k] += v
            else:
                c[k] = v
        probes = [rng.choice(keys + ["zz"]) for _ in range(3)]
        gets = [str(c[k]) for k in probes]  # reading a missing key answers 0 and does not insert it
        reqs.append(("t2_counter", {"d": [[k, v] for k, v in d.items()], "ops": ops, "probes": probes}))
        want.append({"items": [[k, str(v)] for k, v in dict(c).items()], "gets": gets})
    for k in [0, 1, 2, 3, 7, 8, 255, 256, 2 ** 64, -1, -5] + [rng.randrange(0, 2 ** 40) for _ in range(n // 4)]:
        reqs.append(("t2_formatb", {"n": common.rat(k)})); want.append("{0:b}".format(k))


def _cases_t4(rng, n, reqs, want):
    """--- T4: exceptions with their class, numeric values (the driver runs them at Rat, CPython at fractions.Fraction / dyadic floats),
    dicts with numeric values, `int(str)`, `str.split`, `math.isclose`.  Expected values come from CPython itself."""
    import math
    from collections import Counter
    from fractions import Fraction

    def R(f):
        f = Fraction(f)
        return str(f.numerator) if f.denominator == 1 else f"{f.numerator}/{f.denominator}"

    def exc(thunk, conv):
        names = {"RuntimeError": "runtime", "ValueError": "value", "IndexError": "index", "KeyError": "key", "TypeError": "type",
                 "ZeroDivisionError": "zeroDiv"}
        try:
            return {"ok": conv(thunk())}
        except (RuntimeError, ValueError, IndexError, KeyError, TypeError, ZeroDivisionError) as e:
            return {"err": names[type(e).__name__]}
    strs = ["", "0", "7", "12", "-3", "+4", "-", "+", "--1", "+-1", "1-", "a", "1a", "a1", "007", "-0", "1,2", ",", "99999999999999999999"]
    strs += ["".join(rng.choice("0123456789+-a,") for _ in range(rng.randrange(0, 5))) for _ in range(n)]
    for s in strs:  # documented domain of intOfStr: ASCII, no whitespace / underscore
        reqs.append(("t4_int", {"s": s})); want.append(("raw", exc(lambda: int(s), str)))
    for _ in range(n // 2):
        s = "".join(rng.choice("01,,a-") for _ in range(rng.randrange(0, 8)))
        sep = rng.choice([",", "a", "-"])
        reqs.append(("t4_split", {"s": s, "sep": sep})); want.append(("raw", s.split(sep)))
        parts = s.split(",")
        reqs.append(("t4_map", {"parts": parts})); want.append(("raw", exc(lambda: [int(p) for p in parts], lambda l: [str(x) for x in l])))
    for _ in range(n):
        xs = [rng.randrange(0, 6) for _ in range(rng.randrange(0, 6))]
        i = rng.randrange(-8, 8)
        reqs.append(("t4_list", {"xs": xs, "i": i}))
        want.append(("raw", {"index": exc(lambda: xs[i], str), "max": exc(lambda: max(xs), str), "lenset": str(len(set(xs))),
                             "counter": [[str(k), str(v)] for k, v in dict(Counter(xs)).items()], "rep": xs * i,
                             "chars": [c for c in "".join(map(str, xs))]}))
    for _ in range(n):
        a = Fraction(rng.randrange(-20, 20), rng.choice([1, 2, 3, 4, 8]))
        b = rng.choice([Fraction(0), a, Fraction(rng.randrange(-9, 9), rng.choice([1, 2, 5]))])
        m, k = rng.randrange(-5, 6), rng.choice([0, 1, 2, 3, -4, 7])
        xs = [Fraction(rng.randrange(-9, 9), rng.choice([1, 2, 3, 16])) for _ in range(rng.randrange(0, 6))]
        reqs.append(("t4_num", {"a": R(a), "b": R(b), "m": m, "n": k, "xs": [R(x) for x in xs]}))
        want.append(("raw", {"div": exc(lambda: a / b, R), "divint": exc(lambda: Fraction(m) / Fraction(k) if k else m / k, R),
                             "sum": R(sum(xs)), "add": R(a + m), "mul": R(a * b), "sub": R(a - b), "eq": a == b, "le": a <= b,
                             "lt": a < b}))
    # math.isclose on dyadic floats (exact on both sides), clear of the 1e-9 boundary (2^-30 < 1e-9 < 2^-29)
    for _ in range(n):
        a = Fraction(rng.randrange(-40, 41), 2 ** rng.randrange(0, 6))
        j = rng.choice([20, 25, 28, 29, 30, 31, 35, 45])
        b = rng.choice([a, a * (1 + Fraction(1, 2 ** j)), a * (1 - Fraction(1, 2 ** j)), a + Fraction(1, 2 ** j), -a, Fraction(0), Fraction(1)])
        assert Fraction(float(a)) == a and Fraction(float(b)) == b
        reqs.append(("t4_isclose", {"a": R(a), "b": R(b)})); want.append(("raw", math.isclose(float(a), float(b))))
    keys = [[], [0], [1], [0, 1], [1, 0], [12], [1, 2]]
    for _ in range(n):
        d = {tuple(k): Fraction(rng.randrange(-3, 9), rng.choice([1, 2, 4])) for k in rng.sample(keys, rng.randrange(0, 5))}
        ops = [[rng.choice(["set", "mul", "acc", "acc"]), rng.choice(keys), R(Fraction(rng.randrange(-4, 9), rng.choice([1, 2])))]
               for _ in range(rng.randrange(0, 6))]
        probes = [rng.choice(keys) for _ in range(3)]

        def play():
            e = dict(d)
            for kind, k, v in ops:
                k, v = tuple(k), Fraction(v)
                if kind == "set":
                    e[k] = v
                elif kind == "mul":
                    e[k] *= v
                else:
                    e[k] = v + e.get(k, 0)
            return e
        reqs.append(("t4_dict", {"d": [[list(k), R(v)] for k, v in d.items()], "ops": ops, "probes": probes}))
        want.append(("raw", exc(play, lambda e: {
            "items": [[list(k), R(v)] for k, v in e.items()], "keys": [list(k) for k in e.keys()], "values": [R(v) for v in e.values()],
            "tupkeys": len(e), "gets": [exc(lambda: e[tuple(k)], R) for k in probes],
            "getds": [R(e.get(tuple(k), 5)) for k in probes]})))


def _cases_t14(rng, n, reqs, want):
    """--- T14: `xs[i] = v` (IndexError / negative indices), `xs.remove(v)` (ValueError), `abs` on ints and on exact rationals"""
    from fractions import Fraction

    def exc(thunk):
        try:
            return {"ok": [str(x) for x in thunk()]}
        except IndexError:
            return {"err": "index"}
        except ValueError:
            return {"err": "value"}

    def setitem(xs, i, v):
        ys = list(xs)
        ys[i] = v
        return ys

    def remove(xs, v):
        ys = list(xs)
        ys.remove(v)
        return ys
    for _ in range(n):
        xs = [rng.randrange(0, 5) for _ in range(rng.randrange(0, 6))]
        i, v = rng.randrange(-8, 8), rng.randrange(0, 6)
        reqs.append(("t14_list", {"xs": xs, "i": i, "v": v}))
        want.append(("raw", {"set": exc(lambda: setitem(xs, i, v)), "remove": exc(lambda: remove(xs, v)), "abs": str(abs(i))}))
        a = Fraction(rng.randrange(-20, 20), rng.choice([1, 2, 3, 8]))
        b = abs(a)
        reqs.append(("t14_abs", {"a": str(a.numerator) if a.denominator == 1 else f"{a.numerator}/{a.denominator}"}))
        want.append(str(b.numerator) if b.denominator == 1 else f"{b.numerator}/{b.denominator}")


# --- T7: the prelude functions of the `--- T7` block of OQ/Exec/Py.lean (ops `t7_*` of the driver)
def _cases_t7(rng, n, reqs, want):
    """--- T7: `k in d`, `d.get(k)`, `del d[k]` on dicts with int keys / small str values, `frozenset(d.items())` equality, dicts KEYED by
    such frozensets (`in`, `[]`, `[] =`: an existing key keeps its position), `set(xs)` as the distinct elements in order of first
    occurrence, set equality, `max` of a list / a set.  Expected values come from CPython itself (`ofOption` is a plain case
    distinction and is not compared)."""
    m = max(n // 3, 40)
    vals = ["X", "Y", "Z", "I", ""]

    def exc(thunk, conv):
        names = {"RuntimeError": "runtime", "ValueError": "value", "IndexError": "index", "KeyError": "key", "TypeError": "type",
                 "ZeroDivisionError": "zeroDiv"}
        try:
            return {"ok": conv(thunk())}
        except (RuntimeError, ValueError, IndexError, KeyError, TypeError, ZeroDivisionError) as e:
            return {"err": names[type(e).__name__]}

    def small_dict(lo=0, hi=5):
        return {k: rng.choice(vals) for k in rng.sample(range(-2, 7), rng.randrange(lo, hi))}

    def items(d):
        return [[k, v] for k, v in d.items()]

    def variant(d):
        """a dict related to d: the same items inserted in another order, one value changed, one key dropped / added, or unrelated"""
        u = rng.random()
        ks = list(d)
        e = {k: d[k] for k in rng.sample(ks, len(ks))}
        if u < 0.4 or not ks:
            return e if u < 0.8 else small_dict(1, 3)
        if u < 0.55:
            k = rng.choice(ks)
            e[k] = rng.choice([v for v in vals if v != d[k]])
        elif u < 0.7:
            del e[rng.choice(ks)]
        elif u < 0.85:
            e[rng.choice([k for k in range(-3, 9) if k not in d])] = rng.choice(vals)
        else:
            e = small_dict()
        return e
    for _ in range(m):
        d = small_dict()
        k = rng.choice(list(d) + [7, 8]) if rng.random() < 0.7 else rng.randrange(-3, 9)

        def delete():
            e = dict(d)
            del e[k]
            return e
        reqs.append(("t7_dict", {"d": items(d), "k": k}))
        want.append(("raw", {"has": k in d, "find": d.get(k), "del": exc(delete, items)}))
    for _ in range(m):
        d = small_dict()
        e = variant(d)
        reqs.append(("t7_frozen", {"d": items(d), "e": items(e)}))
        want.append(("raw", frozenset(d.items()) == frozenset(e.items())))
    for _ in range(m):
        pool = [small_dict(0, 4) for _ in range(rng.randrange(1, 4))]
        pool += [variant(rng.choice(pool)) for _ in range(rng.randrange(0, 4))]
        ops = [[rng.choice(["set", "acc", "acc"]), rng.choice(pool), rng.randrange(-4, 9)] for _ in range(rng.randrange(1, 9))]
        probes = [rng.choice(pool + [small_dict(0, 3)]) for _ in range(3)]

        def play():
            D = {}
            for kind, kd, v in ops:
                key = frozenset(kd.items())
                if kind == "acc" and key in D:
                    D[key] = D[key] + v
                else:
                    D[key] = v
            return D
        reqs.append(("t7_fdict", {"ops": [[kind, items(kd), v] for kind, kd, v in ops], "probes": [items(kd) for kd in probes]}))
        want.append(("raw", exc(play, lambda D: {
            "items": [[[list(it) for it in sorted(key)], v] for key, v in D.items()],
            "has": [frozenset(kd.items()) in D for kd in probes],
            "gets": [exc(lambda: D[frozenset(kd.items())], lambda v: v) for kd in probes]})))
    for _ in range(m):
        xs = [rng.randrange(0, 9) for _ in range(rng.randrange(0, 7))]
        u = rng.random()
        ys = rng.sample(xs, len(xs)) + ([rng.choice(xs)] if xs and u < 0.3 else []) if u < 0.5 else \
            (xs[:-1] if u < 0.65 else xs + [rng.randrange(0, 12)] if u < 0.8 else [rng.randrange(0, 9) for _ in range(rng.randrange(0, 7))])
        reqs.append(("t7_set", {"xs": xs, "ys": ys}))
        want.append(("raw", {"set": list(dict.fromkeys(xs)), "eq": set(xs) == set(ys), "max": exc(lambda: max(xs), lambda v: v),
                             "maxset": exc(lambda: max(set(xs)), lambda v: v)}))
# --- end T7


# --- T15: the numpy prelude of the `--- T15` block of OQ/Exec/Py.lean (op `t15_np` of the driver) against numpy itself
def _cases_t15(rng, n, reqs, want):
    """--- T15: u1 buffers and their wrapping subtraction, reshape(-1, n), shapes, fancy column indexing (negative / out-of-range indices,
    arrays without rows or without columns), row sums, array-scalar arithmetic (Python's floored `%`), 1-d and 2-d broadcasting (`*`, `-`,
    outer products, incompatible shapes), true division by an int (0 included: non-finite entries), np.zeros, item reads / writes with
    negative and out-of-range indices, np.array of int tuples (inhomogeneous, empty), enumerate"""
    import math
    import warnings
    from fractions import Fraction
    import numpy as np

    def exc(thunk, f):
        try:
            return {"ok": f(thunk())}
        except IndexError:
            return {"err": "index"}
        except ValueError:
            return {"err": "value"}

    def a2(M):
        M = np.asarray(M)
        assert M.ndim == 2
        return {"w": str(M.shape[1]), "rows": [[str(int(x)) for x in r] for r in M.tolist()]}

    def ints(v):
        return [str(int(x)) for x in np.asarray(v).tolist()]

    def R(x):
        f = Fraction(x)
        return str(f.numerator) if f.denominator == 1 else f"{f.numerator}/{f.denominator}"

    def mat(r, c):
        return [[rng.randrange(-3, 4) for _ in range(c)] for _ in range(r)]
    with warnings.catch_warnings():
        warnings.simplefilter("ignore")
        for _ in range(n):
            xs = [rng.randrange(-5, 6) for _ in range(rng.choice([0, 1, 1, 2, 3, 4, 6]))]
            ys = [rng.randrange(-5, 6) for _ in range(rng.choice([len(xs), len(xs), 1, 0, 2, 3]))]
            s = "".join(rng.choice("01012a /~z") for _ in range(rng.randrange(0, 7)))
            k, m = rng.randrange(-4, 5), rng.choice([0, 0, 1, 2, 3, 4, -1, 8])
            ar, aw = rng.choice([0, 1, 2, 3]), rng.choice([0, 1, 2, 3])
            br, bw = rng.choice([ar, ar, 1, 2]), rng.choice([aw, aw, 1, 3])
            A, B = np.array(mat(ar, aw), dtype=int).reshape(ar, aw), np.array(mat(br, bw), dtype=int).reshape(br, bw)
            idx = [rng.randrange(-aw - 1, aw + 1) for _ in range(rng.randrange(0, 4))]
            i, i2 = rng.randrange(-ar - 1, ar + 1), rng.randrange(-aw - 1, aw + 1)
            tuples = [[rng.randrange(2) for _ in range(rng.choice([2, 2, 2, 1, 0]))] for _ in range(rng.choice([0, 1, 2, 3]))]
            X, Y = np.array(xs, dtype=int), np.array(ys, dtype=int)
            reqs.append(("t15_np", {"xs": xs, "ys": ys, "s": s, "k": k, "n": m, "i": i, "i2": i2, "aw": aw, "arows": A.tolist(),
                                    "bw": bw, "brows": B.tolist(), "idx": idx, "tuples": tuples}))

            def truediv():
                q = X / m
                if not all(math.isfinite(v) for v in q.tolist()):
                    return {"err": "zeroDiv"}
                assert all(float(Fraction(x, m)) == v for x, v in zip(xs, q.tolist()))
                return {"ok": [R(Fraction(x, m)) for x in xs]}

            def divs2():
                q = A.astype(complex) / m
                rows = []
                for r, src in zip(q.tolist(), A.tolist()):
                    row = []
                    for v, x in zip(r, src):
                        fin = math.isfinite(v.real) and math.isfinite(v.imag)
                        assert (not fin) or (v.imag == 0 and float(Fraction(x, m)) == v.real)
                        row.append(R(Fraction(x, m)) if fin else None)
                    rows.append(row)
                return {"w": str(aw), "rows": rows}

            def set2():
                C = A.copy()
                C[i, i2] = k
                return C

            def arrayrows():
                arr = np.array([*map(tuple, tuples)])
                return None if arr.ndim == 1 else a2(arr)
            want.append(("raw", {
                "u1": ints((np.frombuffer(s.encode("utf-8"), "u1") - ord("0")).astype(int)),
                "reshape": exc(lambda: X.reshape(-1, m), a2),
                "shape": [str(v) for v in A.shape],
                "ones": ints(np.ones(max(m, 0))),
                "takecols": exc(lambda: A[:, np.fromiter(idx, dtype=int)], a2),
                "sumaxis1": ints(A.sum(axis=1)),
                "adds": ints(X + k), "subs": ints(X - k), "muls": ints(X * k), "mods": None if k == 0 else ints(X % k), "rsubs": ints(k - X),
                "abs": ints(np.abs(X)),
                "mul1": exc(lambda: X * Y, ints), "sub1": exc(lambda: X - Y, ints),
                "truediv": truediv(),
                "sum1": str(int(X.sum())),
                "zeros2": {"w": str(max(k, 0)), "rows": [[str(int(v.real)) for v in r]
                                                        for r in np.zeros((max(m, 0), max(k, 0)), dtype=complex).tolist()]},
                "get2": exc(lambda: A[i, i2], lambda v: str(int(v))),
                "set2": exc(set2, a2),
                "col": a2(X[:, np.newaxis]), "row": a2(X[np.newaxis, :]),
                "outer": exc(lambda: X[:, np.newaxis] * Y[np.newaxis, :], a2),
                "mul2": exc(lambda: A * B, a2), "sub2": exc(lambda: A - B, a2),
                "divs2": divs2(),
                "enumerate": [[str(a), str(b)] for a, b in enumerate(xs)],
                "arrayrows": exc(arrayrows, lambda v: v)}))
# --- end T15

_STRUCTURED = ("t19_", "t18_", "t2_", "t4_", "t14_", "t7_", "t9_", "t15_", "t16_")  # prelude ops whose answers are structured (compared after normalising ints)


def run(seed=0, n=120):
    """returns (number of comparisons, list of disagreements)"""
    rng = random.Random(f"prelude:{seed}")
    reqs, want = _cases(rng, n)
    drv = common.Driver("PY")
    if not drv.available():
        return 0, ["model driver not built"]
    got = drv.run(reqs)
    bad = []
    for (op, payload), w, g in zip(reqs, want, got):
        if op.startswith(_STRUCTURED) and not isinstance(w, str):  # --- T4: same treatment for t4_ ops  # --- T2: structured answers compared after normalising ints
            w = w[1] if isinstance(w, tuple) else w
            if _norm_t2(g) != _norm_t2(w):
                bad.append(f"{op} {payload}: CPython {w!r}, prelude {g!r}")
            continue
        if isinstance(w, dict):
            if not isinstance(g, dict):
                bad.append(f"{op} {payload}: driver {g!r}")
                continue
            for k, v in w.items():
                gv = g.get(k)
                gv = [int(x) for x in gv] if isinstance(gv, list) else gv
                if gv != v:
                    bad.append(f"{op}.{k} {payload}: CPython {v!r}, prelude {gv!r}")
        elif g != w:
            bad.append(f"{op} {payload}: CPython {w!r}, prelude {g!r}")
    return len(reqs), bad


def _norm_t2(v):
    if isinstance(v, bool) or v is None:
        return v
    if isinstance(v, int):
        return str(v)
    if isinstance(v, list):
        return [_norm_t2(x) for x in v]
    if isinstance(v, dict):
        return {k: _norm_t2(x) for k, x in v.items()}
    return v


if __name__ == "__main__":
    n, bad = run()
    print(n, "comparisons;", len(bad), "disagreements")
    for b in bad[:20]:
        print("  ", b)
