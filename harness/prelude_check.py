"""Validation of the translator's Python prelude (lean/OQ/Exec/Py.lean) against CPython itself.

Every prelude function the translated definitions use is evaluated by the compiled model driver and compared with the real
built-in on seeded inputs (boundaries first).  A disagreement means the translator's rendering of Python is wrong, which
is a fault of this machinery, never of /repo: it is reported as an internal error (exit 2) by run.py.
"""
import random

from . import common


def _cases(rng, n):
    ints = [0, 1, 2, 3, 7, 8, 9, 10, 11, 99, 100, 255, 256, 2 ** 31, 2 ** 63 - 1, 2 ** 64, 10 ** 18 + 7, -1, -2, -10, -255]
    ints += [rng.randrange(-10 ** 6, 10 ** 6) for _ in range(n)] + [rng.randrange(0, 2 ** 70) for _ in range(n // 2)]
    reqs, want = [], []
    for k in ints:
        reqs.append(("bin", {"n": common.rat(k)})); want.append(bin(k))
        reqs.append(("str", {"n": common.rat(k)})); want.append(str(k))
    for _ in range(n):
        k = rng.randrange(0, 2 ** rng.randrange(1, 12)); w = rng.randrange(0, 14)
        s = bin(k)[2:]
        reqs.append(("zfill", {"s": s, "w": w})); want.append(s.zfill(w))
        reqs.append(("int2", {"s": s})); want.append(str(int(s, 2)))
    for s, w in [("-5", 4), ("+5", 4), ("", 3), ("abc", 2), ("-", 3)]:
        reqs.append(("zfill", {"s": s, "w": w})); want.append(s.zfill(w))
    for c in "0123456789":
        reqs.append(("digit", {"s": c})); want.append(str(int(c)))
    for _ in range(n // 2):
        parts = ["".join(rng.choice("01ab") for _ in range(rng.randrange(0, 3))) for _ in range(rng.randrange(0, 5))]
        sep = rng.choice(["", ",", "--"])
        reqs.append(("join", {"sep": sep, "parts": parts})); want.append(sep.join(parts))
    for _ in range(n):
        xs = [rng.randrange(-5, 6) for _ in range(rng.randrange(0, 7))]
        a, b = rng.randrange(0, 9), rng.randrange(0, 9)
        reqs.append(("slice", {"xs": xs, "a": a, "b": b})); want.append({"from": xs[a:], "to": xs[:b], "both": xs[a:b]})
    for _ in range(n):
        a, b = rng.randrange(1, 2 ** rng.randrange(1, 40)), rng.randrange(1, 2 ** rng.randrange(1, 40))
        reqs.append(("bits", {"a": common.rat(a), "b": common.rat(b % 64 + 1)}))
        bb = b % 64 + 1
        want.append({"and": str(a & bb), "or": str(a | bb), "shr": str(a >> bb), "lowbit": str(a & -a),
                     "sum": str(a + bb + a), "fdiv": str(a // bb), "fmod": str(a % bb)})
    for a, b in [(-7, 2), (7, -2), (-7, -2), (-8, 2), (0, 5), (5, 7), (-1, 10 ** 12)]:
        reqs.append(("bits", {"a": a, "b": b}))
        want.append({"fdiv": str(a // b), "fmod": str(a % b)})
    return reqs, want


def run(seed=0, n=120):
    """returns (number of comparisons, list of disagreements)"""
    rng = random.Random(f"prelude:{seed}")
    reqs, want = _cases(rng, n)
    drv = common.Driver("PY")
    if not drv.available():
        return 0, ["model driver not built"]
    got = drv.run(reqs)
    bad = []
    for (op, payload), w, g in zip(reqs, want, got):
        if isinstance(w, dict):
            if not isinstance(g, dict):
                bad.append(f"{op} {payload}: driver {g!r}")
                continue
            for k, v in w.items():
                gv = g.get(k)
                gv = [int(x) for x in gv] if isinstance(gv, list) else gv
                if gv != v:
                    bad.append(f"{op}.{k} {payload}: CPython {v!r}, prelude {gv!r}")
        elif g != w:
            bad.append(f"{op} {payload}: CPython {w!r}, prelude {g!r}")
    return len(reqs), bad


if __name__ == "__main__":
    n, bad = run()
    print(n, "comparisons;", len(bad), "disagreements")
    for b in bad[:20]:
        print("  ", b)
