"""Translator extension T18 (on top of harness/translate_t7.py): the operator utilities of property C09 that work on `PauliTerm` /
`PauliSum` OBJECTS – `operators/_openfermion_utils/operator_utils.py` (`hermitian_conjugated`, `is_hermitian`), `operators/_utils.py`
(`reverse_qubit_order`, `get_expectation_value`) and `operators/_openfermion_utils/sparse_tools.py` (`get_sparse_operator`,
`_kronecker_operators`, `_wrapped_kronecker`).

`Gen18` / `TV18` subclass T7's `Gen` / `TV`: the object representation (`PTerm R`, `PSum R`), the dispatch by KIND of a polymorphic
argument (one variant per kind: `hermitian_conjugated_sum`, `hermitian_conjugated_term`, …; `isinstance` on an argument of a known
kind is decided statically, dead branches are not rendered), the hoisting of raising sub-expressions into `Except.bind` and every
expression / statement form of T7 are inherited.  The methods of the two classes that T7 already renders into
`OQ/Generated/TranslatedC03.lean` are CALLED there (`TranslatedPauli.sum_add_term k x …`); variants T7 does not render
(`PauliSum.__init__()` without argument, `PauliSum.__eq__(PauliSum)`, `PauliTerm.terms`) are generated on demand into this package's
file `OQ/Generated/TranslatedC09Ops.lean` (namespace `OQ.Generated.TranslatedOps`).  Added here:

  numbers     : `c.conjugate()` on a coefficient is `k.cj c` (the conjugation of the explicit constant record `Scal R`);
                a `Nat` (qubit index, width) meeting an `Int` is cast (`((q : Nat) : Int)`), `a - b` on non-negative ints is computed in
                `Int` (as Python does); `x.bit_length()` on an int (`OQ.Py.bitLength`); `2 ** e` on ints.
  externals   : record `Ext9 R` – `hash_eq a b` = `hash(a) == hash(b)` for two PauliTerm objects (`PauliTerm.__hash__` rounds floats and is
                not translated), `items_iter` = the order in which `for q, op in term.operations` yields a frozenset of dict items.
                record `ExtSp R μ ν ι ω` – what the code takes from scipy.sparse / numpy on opaque sparse matrices `μ`, value arrays `ν`,
                index arrays `ι` and wavefunctions `ω`: `scipy.sparse.identity(n, dtype=complex, format="csc")`, the module constant
                `pauli_matrix_map` (a dict from letters to matrices), `scipy.sparse.kron(a, b, "csc")` (on `KOp R μ`: the first element
                of the reduced list is the COEFFICIENT, a number), `m.tocoo(copy=False).data`, `m.nonzero()`, `numpy.concatenate` (values /
                indices), `scipy.sparse.csc_matrix((n, n), dtype=complex)`, `scipy.sparse.coo_matrix((v, (r, c)), shape=(n, n)).tocsc(copy=
                False)`, the in-place `m.eliminate_zeros()` (rendered as rebinding of the local name: no alias exists), the function
                `expectation` (numpy body), `wavefunction.amplitudes`, `a.shape[0]`.
  sets        : `set(terms)` of PauliTerm objects is the list of distinct elements under CPython's set semantics (same hash – `hash_eq` –
                and `stored == new` by the TRANSLATED `PauliTerm.__eq__`): `OQ.Py.setOfListBy`; `==` of two such sets: `OQ.Py.setEqBy`.
  lists       : a list that holds the coefficient AND matrices (`sparse_operators = [coefficient]`, `+= [identity]`) has the element type
                `KOp R μ` (`num c | mat m`); `sorted(term.operations)` (tuples `(index, letter)`, lexicographic, letters by `ord`):
                `OQ.Py.sortedItemsBy ordL`; `reduce(f, xs)` without initial value (`OQ.Py.reduce1E`, TypeError when empty).
  statements  : `(a, b) = e` on a pair-valued external; `x = e` where `x` changes its type in straight-line code (a new `let`); `x = e` on
                an existing `Int` variable with a `Nat` value (cast); truthiness `not term` of an object with `__len__` and without
                `__bool__` (`len(term) == 0`), `not xs` of a list; keyword arguments in calls of translated functions; `PauliSum()`;
                `PauliTerm(d, c)` with an int-keyed dict `d` built locally: the keys are typed `Nat` in the translated `__init__`, the
                conversion `OQ.Py.natKeysE` performs `__init__`'s first check (`all(qubit_idx >= 0)`, ValueError).
Anything else raises TranslateError: the definition (and every variant that calls it) is then missing.
"""
import ast
import inspect

from . import translate as tr
from . import translate_t7 as t7
from .translate import TranslateError, INT, BOOL, is_list, elem, list_of, paren
from .translate_t7 import (NUM, NAT, LETTER, OPSD, TERM, SUM, LTERMS, VAL, FITEMS, UNIT, INTLIT, KIND, CLS_OF, TY_OF, TAG, DICT,
                           is_dict, dict_kv, ok, err, _name, _dotted, NeedPartial)

OPTINT = "Option Int"
ISD = "OQ.Py.Dict Int Letter"
ITEMS = list_of(f"Nat × {LETTER}")
TERMSET = "«set of PTerm»"
MAT, VALS, IDXS, WF = "μ", "ν", "ι", "ω"
KOP = "KOp R μ"
LKOP = list_of(KOP)
SPARSE_KINDS = {"spmatrix": "«spmatrix»", "numpy.ndarray": "«ndarray»"}

# declared types (see T7's PARAMS / EMPTIES; keys of this package only are added)
PARAMS18 = {(None, "reverse_qubit_order"): {"n_qubits": OPTINT},
            (None, "get_sparse_operator"): {"n_qubits": OPTINT},
            (None, "get_expectation_value"): {"wavefunction": WF, "reverse_operator": BOOL},
            (None, "_kronecker_operators"): {"args": LKOP},
            (None, "_wrapped_kronecker"): {"operator_1": KOP, "operator_2": KOP}}
EMPTIES18 = {(None, "reverse_qubit_order"): [ISD],
             (None, "get_sparse_operator"): [list_of(VALS), list_of(IDXS), list_of(IDXS)]}
t7.PARAMS.update(PARAMS18)
t7.EMPTIES.update(EMPTIES18)

# module functions with a numpy body: externals of `ExtSp` (they must still be defined in the module)
EXTERNAL_FUNCS = {"expectation": ([MAT, VALS], NUM)}

SOURCES = ["orquestra.quantum.operators._openfermion_utils.operator_utils", "orquestra.quantum.operators._utils",
           "orquestra.quantum.operators._openfermion_utils.sparse_tools"]


class Gen18(t7.Gen):
    def __init__(self, module, extra):
        super().__init__(module)
        self.constants = set()
        self.origin = {}
        self.xmods = {}
        for m in extra:
            tree = ast.parse(inspect.getsource(m))
            rel = m.__name__.split("quantum.")[-1].replace(".", "/") + ".py"
            for f in tree.body:
                if isinstance(f, ast.FunctionDef):
                    self.funcs[f.name] = f
                    self.origin[f.name] = rel
                    self.xmods[f.name] = m
        self.base = set()
        self.in_base = True

    def freeze_base(self):
        """everything generated so far is T7's file"""
        self.base = set(self.done)
        for i in self.done.values():
            i["base"] = True
        self.n_base = len(self.order)
        self.in_base = False

    # T7's `_make`, with this package's binders (`y : Ext9 R`, `z : ExtSp …` where used), source names and TV18
    def _make(self, cls, meth, argtypes, lit):
        if self.in_base:
            return super()._make(cls, meth, argtypes, lit)
        node = self.method_node(cls, meth)
        varargs = None
        if node.args.vararg and not node.args.args and not node.args.kwarg and not node.args.kwonlyargs:
            varargs = node.args.vararg.arg       # `def f(*args)`: called with ONE positional argument here (checked at the call)
        elif node.args.vararg or node.args.kwarg or node.args.kwonlyargs:
            raise TranslateError("*args / **kwargs")
        names = [a.arg for a in node.args.args] if varargs is None else [varargs]
        static = cls is None or self.is_static(cls, meth)
        pnames = names if static else names[1:]
        if meth == "__init__":
            static = True
        if len(pnames) != len(argtypes):
            raise TranslateError(f"arity: {pnames} vs {argtypes}")
        declared = t7.PARAMS.get((cls, meth), {})
        for p, t in zip(pnames, argtypes):
            if p in declared and declared[p] != t and not (lit is not None and p == "operator") and t != "«none»":
                raise TranslateError(f"parameter {p}: {t}, declared {declared[p]}")
        lean = self.lean_name(cls, meth, argtypes, lit)
        env = {} if static else {"self": TY_OF[cls]}
        env.update(dict(zip(pnames, argtypes)))
        if varargs is not None:
            env["«star»" + varargs] = argtypes[0]
        res = None
        for partial in (False, True):
            rets = [None]
            for _ in range(2):
                tv = TV18(self, cls, meth, env, rets[0], partial, None, lit)
                try:
                    if meth == "__init__":
                        body = tv.block(list(node.body), tail=lambda t: t.init_result())
                        tv.rets = [TY_OF[cls]]
                    else:
                        body = tv.block(list(node.body))
                except NeedPartial:
                    body = None
                    break
                seen = []
                for r in tv.rets:
                    if r not in seen:
                        seen.append(r)
                if not seen:
                    seen = [UNIT]
                if len(seen) == 1 or rets[0] is not None:
                    res = (body, rets[0] or seen[0], partial, tv.sh.get("sp", False))
                    break
                raise TranslateError(f"return types {seen}")
            if res:
                break
        if res is None:
            raise TranslateError("could not be rendered")
        body, ret, partial, sp = res
        binders = [(p, t) for p, t in zip(pnames, argtypes) if t != "«none»"]
        if not static:
            binders = [("self", TY_OF[cls])] + binders
        btxt = " ".join(f"({n} : {t})" for n, t in binders)
        src = self.origin.get(meth) if cls is None and meth in self.origin else "operators/_pauli_operators.py"
        where = f"{src}:{(cls + '.') if cls else ''}{meth}"
        kinds = ", ".join(f"{p} : {t}" for p, t in zip(pnames, argtypes))
        rt = f"Except OQ.Py.Exc4 ({ret})" if partial else ret
        doc = f"/-- translated from `{where}`" + (f" for {kinds}" if kinds else "") + " -/\n"
        pre = "{μ ν ι ω : Type} (k : OQ.Scal R) (x : Ext R) (y : Ext9 R) (z : ExtSp R μ ν ι ω)" if sp else \
            "(k : OQ.Scal R) (x : Ext R) (y : Ext9 R)"
        text = f"{doc}def {lean} {pre} {btxt} : {rt} :=\n  {body}\n"
        return {"lean": lean, "args": [t for _, t in binders], "names": [n for n, _ in binders], "ret": ret, "partial": partial,
                "text": text, "cls": cls, "meth": meth, "lit": lit, "sp": sp, "argtypes": list(argtypes)}

    def lean_name(self, cls, meth, argtypes, lit=None):
        if "«none»" in argtypes:
            name = super().lean_name(cls, meth, [t for t in argtypes if t != "«none»"][:0] or
                                     [t7.PARAMS.get((cls, meth), {}).get(p, t) for p, t in
                                      zip([a.arg for a in self.method_node(cls, meth).args.args if a.arg != "self"], argtypes)], lit)
            return name + "_none"
        node = self.method_node(cls, meth)
        if cls is None and node.args.vararg and not node.args.args:
            return meth.strip("_")
        return super().lean_name(cls, meth, argtypes, lit)


class TV18(t7.TV):
    def sub(self, extra):
        return TV18(self.gen, self.cls, self.meth, {**self.env, **extra}, self.ret, self.partial, self.rec_name, self.slit, self.sh)

    # ------------------------------------------------------------------ ints: Nat ⊂ Int
    @staticmethod
    def to_int(v, t):
        if t == NAT:
            return f"(({v} : Nat) : Int)"
        if t == INTLIT:
            return f"({int(v)} : Int)"
        return v

    def binop(self, n):
        a, ta = self.e(n.left)
        if isinstance(n.op, ast.Add) and ta == LKOP and isinstance(n.right, ast.List):
            parts = [self.coerce(*self.e(x_), KOP) for x_ in n.right.elts]
            return f"({a} ++ [{', '.join(parts)}])", LKOP
        b, tb = self.e(n.right)
        ints = {NAT, INT, INTLIT}
        if {ta, tb} <= ints and {ta, tb} != {INTLIT}:
            mixed = NAT in (ta, tb) and (INT in (ta, tb) or not isinstance(n.op, ast.Add))
            if isinstance(n.op, ast.Pow):
                return f"({self.to_int(a, ta)} ^ (Int.toNat {self.to_int(b, tb)}))", INT
            if mixed and isinstance(n.op, (ast.Add, ast.Sub, ast.Mult)):
                sym = {ast.Add: "+", ast.Sub: "-", ast.Mult: "*"}[type(n.op)]
                return f"({self.to_int(a, ta)} {sym} {self.to_int(b, tb)})", INT
        return self._binop_rendered(n, a, ta, b, tb)

    def _binop_rendered(self, n, a, ta, b, tb):
        # T7's binop re-renders the operands; both are pure texts here, so hand them over through a tiny shim
        shim = ast.BinOp(left=_Pre(a, ta), op=n.op, right=_Pre(b, tb))
        return super().binop(shim)

    def compare(self, n):
        if len(n.ops) == 1 and isinstance(n.ops[0], (ast.Lt, ast.LtE, ast.Gt, ast.GtE, ast.Eq, ast.NotEq)):
            a, ta = self.e(n.left)
            b, tb = self.e(n.comparators[0])
            if {NAT, INT} <= {ta, tb}:
                sym = {ast.Lt: "<", ast.LtE: "≤", ast.Gt: ">", ast.GtE: "≥", ast.Eq: "==", ast.NotEq: "!="}[type(n.ops[0])]
                if sym in ("==", "!="):
                    return f"({self.to_int(a, ta)} {sym} {self.to_int(b, tb)})", BOOL
                return f"(decide ({self.to_int(a, ta)} {sym} {self.to_int(b, tb)}))", BOOL
            if ta == TERMSET and tb == TERMSET and isinstance(n.ops[0], ast.Eq):
                return f"(OQ.Py.setEqBy {self.term_hash_eq()} {self.term_eq()} {a} {b})", BOOL
            shim = ast.Compare(left=_Pre(a, ta), ops=n.ops, comparators=[_Pre(b, tb)])
            return super().compare(shim)
        return super().compare(n)

    def term_hash_eq(self):
        # `hash(a) == hash(b)`: PauliTerm.__hash__ must still exist (its body is not translated)
        self.gen.method_node("PauliTerm", "__hash__")
        return "y.hash_eq"

    def term_eq(self):
        info = self.gen.variant("PauliTerm", "__eq__", [TERM])
        if info["partial"]:
            raise TranslateError("PauliTerm.__eq__(PauliTerm) may raise: not usable as the equality of a set")
        return f"({self.callee(info)})"

    def callee(self, info):
        if info.get("base"):
            return f"TranslatedPauli.{info['lean']} k x"
        if info.get("sp"):
            self.sh["sp"] = True
            return f"{info['lean']} k x y z"
        return f"{info['lean']} k x y"

    # ------------------------------------------------------------------ expressions
    def e(self, n):
        if isinstance(n, _Pre):
            return n.v, n.t
        if isinstance(n, ast.Name) and n.id not in self.env and n.id == "pauli_matrix_map":
            m = self.gen.xmods.get(self.meth)
            pm = getattr(m, "pauli_matrix_map", None)
            if not isinstance(pm, dict) or not all(kk in t7.LET for kk in pm):
                raise TranslateError("pauli_matrix_map is not a dict keyed by letters")
            self.sh["sp"] = True
            return "z.pauli_matrix_map", DICT(LETTER, MAT)
        if isinstance(n, ast.UnaryOp) and isinstance(n.op, ast.Not):
            v, t = self.e(n.operand)
            if t in CLS_OF:
                return f"(!{self.truthy(v, t)})", BOOL
            if is_list(t):
                return f"({v}.isEmpty)", BOOL
            if t != BOOL:
                raise TranslateError("not on a non-bool")
            return f"(!{v})", BOOL
        if isinstance(n, ast.BoolOp):
            parts = [self.e(n.values[0])] + [self.pure_only(v, "a later operand of and/or") for v in n.values[1:]]
            if any(t != BOOL for _, t in parts):
                raise TranslateError("and/or on non-bool operands")
            j = " && " if isinstance(n.op, ast.And) else " || "
            return "(" + j.join(p for p, _ in parts) + ")", BOOL
        if isinstance(n, ast.List) and n.elts:
            parts = [self.e(v) for v in n.elts]
            if len({t for _, t in parts}) == 1 and parts[0][1] == NUM and self.meth == "get_sparse_operator":
                return "[" + ", ".join(self.coerce(p, t, KOP) for p, t in parts) + "]", LKOP
            t0 = parts[0][1]
            if any(t != t0 for _, t in parts):
                raise TranslateError("list literal of mixed types")
            return "[" + ", ".join(str(p) for p, _ in parts) + "]", list_of(t0)
        if isinstance(n, ast.Starred) and _name(n.value) and self.env.get("«star»" + n.value.id):
            return n.value.id, self.env["«star»" + n.value.id]
        if isinstance(n, ast.Tuple) and len(n.elts) == 2 and all(self._is_int_expr(x_) for x_ in n.elts):
            parts = [self.e(x_) for x_ in n.elts]
            return "(" + ", ".join(self.to_int(p, t) for p, t in parts) + ")", "Int × Int"
        return super().e(n)

    def _is_int_expr(self, x_):
        try:
            _, t = self.scoped(lambda: self.e(x_))[0]
        except TranslateError:
            return False
        return t in (INT, NAT)

    def truthy(self, v, t):
        cls = CLS_OF[t]
        if self.gen.has_method(cls, "__bool__") or not self.gen.has_method(cls, "__len__"):
            raise TranslateError(f"truthiness of a {cls}")
        ln, tl = self.invoke(cls, "__len__", [(v, t)])
        return f"(!({ln} == (0 : Int)))"

    def coerce(self, v, tv, want):
        if want == KOP and tv == NUM:
            return f"(KOp.num {v})"
        if want == KOP and tv == MAT:
            return f"(KOp.mat {v})"
        if want == INT and tv == NAT:
            return self.to_int(v, tv)
        if want == OPTINT and tv in (INT, NAT, INTLIT):
            return f"(some {self.to_int(v, tv)})"
        if want == OPTINT and tv == "«none»":
            return "(none : Option Int)"
        return super().coerce(v, tv, want)

    def kinds_of(self, cls_node):
        names = cls_node.elts if isinstance(cls_node, ast.Tuple) else [cls_node]
        extra = set()
        rest = []
        for x_ in names:
            d = x_.id if _name(x_) else _dotted(x_)
            if d in SPARSE_KINDS:
                extra.add(SPARSE_KINDS[d])
            else:
                rest.append(x_)
        if not rest:
            return extra
        node = ast.Tuple(elts=rest, ctx=ast.Load()) if len(rest) > 1 else rest[0]
        return extra | super().kinds_of(node)

    def isinstance_test(self, n):
        if isinstance(n, ast.Call) and _name(n.func, "isinstance") and len(n.args) == 2 and not n.keywords:
            (v, t), _b = self.scoped(lambda: self.e(n.args[0]))
            if t == "«none»":
                self.kinds_of(n.args[1])
                return ("false", None)
        return super().isinstance_test(n)

    def attribute(self, n):
        v, t = self.e(n.value)
        if t == WF and n.attr == "amplitudes":
            self.sh["sp"] = True
            return f"(z.wf_amplitudes {v})", VALS
        return super().attribute(_PreAttr(n, v, t))

    def subscript(self, n):
        if isinstance(n.value, ast.Attribute) and n.value.attr == "shape" and isinstance(n.slice, ast.Constant) and n.slice.value == 0:
            v, t = self.e(n.value.value)
            if t == VALS:
                self.sh["sp"] = True
                return f"(z.shape0 {v})", INT
        return super().subscript(n)

    def invoke(self, cls, meth, args, lit=None):
        if cls is not None or meth not in self.gen.origin:
            # a method / function of _pauli_operators.py: T7's call protocol, but the callee may live in T7's file
            return self._invoke_named(cls, meth, args, lit)
        return self._invoke_named(cls, meth, args, lit)

    def _invoke_named(self, cls, meth, args, lit):
        static = cls is None or self.gen.is_static(cls, meth)
        node = self.gen.method_node(cls, meth)
        if cls is None and node.args.vararg and not node.args.args:
            pnames = [node.args.vararg.arg]
        else:
            pnames = [a.arg for a in node.args.args if static or a.arg != "self"]
        declared = t7.PARAMS.get((cls, meth), {})
        recv, rest = ([], args) if static else (args[:1], args[1:])
        rest_names = [p for p in pnames if p != "operator"] if lit is not None else pnames
        if len(rest) != len(rest_names):
            raise TranslateError(f"{cls}.{meth}: {len(rest)} argument(s) for {rest_names}")
        texts, types = [], []
        for p, (v, t) in zip(rest_names, rest):
            want = declared.get(p)
            if t == "«none»" and want not in (t7.OPTNUM, OPTINT):
                types.append("«none»")
                continue
            if want is None:
                if t == INTLIT:
                    v, t = self.lit(v, NUM), NUM
                if t not in KIND:
                    raise TranslateError(f"{cls}.{meth}: argument {p} of type {t}")
                want = t
            texts.append(self.coerce(v, t, want))
            types.append(want)
        full_types = list(types)
        if lit is not None:
            full_types.insert(pnames.index("operator"), "«lit»")
        info = self.gen.variant(cls, meth, full_types, lit)
        call = "(" + " ".join([self.callee(info)] + [v for v, _ in recv] + texts) + ")"
        if info["partial"]:
            return self.effect(call, info["ret"])
        return call, info["ret"]

    def invoke_init(self, cls, args):
        declared = t7.PARAMS[(cls, "__init__")]
        texts, types = [], []
        for (p, want), (v, t) in zip(declared.items(), args):
            if t == "«none»" and want not in (t7.OPTNUM, OPTINT):
                types.append("«none»")
                continue
            if t == ISD and want == OPSD:
                v, t = self.effect(f"(OQ.Py.natKeysE {v})", OPSD)
            texts.append(self.coerce(v, t, want))
            types.append(want)
        info = self.gen.variant(cls, "__init__", types)
        call = "(" + " ".join([self.callee(info)] + texts) + ")"
        return self.effect(call, info["ret"]) if info["partial"] else (call, info["ret"])

    def invoke_init_lit(self, cls, rest, lit):
        declared = [(p, t) for p, t in t7.PARAMS[(cls, "__init__")].items() if p != "operator"]
        texts = [self.coerce(v, t, want) for (p, want), (v, t) in zip(declared, rest)]
        info = self.gen.variant(cls, "__init__", ["«lit»"] + [t for _, t in declared], lit)
        call = "(" + " ".join([self.callee(info)] + texts) + ")"
        return self.effect(call, info["ret"]) if info["partial"] else (call, info["ret"])

    def sp_ext(self, name, args, ret):
        self.sh["sp"] = True
        return "(" + " ".join([f"z.{name}"] + args) + ")", ret

    def call(self, n):
        f = n.func
        fname = f.id if isinstance(f, ast.Name) else None
        d = _dotted(f) if isinstance(f, ast.Attribute) else None
        kws = {kw.arg: kw.value for kw in n.keywords}

        def kw_is(name, what):
            x_ = kws.get(name)
            return (isinstance(x_, ast.Constant) and x_.value == what) or (_name(x_) and x_.id == what)
        if fname == "set" and len(n.args) == 1 and not n.keywords:
            (v, t), b = self.scoped(lambda: self.e(n.args[0]))
            if t == LTERMS and not b:
                return f"(OQ.Py.setOfListBy {self.term_hash_eq()} {self.term_eq()} {v})", TERMSET
        if fname == "sorted" and len(n.args) == 1 and not n.keywords:
            v, t = self.e(n.args[0])
            if t == FITEMS:
                return f"(OQ.Py.sortedItemsBy ordL {v})", ITEMS
            raise TranslateError(f"sorted({t})")
        if fname == "reduce" and len(n.args) == 2 and not n.keywords and _name(n.args[0]) and n.args[0].id in self.gen.funcs:
            xs, txs = self.e(n.args[1])
            if not is_list(txs):
                raise TranslateError("reduce over a non-list")
            te = elem(txs)
            sub = self.sub({"__ra": te, "__rb": te})
            (r, tr_), b = sub.scoped(lambda: sub.invoke(None, n.args[0].id, [("__ra", te), ("__rb", te)]))
            if b:
                raise TranslateError("reduce with a function that may raise")
            r = sub.coerce(r, tr_, te)
            return self.effect(f"(OQ.Py.reduce1E (fun (__ra : {te}) (__rb : {te}) => {r}) {xs})", te)
        if fname in EXTERNAL_FUNCS and fname in self.gen.origin and not n.keywords:
            args = [self.e(a_) for a_ in n.args]
            want, ret = EXTERNAL_FUNCS[fname]
            if [t for _, t in args] != want:
                raise TranslateError(f"{fname} on {[t for _, t in args]}")
            return self.sp_ext(fname, [v for v, _ in args], ret)
        if fname in self.gen.funcs and fname in self.gen.origin:
            node = self.gen.funcs[fname]
            if node.args.vararg and not node.args.args:
                if len(n.args) != 1 or n.keywords or isinstance(n.args[0], ast.Starred):
                    raise TranslateError(f"{fname}(*args) is called with one positional argument only")
                return self.invoke(None, fname, [self.e(n.args[0])])
            return self.invoke(None, fname, self.call_args(None, fname, n))
        if d == "scipy.sparse.identity" and len(n.args) == 1 and set(kws) == {"dtype", "format"} and kw_is("dtype", "complex") \
                and kw_is("format", "csc"):
            v, t = self.e(n.args[0])
            return self.sp_ext("sp_identity", [self.to_int(v, t)], MAT)
        if d == "scipy.sparse.kron" and len(n.args) == 3 and not n.keywords and isinstance(n.args[2], ast.Constant) \
                and n.args[2].value == "csc":
            (a, ta), (b, tb) = self.e(n.args[0]), self.e(n.args[1])
            return self.sp_ext("kron", [self.coerce(a, ta, KOP), self.coerce(b, tb, KOP)], MAT)
        if d == "scipy.sparse.csc_matrix" and len(n.args) == 1 and set(kws) == {"dtype"} and kw_is("dtype", "complex"):
            v, t = self.e(n.args[0])
            if t == "Int × Int":
                return self.sp_ext("csc_zero", [v], MAT)
        if d == "numpy.concatenate" and len(n.args) == 1 and not n.keywords:
            v, t = self.e(n.args[0])
            if t == list_of(VALS):
                return self.sp_ext("concat_vals", [v], VALS)
            if t == list_of(IDXS):
                return self.sp_ext("concat_idxs", [v], IDXS)
        if isinstance(f, ast.Attribute):
            # coo_matrix((v, (r, c)), shape=(n, n)).tocsc(copy=False)
            if f.attr == "tocsc" and not n.args and kw_is("copy", False) and isinstance(f.value, ast.Call) \
                    and _dotted(f.value.func) == "scipy.sparse.coo_matrix" and len(f.value.args) == 1 \
                    and [kw.arg for kw in f.value.keywords] == ["shape"]:
                a0 = f.value.args[0]
                if isinstance(a0, ast.Tuple) and len(a0.elts) == 2 and isinstance(a0.elts[1], ast.Tuple) and len(a0.elts[1].elts) == 2:
                    (vv, tv_) = self.e(a0.elts[0])
                    (rr, trr), (cc, tcc) = self.e(a0.elts[1].elts[0]), self.e(a0.elts[1].elts[1])
                    sh, tsh = self.e(f.value.keywords[0].value)
                    if (tv_, trr, tcc, tsh) == (VALS, IDXS, IDXS, "Int × Int"):
                        return self.sp_ext("coo_tocsc", [vv, rr, cc, sh], MAT)
            if f.attr == "nonzero" and not n.args and not n.keywords:
                v, t = self.e(f.value)
                if t in (MAT, KOP):
                    return self.sp_ext("nonzero", [self.coerce(v, t, KOP)], f"{IDXS} × {IDXS}")
            if f.attr == "bit_length" and not n.args and not n.keywords:
                v, t = self.e(f.value)
                if t in (INT, NAT):
                    return f"(OQ.Py.bitLength {self.to_int(v, t)})", INT
            if f.attr == "conjugate" and not n.args and not n.keywords:
                v, t = self.e(f.value)
                if t == NUM:
                    return f"(k.cj {v})", NUM
                raise TranslateError(f"conjugate() of {t}")
        return super().call(n)

    def attribute_data(self, n):
        return None

    def call_args(self, cls, meth, n):
        if cls is None:
            node = self.gen.method_node(None, meth)
            params = [a.arg for a in node.args.args]
            defaults = dict(zip(params[len(params) - len(node.args.defaults):], node.args.defaults))
            given = {}
            if len(n.args) > len(params):
                raise TranslateError("too many arguments")
            for p, a in zip(params, n.args):
                given[p] = a
            for kw in n.keywords:
                if kw.arg not in params or kw.arg in given:
                    raise TranslateError(f"keyword {kw.arg}")
                given[kw.arg] = kw.value
            out = []
            for p in params:
                if p in given:
                    out.append(self.e(given[p]))
                elif p in defaults:
                    out.append(self.e(defaults[p]))
                else:
                    raise TranslateError(f"missing argument {p}")
            return out
        return super().call_args(cls, meth, n)

    def construct(self, cls, n):
        return super().construct(cls, n)

    def iter_of(self, n):
        v, t = self.e(n)
        if t == FITEMS:
            return f"(y.items_iter {v})", f"Nat × {LETTER}"
        return super().iter_of(_Pre(v, t))

    # ------------------------------------------------------------------ statements
    def block(self, stmts, tail=None):
        if stmts:
            s, rest = stmts[0], stmts[1:]
            if isinstance(s, ast.AnnAssign) and s.value is not None:
                s = ast.Assign(targets=[s.target], value=s.value, lineno=s.lineno)
            # `.data` of `m.tocoo(copy=False)`
            if isinstance(s, ast.Expr) and isinstance(s.value, ast.Call) and isinstance(s.value.func, ast.Attribute) \
                    and s.value.func.attr == "append" and len(s.value.args) == 1 and _name(s.value.func.value):
                a0 = s.value.args[0]
                if isinstance(a0, ast.Attribute) and a0.attr == "data" and isinstance(a0.value, ast.Call) \
                        and isinstance(a0.value.func, ast.Attribute) and a0.value.func.attr == "tocoo" and not a0.value.args \
                        and [(kw.arg, getattr(kw.value, "value", None)) for kw in a0.value.keywords] == [("copy", False)]:
                    m, tm = self.e(a0.value.func.value)
                    name = s.value.func.value.id
                    if tm in (MAT, KOP) and self.env.get(name) == list_of(VALS):
                        self.sh["sp"] = True
                        return (f"let {name} : {self.env[name]} := {name} ++ [(z.tocoo_data {self.coerce(m, tm, KOP)})]\n  "
                                f"{self.block(rest, tail)}")
            # in-place `m.eliminate_zeros()` on a local matrix: rebinding
            if isinstance(s, ast.Expr) and isinstance(s.value, ast.Call) and isinstance(s.value.func, ast.Attribute) \
                    and s.value.func.attr == "eliminate_zeros" and not s.value.args and not s.value.keywords \
                    and _name(s.value.func.value) and self.env.get(s.value.func.value.id) == MAT:
                name = s.value.func.value.id
                self.sh["sp"] = True
                return f"let {name} : {MAT} := (z.eliminate_zeros {name})\n  {self.block(rest, tail)}"
            if isinstance(s, ast.Assign) and len(s.targets) == 1:
                tgt = s.targets[0]
                # (a, b) = pair-valued expression
                if isinstance(tgt, ast.Tuple) and len(tgt.elts) == 2 and all(_name(x_) for x_ in tgt.elts) and self.slit is None:
                    n0, n1 = tgt.elts[0].id, tgt.elts[1].id

                    def cont(v, t):
                        parts = tr.prod_parts(t)
                        if len(parts) != 2:
                            raise TranslateError(f"unpacking of {t} into two names")
                        pr = self.fresh()
                        return (f"let {pr} : {t} := {v}\n  let {n0} : {parts[0]} := {pr}.1\n  let {n1} : {parts[1]} := {pr}.2\n  "
                                f"{self.sub({n0: parts[0], n1: parts[1]}).block(rest, tail)}")
                    return self.stmt_expr(s.value, cont)
                # x = e on an existing Int variable with a Nat value
                if isinstance(tgt, ast.Name) and self.env.get(tgt.id) == INT and not self.is_empty(s.value) \
                        and not isinstance(s.value, ast.IfExp):
                    name = tgt.id

                    def cont(v, t):
                        if t == INTLIT:
                            v, t = self.lit(v, INT), INT
                        if t == NAT:
                            v, t = self.to_int(v, t), INT
                        return f"let {name} : {t} := {v}\n  {self.sub({name: t}).block(rest, tail)}"
                    return self.stmt_expr(s.value, cont)
                if isinstance(tgt, ast.Subscript) and _name(tgt.value) and self.env.get(tgt.value.id) == ISD:
                    name = tgt.value.id

                    def both():
                        val = self.e(s.value)
                        key = self.e(tgt.slice)
                        return val, key
                    ((v, tv_), (k_, tk)), binds = self.scoped(both)
                    v = self.coerce(v, tv_, LETTER)
                    k_ = self.coerce(k_, tk, INT)
                    return self.wrap_binds(binds, f"let {name} : {ISD} := OQ.Py.dictSet {name} {k_} {v}\n  {self.block(rest, tail)}")
            if isinstance(s, ast.AugAssign) and _name(s.target) and self.env.get(s.target.id) == LKOP:
                name = s.target.id
                new = ast.BinOp(left=ast.Name(id=name, ctx=ast.Load()), op=s.op, right=s.value)

                def cont(v, t):
                    if t != LKOP:
                        raise TranslateError("augmented assignment changes type")
                    return f"let {name} : {t} := {v}\n  {self.block(rest, tail)}"
                return self.stmt_expr(new, cont)
        return super().block(stmts, tail)


    def _for7(self, s, rest, tail):
        # T7's loop rendering; the names a body (re)binds also come from `(a, b) = e`
        (it, te), binds0 = self.scoped(lambda: self.iter_of(s.iter))
        var = s.target.id if isinstance(s.target, ast.Name) else "p0"
        env_t, lets, _ = self._bind_target(s.target, te, var)
        names = _assigned18(s.body)
        for x_ in env_t:
            if x_ in names:
                raise TranslateError("loop variable reassigned")
        state = [x_ for x_ in names if x_ in self.env]
        if not state:
            raise TranslateError("loop without effect")
        tys = [self.env[x_] for x_ in state]
        st_ty = " × ".join(f"({t})" for t in tys)

        def proj(i):
            if len(state) == 1:
                return "st"
            return "st" + ".2" * i + ("" if i == len(state) - 1 else ".1")

        def tup(t):
            for x_, ty in zip(state, tys):
                if t.env.get(x_) != ty:
                    raise TranslateError(f"loop changes the type of {x_}")
            return "(" + ", ".join(state) + ")" if len(state) > 1 else state[0]
        binds = "".join(f"let {x_} : {t} := {proj(i)}\n    " for i, (x_, t) in enumerate(zip(state, tys)))
        lets_nl = lets.replace("; ", "\n    ")
        inner = self.sub(env_t)
        after = binds.replace("\n    ", "\n  ")
        init = "(" + ", ".join(state) + ")" if len(state) > 1 else state[0]
        save_partial = inner.partial
        try:
            inner.partial = False
            n_before = len(self.rets)
            body = inner.block(s.body, tail=tup)
            effectful = False
        except NeedPartial:
            del self.rets[n_before:]
            if not self.partial:
                raise
            inner.partial = True
            body = inner.block(s.body, tail=lambda t: ok(tup(t)))
            effectful = True
        finally:
            inner.partial = save_partial
        cont = self.block(rest, tail)
        if effectful:
            text = (f"Except.bind (OQ.Py.foldlE (fun (st : {st_ty}) ({var} : {te}) =>\n    {binds}{lets_nl}{body}) "
                    f"{init} {it}) (fun (st : {st_ty}) =>\n  {after}{cont})")
        else:
            text = (f"let st : {st_ty} := {it}.foldl (fun (st : {st_ty}) ({var} : {te}) =>\n    {binds}{lets_nl}{body}) "
                    f"{init}\n  {after}{cont}")
        return self.wrap_binds(binds0, text)


def _assigned18(stmts):
    """T4's `_assigned4` with `(a, b) = e` counted as an assignment of `a` and of `b`"""
    from .translate_t4 import _assigned4

    class Split(ast.NodeTransformer):
        def visit_Assign(self, n):
            if len(n.targets) == 1 and isinstance(n.targets[0], ast.Tuple) and all(_name(x_) for x_ in n.targets[0].elts):
                return [ast.Assign(targets=[x_], value=n.value, lineno=n.lineno) for x_ in n.targets[0].elts]
            return n
    import copy
    mod = Split().visit(ast.Module(body=copy.deepcopy(list(stmts)), type_ignores=[]))
    return _assigned4(mod.body)


class _Pre(ast.expr):
    """an already rendered operand (text, type) handed to an inherited method that renders its operands itself"""
    _fields = ()

    def __init__(self, v, t):
        super().__init__()
        self.v, self.t = v, t


class _PreAttr(ast.Attribute):
    def __init__(self, n, v, t):
        super().__init__(value=_Pre(v, t), attr=n.attr, ctx=n.ctx)


HEADER = '''-- generated by harness/translate_t18.py from /repo's current source (operators/_openfermion_utils/operator_utils.py,
-- operators/_utils.py, operators/_openfermion_utils/sparse_tools.py; the classes of operators/_pauli_operators.py through
-- OQ/Generated/TranslatedC03.lean) — do not edit
import OQ.Exec.Py
import OQ.Exec.PyT18
import OQ.Generated.TranslatedC03
set_option linter.unusedVariables false
namespace OQ.Generated.TranslatedOps
open OQ.Pauli (P)
open OQ.Generated.TranslatedPauli

/-- what the operator utilities take from CPython's hashing -/
structure Ext9 (R : Type) where
  /-- `hash(a) == hash(b)` for two PauliTerm objects (`PauliTerm.__hash__` is not translated: it rounds floats) -/
  hash_eq : PTerm R → PTerm R → Bool
  /-- the order in which `for q, op in term.operations` yields the items of the frozenset -/
  items_iter : OQ.Py.FrozenItems Nat Letter → List (Nat × Letter)

/-- an element of the list `sparse_operators`: the coefficient (a number) or a sparse matrix -/
inductive KOp (R μ : Type) where
  | num (c : R)
  | mat (m : μ)

/-- what `get_sparse_operator` / `get_expectation_value` take from scipy.sparse / numpy (`μ`: sparse matrices, `ν`: arrays of values,
    `ι`: arrays of indices, `ω`: wavefunctions) -/
structure ExtSp (R μ ν ι ω : Type) where
  /-- `scipy.sparse.identity(n, dtype=complex, format="csc")` -/
  sp_identity : Int → μ
  /-- the module constant `pauli_matrix_map` (keys in source order) -/
  pauli_matrix_map : OQ.Py.Dict Letter μ
  /-- `scipy.sparse.kron(a, b, "csc")` -/
  kron : KOp R μ → KOp R μ → μ
  /-- `m.tocoo(copy=False).data` (`m`: what `reduce` returned) -/
  tocoo_data : KOp R μ → ν
  /-- `m.nonzero()` -/
  nonzero : KOp R μ → ι × ι
  /-- `numpy.concatenate(list of value arrays)` -/
  concat_vals : List ν → ν
  /-- `numpy.concatenate(list of index arrays)` -/
  concat_idxs : List ι → ι
  /-- `scipy.sparse.csc_matrix((n, m), dtype=complex)` -/
  csc_zero : Int × Int → μ
  /-- `scipy.sparse.coo_matrix((values, (rows, cols)), shape=(n, m)).tocsc(copy=False)` -/
  coo_tocsc : ν → ι → ι → Int × Int → μ
  /-- `m.eliminate_zeros()` (in place; the value of `m` afterwards) -/
  eliminate_zeros : μ → μ
  /-- `expectation(operator, state)` of sparse_tools.py (numpy body) -/
  expectation : μ → ν → R
  /-- `wavefunction.amplitudes` -/
  wf_amplitudes : ω → ν
  /-- `a.shape[0]` -/
  shape0 : ν → Int

variable {R : Type} [Zero R] [One R] [Add R] [Mul R] [Neg R]

'''

ROOTS = [
    (None, "hermitian_conjugated", [TERM]),
    (None, "hermitian_conjugated", [SUM]),
    (None, "is_hermitian", [TERM]),
    (None, "is_hermitian", [SUM]),
    (None, "reverse_qubit_order", [SUM, OPTINT]),
    (None, "reverse_qubit_order", [TERM, OPTINT]),
    (None, "get_sparse_operator", [SUM, OPTINT]),
    (None, "get_sparse_operator", [TERM, OPTINT]),
    (None, "get_expectation_value", [SUM, WF, BOOL]),
    (None, "get_expectation_value", [TERM, WF, BOOL]),
]


def translate(module=None, extra=None):
    """-> (lean text of OQ/Generated/TranslatedC09Ops.lean, {lean name: info} of THIS file, {root description: error})"""
    import importlib
    if module is None:
        import orquestra.quantum.operators._pauli_operators as module
    if extra is None:
        extra = [importlib.import_module(m) for m in SOURCES]
    gen = Gen18(module, extra)
    # T7's own roots first: what they generate is T7's file (called there, not repeated here)
    for cls, meth, args in t7.ROOTS:
        try:
            gen.variant(cls, meth, args)
        except TranslateError:
            pass
    gen.freeze_base()
    notes = {}
    for cls, meth, args in ROOTS:
        try:
            gen.variant(cls, meth, args)
        except TranslateError as e:
            notes[f"{meth}({', '.join(KIND.get(a, a) for a in args)})"] = str(e)
    body = "\n".join(gen.order[gen.n_base:])
    tail = "".join(f"-- {k}: NOT TRANSLATABLE ({v}) — the current source left the supported subset\n" for k, v in notes.items())
    text = HEADER + body + "\n" + tail + "end OQ.Generated.TranslatedOps\n"
    infos = {i["lean"]: i for key, i in gen.done.items() if key not in gen.base}
    return text, infos, notes
